"""SessionInfo.min_rates is an INTEGER array: a fractional minimum pilot is truncated when the
uninterrupted-charging preprocessing writes it, and a session whose estimator bound lies below that
minimum is then switched OFF (pilot 0) instead of being held at the minimum pilot.

Run:  cd /repo && /venv/bin/python /tmp/min_rates_repro.py        (exit 1 = wrong outcome shown)

Needs BOTH options of the stock sorted algorithm: uninterrupted_charging=True AND estimate_max_rate=True
(SimpleRampdown).  Without the estimator max_rates[0] stays at the EVSE maximum, the interval
[12, 32] still contains 12.5 and nothing is visible (that is why a plain FCFS probe gives 12.5 A).

One FiniteRatesEVSE, one car whose battery takes ~7.2 A whatever the pilot (1.5 kW at 208 V), no
constraint that binds.  Periods 0, 1: pilot 32 A, rate 7.2 A (the estimator has no previous-period data before
period 2, interface.py:359-360).  Period 2: SimpleRampdown lowers the bound to 7.2 + 1 = 8.2 A, which is below
the station's minimum pilot, so
    apply_upper_bound_estimate docstring: "If rampdown max_rate is less than min_rate, max_rate is set
                                           equal to min_rate"
    apply_minimum_charging_rate docstring: "min_rates[0] is equal to the greater of the session minimum
                                            rate and the EVSE minimum pilot"
i.e. the session must be held at the minimum pilot.  With allowable rates {12, 16, 24, 32} it is held at
12 A (control).  With {12.5, 16, 24, 32} it gets 0 A from period 2 on and never charges again.
"""
import os
import sys
import warnings
from datetime import datetime

sys.path.insert(0, os.getcwd())
warnings.simplefilter("ignore")

import numpy as np  # noqa: E402
from acnportal import acnsim  # noqa: E402
from acnportal.acnsim.interface import SessionInfo  # noqa: E402
from acnportal.algorithms import SortedSchedulingAlgo, SimpleRampdown, first_come_first_served  # noqa: E402
import acnportal  # noqa: E402

print("acnportal from", os.path.dirname(acnportal.__file__))


def run(rates):
    net = acnsim.ChargingNetwork()
    net.register_evse(acnsim.FiniteRatesEVSE("S", rates), 208, 0)
    net.add_constraint(acnsim.Current(["S"]), 100, name="slack")          # never binds
    ev = acnsim.EV(0, 8, 20.0, "S", "car", acnsim.Battery(100, 10, 1.5))   # 1.5 kW / 208 V = 7.21 A
    algo = SortedSchedulingAlgo(first_come_first_served, estimate_max_rate=True,
                                max_rate_estimator=SimpleRampdown(), uninterrupted_charging=True)
    algo.max_recompute = 1
    sim = acnsim.Simulator(net, algo, acnsim.EventQueue([acnsim.PluginEvent(0, ev)]), datetime(2020, 1, 1),
                           period=5, verbose=False)
    sim.run()
    return [float(x) for x in sim.pilot_signals[0][:8]], float(ev.energy_delivered), \
        float(algo.max_rate_estimator.upper_bounds["car"])


# the root cause in isolation
s = SessionInfo("S", "car", 20.0, 0.0, 0, 8)
print("SessionInfo(...).min_rates.dtype =", s.min_rates.dtype, "(interface.py:94-95: np.array([0] * remaining_time))")
s.min_rates[0] = max(12.5, s.min_rates[0])          # what preprocessing.py:140 does
print("after  min_rates[0] = max(12.5, min_rates[0])  ->  min_rates[0] =", s.min_rates[0])

ctl_p, ctl_e, ctl_ub = run([0, 12, 16, 24, 32])
got_p, got_e, got_ub = run([0, 12.5, 16, 24, 32])
exp_p = [32.0, 32.0] + [12.5] * 6
print()
print("control, rates {0,12,16,24,32}:   pilots", ctl_p, " energy %.3f kWh  estimator bound %.3f" % (ctl_e, ctl_ub))
print("rates {0,12.5,16,24,32} OBSERVED: pilots", got_p, " energy %.3f kWh  estimator bound %.3f" % (got_e, got_ub))
print("rates {0,12.5,16,24,32} EXPECTED: pilots", exp_p, " (held at the minimum pilot, energy = control's %.3f kWh)" % ctl_e)
bad = not np.allclose(got_p, exp_p)
print()
print("WRONG: the session is switched off instead of being held at its minimum pilot 12.5 A" if bad
      else "ok: the session is held at 12.5 A")
sys.exit(1 if bad else 0)
