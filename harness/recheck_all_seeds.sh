#!/bin/bash
# Maintainer tool (never part of a registered check): re-run every confirmed seeded change against the check
# of its own property (quick tier) and refresh seeded/<name>/meta.json.   usage: recheck_all_seeds.sh [parallelism]
cd "$(dirname "$0")/.."
P=${1:-3}
ls -d seeded/C*-* | sed 's#seeded/##' | sort -V | xargs -P "$P" -I{} sh -c 'p=$(echo {} | sed "s/-.*//"); /venv/bin/python harness/seedtool.py confirm {} --checks $p --recheck 2>&1 | grep -E "^check" | sed "s/^/{}: /"'
