"""T1 for C09 — the serialisation attribute lists of every `BaseSimObj` class, extracted from
/repo's *working tree* → lean/AcnModel/Gen/Serial.lean.  Two sources, united per class:
  (a) the AST (no code is executed; sees every syntactic path, but only literal key lists), and
  (b) BEHAVIOUR: rich simulator object graphs are built from the working tree (all EVSE / battery /
      event classes, native and stochastic network, mid-run), `vars(obj)` gives the instance attributes,
      `obj._to_dict()` the dumped keys (keys holding registry ids are references), and `cls._from_dict`
      run on a recording dict gives the keys it really reads.
  (b) makes the table insensitive to HOW the lists are written (comprehension, hoisted class tuple,
  flipped conditionals …); (a) keeps the classes no live object has (abstract bases) and paths the
  sample objects do not take.

For every class that (transitively) derives from `BaseSimObj`:

  init      attribute names assigned as `self.x = …` (also tuple targets, annotated assignments)
            in `__init__`, following `super().__init__(…)` to the base class (or the inherited
            `__init__` when the class defines none)
  dumped    keys written into the attribute dict by `_to_dict`: `d["k"] = …`, a dict literal bound
            to the dict, `for a in <literal list>: d[a] = getattr(self, a)`, following
            `super()._to_dict(…)`
  restored  keys read from the attribute dict by `_from_dict` and the `_from_dict_helper`s it calls:
            `attribute_dict["k"]`, `for a in <literal list>: setattr(obj, a, attribute_dict[a])`
  refs      dumped keys whose value is produced by `<something>._to_registry(…)` (object references)
  ownDump / ownLoad   does the class define `_to_dict` / `_from_dict` itself?

The proof obligation `Acn.C09.attrs_complete` (lean/AcnProofs/C09.lean) is a `decide` over this table.
"""
from __future__ import annotations

import ast
import os

REPO = os.environ.get("ACN_REPO", "/repo")

FILES = [
    "acnportal/acnsim/simulator.py",
    "acnportal/acnsim/network/charging_network.py",
    "acnportal/contrib/acnsim/network/stochastic_network.py",
    "acnportal/acnsim/models/evse.py",
    "acnportal/acnsim/models/ev.py",
    "acnportal/acnsim/models/battery.py",
    "acnportal/acnsim/events/event.py",
    "acnportal/acnsim/events/event_queue.py",
]
ROOT = "BaseSimObj"


def _classes():
    out = {}
    order = []
    for rel in FILES:
        path = os.path.join(REPO, rel)
        if not os.path.exists(path):
            continue
        tree = ast.parse(open(path).read())
        for n in tree.body:
            if isinstance(n, ast.ClassDef):
                bases = [b.id if isinstance(b, ast.Name) else getattr(b, "attr", "") for b in n.bases]
                out[n.name] = {"node": n, "bases": bases, "file": rel}
                order.append(n.name)
    return out, order


def _derives(cls, classes, seen=None):
    seen = seen or set()
    if cls == ROOT:
        return True
    if cls not in classes or cls in seen:
        return False
    seen.add(cls)
    return any(_derives(b, classes, seen) for b in classes[cls]["bases"])


def _method(node, name):
    for n in node.body:
        if isinstance(n, ast.FunctionDef) and n.name == name:
            return n
    return None


def _resolve(cls, classes, name):
    """(owner class, FunctionDef) of the method `name` as seen from `cls` (single inheritance)."""
    cur = cls
    while cur in classes:
        m = _method(classes[cur]["node"], name)
        if m is not None:
            return cur, m
        bs = [b for b in classes[cur]["bases"] if b in classes]
        if not bs:
            return None, None
        cur = bs[0]
    return None, None


def _calls_super(fn, name):
    for n in ast.walk(fn):
        if isinstance(n, ast.Call) and isinstance(n.func, ast.Attribute) and n.func.attr == name:
            v = n.func.value
            if isinstance(v, ast.Call) and isinstance(v.func, ast.Name) and v.func.id == "super":
                return True
    return False


def _base(cls, classes):
    bs = [b for b in classes[cls]["bases"] if b in classes]
    return bs[0] if bs else None


def _self_targets(t, out):
    if isinstance(t, ast.Attribute) and isinstance(t.value, ast.Name) and t.value.id == "self":
        if t.attr not in out:
            out.append(t.attr)
    elif isinstance(t, (ast.Tuple, ast.List)):
        for e in t.elts:
            _self_targets(e, out)


def init_attrs(cls, classes):
    owner, fn = _resolve(cls, classes, "__init__")
    if fn is None:
        return []
    out = []
    if _calls_super(fn, "__init__") and _base(owner, classes):
        out.extend(init_attrs(_base(owner, classes), classes))
    for n in ast.walk(fn):
        if isinstance(n, ast.Assign):
            for t in n.targets:
                _self_targets(t, out)
        elif isinstance(n, (ast.AnnAssign, ast.AugAssign)):
            _self_targets(n.target, out)
    return out


def _literal_lists(fn):
    """name ↦ list of string constants, for `name = ["a", "b", …]` in the function body."""
    res = {}
    for n in ast.walk(fn):
        if isinstance(n, ast.Assign) and len(n.targets) == 1 and isinstance(n.targets[0], ast.Name):
            if isinstance(n.value, (ast.List, ast.Tuple)) and all(
                isinstance(e, ast.Constant) and isinstance(e.value, str) for e in n.value.elts
            ):
                res[n.targets[0].id] = [e.value for e in n.value.elts]
    return res


def _add(out, k):
    if k not in out:
        out.append(k)


def dumped_keys(cls, classes):
    """(keys, refs) of `_to_dict` as seen from cls."""
    owner, fn = _resolve(cls, classes, "_to_dict")
    if fn is None:
        return [], []
    keys, refs = [], []
    if _calls_super(fn, "_to_dict") and _base(owner, classes):
        k0, r0 = dumped_keys(_base(owner, classes), classes)
        keys.extend(k0)
        refs.extend(r0)
    lists = _literal_lists(fn)
    # names bound to the result of a `_to_registry` call (…`registry, context_dict = x._to_registry(…)`)
    has_registry = any(
        isinstance(n, ast.Call) and isinstance(n.func, ast.Attribute) and n.func.attr == "_to_registry"
        for n in ast.walk(fn)
    )

    def mentions_registry(v):
        return any(isinstance(m, ast.Name) and m.id in ("registry",) for m in ast.walk(v))

    # local containers filled with registry ids (`evses[station_id] = registry["id"]`, `.append(registry["id"])`)
    ref_locals = set()
    for n in ast.walk(fn):
        if isinstance(n, ast.Assign) and isinstance(n.targets[0], ast.Subscript) and isinstance(n.targets[0].value, ast.Name):
            if mentions_registry(n.value) and n.targets[0].value.id != "attribute_dict":
                ref_locals.add(n.targets[0].value.id)
        if isinstance(n, ast.Call) and isinstance(n.func, ast.Attribute) and n.func.attr == "append" and isinstance(n.func.value, ast.Name):
            if any(mentions_registry(a) for a in n.args):
                ref_locals.add(n.func.value.id)
    for n in ast.walk(fn):
        if isinstance(n, ast.Assign):
            t = n.targets[0]
            # attribute_dict = {"k": …}
            if isinstance(t, ast.Name) and t.id == "attribute_dict" and isinstance(n.value, ast.Dict):
                for k in n.value.keys:
                    if isinstance(k, ast.Constant):
                        _add(keys, k.value)
            # attribute_dict["k"] = …
            if isinstance(t, ast.Subscript) and isinstance(t.value, ast.Name) and t.value.id == "attribute_dict":
                s = t.slice
                if isinstance(s, ast.Constant):
                    _add(keys, s.value)
                    if has_registry and (mentions_registry(n.value) or (isinstance(n.value, ast.Name) and n.value.id in ref_locals)):
                        _add(refs, s.value)
        if isinstance(n, ast.For) and isinstance(n.iter, ast.Name) and n.iter.id in lists:
            # for attr in lst: attribute_dict[attr] = getattr(self, attr)
            for m in ast.walk(n):
                if isinstance(m, ast.Assign) and isinstance(m.targets[0], ast.Subscript):
                    tv = m.targets[0]
                    if isinstance(tv.value, ast.Name) and tv.value.id == "attribute_dict" and isinstance(tv.slice, ast.Name):
                        for k in lists[n.iter.id]:
                            _add(keys, k)
    return keys, refs


def restored_keys(cls, classes, name="_from_dict", seen=None):
    seen = seen or set()
    owner, fn = _resolve(cls, classes, name)
    if fn is None or (owner, name) in seen:
        return []
    seen.add((owner, name))
    out = []
    lists = _literal_lists(fn)
    for n in ast.walk(fn):
        if isinstance(n, ast.Subscript) and isinstance(n.value, ast.Name) and n.value.id == "attribute_dict":
            if isinstance(n.slice, ast.Constant) and isinstance(n.slice.value, str):
                _add(out, n.slice.value)
        if isinstance(n, ast.For) and isinstance(n.iter, ast.Name) and n.iter.id in lists:
            uses = any(
                isinstance(m, ast.Subscript) and isinstance(m.value, ast.Name) and m.value.id == "attribute_dict"
                and isinstance(m.slice, ast.Name) for m in ast.walk(n)
            )
            if uses:
                for k in lists[n.iter.id]:
                    _add(out, k)
        # helpers: cls._from_dict_helper(…) / super()._from_dict(…)
        if isinstance(n, ast.Call) and isinstance(n.func, ast.Attribute) and n.func.attr.startswith("_from_dict") and n.func.attr != name:
            for k in restored_keys(cls, classes, n.func.attr, seen):
                _add(out, k)
    if _calls_super(fn, name) and _base(owner, classes):
        for k in restored_keys(_base(owner, classes), classes, name, seen):
            _add(out, k)
    return out



# ------------------------------------------------------------------------------------ behavioural source


class _Rec(dict):
    """attribute dict that records the keys `_from_dict` reads"""

    def __init__(self, d):
        super().__init__(d)
        self.reads = []

    def __getitem__(self, k):
        if k not in self.reads:
            self.reads.append(k)
        return super().__getitem__(k)

    def get(self, k, default=None):
        if k not in self.reads:
            self.reads.append(k)
        return super().get(k, default)

    def pop(self, k, *a):
        if k not in self.reads:
            self.reads.append(k)
        return super().pop(k, *a)


def _rich_sims():
    """simulators built from the working tree whose object graphs contain every serialisable class"""
    import sys
    import warnings
    from datetime import datetime
    sys.path.insert(0, REPO)
    import importlib
    sim_m = importlib.import_module("acnportal.acnsim.simulator")
    net_m = importlib.import_module("acnportal.acnsim.network.charging_network")
    cur_m = importlib.import_module("acnportal.acnsim.network.current")
    evse_m = importlib.import_module("acnportal.acnsim.models.evse")
    ev_m = importlib.import_module("acnportal.acnsim.models.ev")
    bat_m = importlib.import_module("acnportal.acnsim.models.battery")
    evt_m = importlib.import_module("acnportal.acnsim.events.event")
    q_m = importlib.import_module("acnportal.acnsim.events.event_queue")
    alg_m = importlib.import_module("acnportal.algorithms")
    try:
        sto_m = importlib.import_module("acnportal.contrib.acnsim.network.stochastic_network")
    except Exception:  # noqa: BLE001
        sto_m = None
    sims = []
    for netcls in [net_m.ChargingNetwork] + ([sto_m.StochasticNetwork] if sto_m is not None else []):
        net = netcls()
        net.register_evse(evse_m.EVSE("S0", max_rate=32), 208, 30)
        net.register_evse(evse_m.DeadbandEVSE("S1", deadband_end=6, max_rate=32), 208, -90)
        net.register_evse(evse_m.FiniteRatesEVSE("S2", [0, 8, 16, 24, 32]), 208, 150)
        net.add_constraint(cur_m.Current(["S0", "S1", "S2"]), 60, name="all")
        evs = [
            ev_m.EV(0, 9, 5.0, "S0", "a", bat_m.Battery(20, 2, 6.6), estimated_departure=8),
            ev_m.EV(1, 7, 4.0, "S1", "b", bat_m.Linear2StageBattery(20, 10, 6.6, noise_level=0.1, transition_soc=0.7,
                                                                     charge_calculation="stepwise")),
            ev_m.EV(2, 8, 3.0, "S2", "c", bat_m.Linear2StageBattery(30, 12, 6.6)),
            ev_m.EV(6, 12, 3.0, "S0", "d", bat_m.Battery(10, 1, 6.6)),
        ]
        q = q_m.EventQueue([evt_m.PluginEvent(e.arrival, e) for e in evs] + [evt_m.RecomputeEvent(5), evt_m.RecomputeEvent(11)])
        with warnings.catch_warnings():
            warnings.simplefilter("ignore")
            sim = sim_m.Simulator(net, alg_m.UncontrolledCharging(), q, datetime(2020, 1, 1), period=5, verbose=False,
                                  store_schedule_history=True)
            # stop in the middle: pending events of every kind, occupied stations, a non-trivial history
            import numpy as np
            np.random.seed(0)
            for _ in range(4):
                sim.step(sim.scheduler.run())
        sims.append(sim)
    return sims


def _objects(sim):
    """every BaseSimObj of the simulator's graph (by identity)"""
    base = type(sim).__mro__[-2]  # BaseSimObj
    seen, out, todo = set(), [], [sim]
    while todo:
        o = todo.pop()
        if id(o) in seen or not isinstance(o, base):
            continue
        seen.add(id(o))
        out.append(o)
        for v in vars(o).values():
            stack = [v]
            while stack:
                x = stack.pop()
                if isinstance(x, base):
                    todo.append(x)
                elif isinstance(x, dict):
                    stack.extend(x.values())
                elif isinstance(x, (list, tuple)):
                    stack.extend(x)
    return out


def _holds_id(v, ctx):
    if isinstance(v, str):
        return v in ctx
    if isinstance(v, dict):
        return any(_holds_id(x, ctx) for x in v.values())
    if isinstance(v, (list, tuple)):
        return any(_holds_id(x, ctx) for x in v)
    return False


def dynamic_table():
    """class name ↦ {init, dumped, refs, restored} observed on live objects of the working tree"""
    import importlib
    import warnings
    res = {}
    for sim in _rich_sims():
        with warnings.catch_warnings():
            warnings.simplefilter("ignore")
            reg, ctx = sim._to_registry()
            base = type(sim).__mro__[-2]  # BaseSimObj

            def row_of(cname):
                return res.setdefault(cname, {"init": [], "dumped": [], "refs": [], "restored": []})

            def lineage(cls):
                # the class itself and its serialisable bases (abstract bases have no live object of their own:
                # their methods are observed on the subclass objects)
                return [c for c in cls.__mro__ if issubclass(c, base) and c is not base]

            for o in _objects(sim):
                for k in vars(o):
                    _add(row_of(type(o).__name__)["init"], k)
                for c in lineage(type(o)):
                    try:
                        own, octx = c._to_dict(o, {})
                    except Exception:  # noqa: BLE001
                        continue
                    for k, v in own.items():
                        _add(row_of(c.__name__)["dumped"], k)
                        if _holds_id(v, octx):
                            _add(row_of(c.__name__)["refs"], k)
            for oid, od in ctx.items():
                mod, _, cname = od["class"].rpartition(".")
                cls = getattr(importlib.import_module(mod), cname)
                for c in lineage(cls):
                    rec = _Rec(od["attributes"])
                    try:
                        c._from_dict(rec, ctx, {})
                    except Exception:  # noqa: BLE001  (the reads made before the failure still count)
                        pass
                    for k in rec.reads:
                        _add(row_of(c.__name__)["restored"], k)
    return res


def table():
    classes, order = _classes()
    try:
        dyn = dynamic_table()
        dyn_err = None
    except Exception as e:  # noqa: BLE001  (the AST source alone is then used; recorded in the file)
        dyn, dyn_err = {}, f"{type(e).__name__}: {e}"
    rows = []
    for c in order:
        if c == ROOT or not _derives(c, classes):
            continue
        keys, refs = dumped_keys(c, classes)
        row = {
            "name": c, "file": classes[c]["file"], "base": _base(c, classes) or ROOT,
            "init": init_attrs(c, classes), "dumped": keys, "refs": refs,
            "restored": restored_keys(c, classes),
            "ownDump": _method(classes[c]["node"], "_to_dict") is not None,
            "ownLoad": _method(classes[c]["node"], "_from_dict") is not None,
        }
        for f in ("init", "dumped", "refs", "restored"):
            for k in dyn.get(c, {}).get(f, []):
                _add(row[f], k)
        rows.append(row)
    table.dyn_err = dyn_err
    table.dyn_classes = sorted(dyn)
    return rows


def _ls(xs):
    return "[" + ", ".join('"' + x.replace('"', '\\"') + '"' for x in xs) + "]"


def gen_serial():
    out = ["/- GENERATED by harness/translate_serial.py from /repo's working tree — do not edit. -/",
           "namespace Acn.Gen", "",
           "/-- what `__init__`, `_to_dict` and `_from_dict` of one `BaseSimObj` class say about its attributes -/",
           "structure SerialClass where",
           "  name : String", "  base : String", "  init : List String", "  dumped : List String",
           "  refs : List String", "  restored : List String", "  ownDump : Bool", "  ownLoad : Bool", ""]
    rows = table()
    out.append(f"-- behavioural source: live objects of classes {getattr(table, 'dyn_classes', [])}"
               + (f"; FAILED: {table.dyn_err}" if getattr(table, "dyn_err", None) else ""))
    out.append("def serialClasses : List SerialClass := [")
    for i, r in enumerate(rows):
        out.append(f"  -- {r['file']}")
        out.append("  { name := \"%s\", base := \"%s\"," % (r["name"], r["base"]))
        out.append(f"    init := {_ls(r['init'])},")
        out.append(f"    dumped := {_ls(r['dumped'])},")
        out.append(f"    refs := {_ls(r['refs'])},")
        out.append(f"    restored := {_ls(r['restored'])},")
        out.append("    ownDump := %s, ownLoad := %s }%s" % (str(r["ownDump"]).lower(), str(r["ownLoad"]).lower(),
                                                             "," if i + 1 < len(rows) else ""))
    out.append("]")
    out.append("")
    out.append("end Acn.Gen")
    return "\n".join(out) + "\n"


if __name__ == "__main__":
    print(gen_serial())
