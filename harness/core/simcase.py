"""Whole-simulation scenarios: generator, builder of the REAL acnsim Simulator, canonical
observation, request for the compiled `Sim` model (lean/AcnModel/Sim.lean, WireSim.lean,
driver `drv_C01`), and the comparison of the two.  Reused by C01, C02, C04, C05, C09, C10.

A case is a JSON-able dict:

  {"stations": [{"id": "S0", "kind": <kind>, "V": 208, "phase": 0}, ...],     # register order
   "constraint": null | {"limit": 64.0},       # one aggregate constraint over all stations
   "sessions": [{"session": "x0", "station": "S0", "arrival": 1, "departure": 4,
                 "requested": 10.0, "batt": <battery spec of core.impl>, "est": null}, ...],
                                               # list order = order of the PluginEvents in the queue
   "recomputes": [3, 7],                       # extra RecomputeEvents
   "period": 5, "max_recompute": null | n,
   "noise": [0.3, -0.2, ...],                  # values returned by numpy.random.normal, cyclic
   "sched": {"type": "empty"} |
            {"type": "scripted", "default": <sched>, "script": [{"t": 3, "sched": <sched>} |
                                                                 {"t": 5, "fail": true}]} |
            {"type": "uncontrolled" | "fcfs" | "rr"}      # real algorithms: implementation only
   }
  <kind>  = {"t":"cont","min":0,"max":32} | {"t":"deadband","db":6,"max":32} | {"t":"finite","rates":[…]}
  <sched> = [[station_id, [pilot, …]], …]      (dict insertion order)

Hooks (for the properties that build on this): `Hooks(before=…, after=…, fail_at=…, network_cls=…)`.
"""
from __future__ import annotations

import contextlib
import copy
import warnings
from datetime import datetime
from typing import Any, Callable, Dict, List, Optional

import numpy as np

from acnportal.acnsim.simulator import Simulator
from acnportal.acnsim.network.charging_network import ChargingNetwork
from acnportal.acnsim.network.current import Current
from acnportal.acnsim.events import EventQueue, PluginEvent, RecomputeEvent
from acnportal.algorithms import BaseAlgorithm

from .common import f2b, b2f, close
from . import impl as I

START = datetime(2020, 1, 6, 8, 0, 0)

AV_RATES = [0] + list(range(6, 33))
CC_RATES = [0, 8, 16, 24, 32]


# ------------------------------------------------------------------------------- hooks


class SchedulerFailure(Exception):
    """raised by the scripted scheduler at a `fail` entry (stands for any scheduler crash)"""


class Hooks:
    """Extension points for the properties that reuse the scenario machinery.

    before(algo, interface, sessions)            called in schedule() before the decision
    after(algo, interface, sessions, schedule)   called after it; may return a replacement schedule
    fail_at                                      set of periods in which schedule() raises
                                                 SchedulerFailure (each period only once, so that a
                                                 second run() resumes)
    network_cls                                  ChargingNetwork subclass to instantiate
    """

    def __init__(self, before=None, after=None, fail_at=None, network_cls=None):
        self.before = before
        self.after = after
        self.fail_at = set(fail_at or [])
        self.network_cls = network_cls


class SnapshotNetwork(ChargingNetwork):
    """ChargingNetwork whose public extension point records occupancy in every period."""

    def __init__(self, *a, **k):
        super().__init__(*a, **k)
        self.occ_log: List[List[Optional[str]]] = []

    def post_charging_update(self):
        self.occ_log.append(
            [(e.ev.session_id if e.ev is not None else None) for e in self._EVSEs.values()]
        )


_JSON_OCC: List[List[Optional[str]]] = []


class JsonLogNetwork(ChargingNetwork):
    """like SnapshotNetwork, but the log is a module-level list: no instance attribute is added, so that
    `to_json` / `from_json` treat the object exactly like the plain class (an attribute `__init__` sets that `_to_dict`
    does not know would be dumped by the generic fallback and never restored — an artefact of the harness)."""

    def post_charging_update(self):
        _JSON_OCC.append([(e.ev.session_id if e.ev is not None else None) for e in self._EVSEs.values()])


class ScriptedAlgo(BaseAlgorithm):
    """period ↦ schedule dict (possibly multi-period), `default` otherwise; may fail at chosen periods."""

    def __init__(self, script: List[dict], default, hooks: Optional[Hooks] = None):
        super().__init__()
        self.script = {int(e["t"]): e for e in script}
        self.default = default
        self.hooks = hooks or Hooks()
        self.failed = set()
        self.calls: List[int] = []

    def _entry(self, t):
        e = self.script.get(t)
        if e is None:
            return _sched_dict(self.default)
        if e.get("fail"):
            if t not in self.failed:
                self.failed.add(t)
                raise SchedulerFailure(f"scripted failure at period {t}")
            return _sched_dict(e.get("sched", self.default))
        return _sched_dict(e["sched"])

    def run(self):
        self.calls.append(self.interface.current_time)      # `scheduler.run()` was invoked
        return super().run()

    def schedule(self, active_sessions):
        t = self.interface.current_time
        h = self.hooks
        if h.before is not None:
            h.before(self, self.interface, active_sessions)
        if t in h.fail_at and ("hook", t) not in self.failed:
            self.failed.add(("hook", t))
            raise SchedulerFailure(f"hook failure at period {t}")
        s = self._entry(t)
        if h.after is not None:
            r = h.after(self, self.interface, active_sessions, s)
            if r is not None:
                s = r
        return s


class WrappedAlgo(BaseAlgorithm):
    """Wraps a real algorithm with the same hooks (recording / mutating / failing)."""

    def __init__(self, inner: BaseAlgorithm, hooks: Optional[Hooks] = None):
        super().__init__()
        self.inner = inner
        self.hooks = hooks or Hooks()
        self.max_recompute = inner.max_recompute
        self.failed = set()
        self.calls: List[int] = []

    def register_interface(self, interface):
        super().register_interface(interface)
        self.inner.register_interface(interface)

    def run(self):
        self.calls.append(self.interface.current_time)
        return super().run()

    def schedule(self, active_sessions):
        t = self.interface.current_time
        h = self.hooks
        if h.before is not None:
            h.before(self, self.interface, active_sessions)
        if t in h.fail_at and t not in self.failed:
            self.failed.add(t)
            raise SchedulerFailure(f"hook failure at period {t}")
        s = self.inner.schedule(active_sessions)
        if h.after is not None:
            r = h.after(self, self.interface, active_sessions, s)
            if r is not None:
                s = r
        return s


def _sched_dict(s) -> Dict[str, List[float]]:
    if isinstance(s, dict):
        return {k: list(v) for k, v in s.items()}
    return {k: [float(I.num(x)) for x in v] for k, v in (s or [])}


@contextlib.contextmanager
def noise_stream(values: List[float]):
    """numpy.random.normal returns values[k % len] on its k-th call (0.0 for an empty list):
    the draws are an input of both the implementation and the model."""
    st = {"k": 0}
    orig = np.random.normal
    vals = [float(v) for v in (values or [])]

    def fake(loc=0.0, scale=1.0, size=None):
        v = vals[st["k"] % len(vals)] if vals else 0.0
        st["k"] += 1
        return v

    np.random.normal = fake
    try:
        yield st
    finally:
        np.random.normal = orig


# ------------------------------------------------------------------------------- building


def make_scheduler(case: dict, hooks: Optional[Hooks] = None) -> BaseAlgorithm:
    sc = case.get("sched") or {"type": "empty"}
    t = sc["type"]
    if t == "empty":
        algo = ScriptedAlgo([], [], hooks)
    elif t == "scripted":
        algo = ScriptedAlgo(sc.get("script", []), sc.get("default", []), hooks)
    else:
        from acnportal import algorithms as A
        if t == "uncontrolled":
            inner = A.UncontrolledCharging()
        elif t == "fcfs":
            inner = A.SortedSchedulingAlgo(A.first_come_first_served)
        elif t == "edf":
            inner = A.SortedSchedulingAlgo(A.earliest_deadline_first)
        elif t == "rr":
            inner = A.RoundRobin(A.first_come_first_served)
        else:
            raise ValueError(t)
        inner.max_recompute = case.get("max_recompute")
        algo = WrappedAlgo(inner, hooks)
    algo.max_recompute = case.get("max_recompute")
    return algo


def build_sim(case: dict, hooks: Optional[Hooks] = None, store_schedule_history: bool = False):
    """Construct the REAL Simulator for a case.  Returns (sim, ctx); ctx has the network, the
    scheduler, the EV objects by position (`ctx['evs']`) and the hooks."""
    hooks = hooks or Hooks()
    net_cls = hooks.network_cls or SnapshotNetwork
    net = net_cls()
    for st in case["stations"]:
        net.register_evse(I.make_evse(st["kind"], st["id"]), I.num(st["V"]), I.num(st.get("phase", 0)))
    con = case.get("constraint")
    if con:
        net.add_constraint(Current([st["id"] for st in case["stations"]]), I.num(con["limit"]), name="agg")
    evs = [I.make_ev(s) for s in case["sessions"]]
    events = [PluginEvent(ev.arrival, ev) for ev in evs]
    events += [RecomputeEvent(int(r)) for r in case.get("recomputes", [])]
    queue = EventQueue(events)
    algo = make_scheduler(case, hooks)
    sim = Simulator(net, algo, queue, START, period=I.num(case["period"]), verbose=False,
                    store_schedule_history=store_schedule_history)
    return sim, {"network": net, "scheduler": algo, "evs": evs, "hooks": hooks}


def err_name(e: BaseException) -> str:
    if isinstance(e, SchedulerFailure):
        return "SchedulerFailed"
    if isinstance(e, IndexError):
        return "IndexError"
    return I.err_name(e)


def run_sim(sim) -> Optional[str]:
    """sim.run(); returns the error class if it raised, else None."""
    try:
        with warnings.catch_warnings():
            warnings.simplefilter("ignore")
            sim.run()
    except Exception as e:  # noqa: BLE001 – every exception class is an observation
        return err_name(e)
    return None


def _ev_kind(e) -> str:
    return e.event_type


def observe(sim, ctx, err: Optional[str]) -> dict:
    """Canonical, JSON-able observation of a simulator (after run() returned or raised)."""
    net = sim.network
    evh = []
    for e in sim.event_history:
        sid = e.ev.session_id if hasattr(e, "ev") else ""
        evh.append([int(e.timestamp), e.event_type, sid])
    pend = []
    for ts, e in sim.event_queue.queue:
        pend.append([int(ts), e.event_type, e.ev.session_id if hasattr(e, "ev") else ""])
    evs = []
    for ev in ctx["evs"]:
        b = I.batt_state(ev._battery)
        evs.append({"session": ev.session_id, "delivered": float(ev.energy_delivered),
                    "rate": float(ev.current_charging_rate), "charge": b["charge"], "power": b["power"]})
    return {
        "err": err,
        "iter": int(sim.iteration),
        "queue_empty": bool(sim.event_queue.empty()),
        "pending": sorted(pend),
        "resolve": bool(sim._resolve),
        "last_upd": None if sim._last_schedule_update is None else int(sim._last_schedule_update),
        "event_history": evh,
        "ev_history": list(sim.ev_history.keys()),
        "invoked": list(getattr(ctx["scheduler"], "calls", [])),
        "occ_final": [(net.get_ev(s).session_id if net.get_ev(s) is not None else None) for s in net.station_ids],
        "occ": [list(r) for r in getattr(net, "occ_log", [])],
        "pilots": [[float(x) for x in row] for row in sim.pilot_signals],
        "rates": [[float(x) for x in row] for row in sim.charging_rates],
        "peak": float(sim.peak),
        "evs": evs,
        "evse_pilot": [float(net._EVSEs[s].current_pilot) for s in net.station_ids],
    }


def run_impl(case: dict, hooks: Optional[Hooks] = None) -> dict:
    """Build and run the real simulator; canonical observation."""
    with noise_stream(case.get("noise", [])) as ns:
        sim, ctx = build_sim(case, hooks)
        err = run_sim(sim)
        obs = observe(sim, ctx, err)
        obs["noise_draws"] = ns["k"]
    return obs


def run_impl_resume(case: dict, hooks: Optional[Hooks] = None, keep: Optional[dict] = None) -> dict:
    """Run; when run() raises, call run() again on the same object (crash/resume).  The
    observation of the first (failed) run is kept under 'first'.
    `keep`, when given, receives the simulator and its context (keep["sim"], keep["ctx"]) for further observation."""
    with noise_stream(case.get("noise", [])) as ns:
        sim, ctx = build_sim(case, hooks)
        err = run_sim(sim)
        if err is None:
            obs = observe(sim, ctx, None)
        else:
            first = observe(sim, ctx, err)
            err2 = run_sim(sim)
            obs = observe(sim, ctx, err2)
            obs["first"] = first
        if keep is not None:
            keep["sim"], keep["ctx"] = sim, ctx
        obs["noise_draws"] = ns["k"]
    return obs


def _all_evs_of(sim) -> Dict[str, object]:
    """session id -> EV object, from the places a simulator keeps EVs (history, stations, pending events)"""
    by: Dict[str, object] = {}
    for sid, ev in sim.ev_history.items():
        by.setdefault(sid, ev)
    for evse in sim.network._EVSEs.values():
        if evse.ev is not None:
            by.setdefault(evse.ev.session_id, evse.ev)
    for _ts, e in sim.event_queue.queue:
        if hasattr(e, "ev"):
            by.setdefault(e.ev.session_id, e.ev)
    return by


def run_impl_resume_json(case: dict, hooks: Optional[Hooks] = None, keep: Optional[dict] = None) -> dict:
    """Run; when run() raises, write the simulator to JSON, load it back, hand the loaded simulator the SAME algorithm
    object (update_scheduler) and run() it (crash / to_json / from_json / resume).  By C09 the completed simulation must
    equal the one resumed in place, so the observation has the shape of `run_impl_resume` and is compared with the same
    model answer.  Sessions that can no longer be found in the loaded simulator are listed under 'missing_evs'.
    `keep`, when given, receives the final simulator and its context (keep["sim"], keep["ctx"]) for further observation."""
    from acnportal.acnsim import Simulator as _Sim
    hooks = hooks or Hooks()
    if hooks.network_cls is None:
        hooks.network_cls = JsonLogNetwork
    del _JSON_OCC[:]
    with noise_stream(case.get("noise", [])) as ns:
        sim, ctx = build_sim(case, hooks)
        err = run_sim(sim)
        if err is None:
            obs = observe(sim, ctx, None)
        else:
            first = observe(sim, ctx, err)
            first["occ"] = [list(r) for r in _JSON_OCC]
            with warnings.catch_warnings():
                warnings.simplefilter("ignore")
                sim2 = _Sim.from_json(sim.to_json())
                sim2.update_scheduler(ctx["scheduler"])
            by = _all_evs_of(sim2)
            ctx2 = {"network": sim2.network, "scheduler": ctx["scheduler"], "hooks": hooks,
                    "evs": [by[s["session"]] for s in case["sessions"] if s["session"] in by]}
            err2 = run_sim(sim2)
            obs = observe(sim2, ctx2, err2)
            obs["first"] = first
            obs["missing_evs"] = [s["session"] for s in case["sessions"] if s["session"] not in by]
            obs["same_object"] = sim2 is sim
            obs["via_json"] = True
            sim, ctx = sim2, ctx2
        if keep is not None:
            keep["sim"], keep["ctx"] = sim, ctx
        obs["occ"] = [list(r) for r in _JSON_OCC]
        obs["noise_draws"] = ns["k"]
    return obs


def run_impl_steps(case: dict, hooks: Optional[Hooks] = None, keep: Optional[dict] = None, finish: bool = False) -> dict:
    """Drive the real simulator with `Simulator.step(schedule)` instead of `run()`: one call per
    entry of case["steps"] (a list of <sched>); stops at the first call that raises.  The
    observation carries "step_results": [[err|None, returned flag|None, iteration after the call]]."""
    with noise_stream(case.get("noise", [])) as ns:
        sim, ctx = build_sim(case, hooks)
        results = []
        err = None
        for sch in case.get("steps", []):
            try:
                with warnings.catch_warnings():
                    warnings.simplefilter("ignore")
                    done = sim.step(_sched_dict(sch))
                results.append([None, bool(done), int(sim.iteration)])
            except Exception as e:  # noqa: BLE001
                results.append([err_name(e), None, int(sim.iteration)])
                break
        err2 = run_sim(sim) if (finish and err is None) else None     # finish=True: the rest of the simulation through run()
        obs = observe(sim, ctx, err2)
        obs["step_results"] = results
        obs["noise_draws"] = ns["k"]
        if keep is not None:
            keep["sim"], keep["ctx"] = sim, ctx
    return obs


# ------------------------------------------------------------------------------- model side


def sched_wire(s) -> list:
    if isinstance(s, dict):
        s = list(s.items())
    return [[k, [f2b(float(I.num(x))) for x in v]] for k, v in (s or [])]


def is_modelled(case: dict) -> bool:
    return (case.get("sched") or {"type": "empty"})["type"] in ("empty", "scripted")


def model_request(case: dict, fail_at=None, resume: bool = False, queue: str = "canonical") -> Optional[dict]:
    """Request for drv_C01 (None for the real algorithms, which only the oracle sees).
    fail_at: extra periods at which the scheduler raises; resume=True asks the driver to
    continue a failed run with the same script minus the failures; queue="heap" runs the model
    over the transcription of CPython's array heap (exact tie order: use `compare(...,
    exact_ties=True)`), "canonical" over the stable-sort queue (ties canonicalised by `compare`)."""
    if not is_modelled(case):
        return None
    sc = case.get("sched") or {"type": "empty"}
    fail_at = set(fail_at or [])
    script = []
    script_clean = []
    seen = set()
    for e in sc.get("script", []):
        t = int(e["t"])
        seen.add(t)
        clean = {"t": t, "fail": False, "sched": sched_wire(e.get("sched", sc.get("default", [])))}
        script_clean.append(clean)
        if e.get("fail") or t in fail_at:
            script.append({"t": t, "fail": True})
        else:
            script.append(clean)
    for t in sorted(fail_at - seen):
        script.append({"t": int(t), "fail": True})
    default = sched_wire(sc.get("default", []))
    req = {
        "stations": [{"id": st["id"], "kind": I.kind_wire(st["kind"]), "V": f2b(I.num(st["V"]))} for st in case["stations"]],
        "evs": [I.ev_wire(s) for s in case["sessions"]],
        "recomputes": [[int(r), f"r{i}"] for i, r in enumerate(case.get("recomputes", []))],
        "max_recompute": case.get("max_recompute"),
        "period": f2b(I.num(case["period"])),
        "noise": [f2b(float(v)) for v in case.get("noise", [])],
        "sched": {"type": "scripted", "default": default, "script": script},
    }
    if resume:
        req["resume"] = {"type": "scripted", "default": default, "script": script_clean}
    if "steps" in case:
        req["steps"] = [sched_wire(x) for x in case["steps"]]
    if queue == "heap":
        req["queue"] = "heap"
    return req


def decode_model(m: dict) -> dict:
    """Model answer with doubles decoded (same layout as `observe`)."""
    out = dict(m)
    out["pilots"] = [[b2f(x) for x in row] for row in m["pilots"]]
    out["rates"] = [[b2f(x) for x in row] for row in m["rates"]]
    out["peak"] = b2f(m["peak"])
    out["evse_pilot"] = [b2f(x) for x in m["evse_pilot"]]
    out["evs"] = [{"session": e["session"], "delivered": b2f(e["delivered"]), "rate": b2f(e["rate"]),
                   "charge": b2f(e["charge"]), "power": b2f(e["power"])} for e in m["evs"]]
    out["event_history"] = [[e[0], e[1], e[2] if e[1] != "Recompute" else ""] for e in m["event_history"]]
    out["pending"] = sorted([e[0], e[1], e[2] if e[1] != "Recompute" else ""] for e in m["pending"])
    if "first" in m:
        out["first"] = decode_model(m["first"])
    return out


PREC = {"Unplug": 0, "Plugin": 1, "Recompute": 2}


def canon_events(evh: List[list]) -> List[list]:
    """The properties do not fix the order among events with the same (timestamp, kind): sort
    each maximal run of equal (ts, kind) by session id.  The order of the runs is kept."""
    out: List[list] = []
    i = 0
    while i < len(evh):
        j = i
        while j < len(evh) and evh[j][0] == evh[i][0] and evh[j][1] == evh[i][1]:
            j += 1
        out.extend(sorted(evh[i:j], key=lambda e: e[2]))
        i = j
    return out


def canon_evh(keys: List[str], case: dict) -> List[str]:
    """ev_history keys: plug-in order; ties (same arrival) sorted by id."""
    arr = {s["session"]: s["arrival"] for s in case["sessions"]}
    out: List[str] = []
    i = 0
    while i < len(keys):
        j = i
        while j < len(keys) and arr.get(keys[j]) == arr.get(keys[i]):
            j += 1
        out.extend(sorted(keys[i:j]))
        i = j
    return out


def tie_sensitive_error(case: dict, obs: dict) -> bool:
    """An error raised while a plug-in event was processed (StationOccupied, KeyError for an
    unregistered station) in a period that holds another plug-in with the same timestamp: which
    of the equal-key events the heap hands out first — hence what had been processed when the
    run aborted — is left open by the model."""
    err = obs.get("err")
    if err is None and obs.get("step_results"):
        err = obs["step_results"][-1][0]          # driven through step(): error of the last call
    if err not in ("StationOccupied", "KeyError"):
        return False
    t = obs["iter"]
    if t in obs.get("invoked", []):          # raised later, by _update_schedules
        return False
    evh = obs.get("event_history", [])
    if not evh or evh[-1][1] != "Plugin":
        return False
    ts = evh[-1][0]
    return sum(1 for s in case["sessions"] if s["arrival"] == ts) >= 2


def _mat_diff(name, a, b, diffs):
    if len(a) != len(b) or any(len(x) != len(y) for x, y in zip(a, b)):
        diffs.append(f"{name}: shape impl {len(a)}x{len(a[0]) if a else 0} model {len(b)}x{len(b[0]) if b else 0}")
        return
    for i, (ra, rb) in enumerate(zip(a, b)):
        for t, (x, y) in enumerate(zip(ra, rb)):
            if not close(x, y):
                diffs.append(f"{name}[{i}][{t}]: impl {x!r} model {y!r}")
                return


def compare_state(case: dict, obs: dict, m: dict, diffs: List[str], tag: str = "", exact_ties: bool = False) -> None:
    """obs: `observe` output, m: decoded model answer.  exact_ties: the model ran over the heap
    queue, so event order among equal keys is compared exactly and nothing is exempted."""
    if exact_ties:
        if obs["event_history"] != m["event_history"]:
            diffs.append(f"{tag}event_history (exact order): impl {obs['event_history']} model {m['event_history']}")
        if obs["ev_history"] != m["ev_history"]:
            diffs.append(f"{tag}ev_history (exact order): impl {obs['ev_history']} model {m['ev_history']}")
    tie = (not exact_ties) and tie_sensitive_error(case, obs)
    for k in ("err", "iter") if tie else ("err", "iter", "queue_empty", "resolve", "last_upd"):
        if obs[k] != m[k]:
            diffs.append(f"{tag}{k}: impl {obs[k]!r} model {m[k]!r}")
    if m.get("fuel_exhausted"):
        diffs.append(f"{tag}model ran out of fuel")
    if tie:
        t = obs["iter"]
        a = canon_events([e for e in obs["event_history"] if e[0] < t])
        b = canon_events([e for e in m["event_history"] if e[0] < t])
        if a != b:
            diffs.append(f"{tag}event_history before the failing period: impl {a} model {b}")
        return
    if canon_events(obs["event_history"]) != canon_events(m["event_history"]):
        diffs.append(f"{tag}event_history: impl {obs['event_history']} model {m['event_history']}")
    if canon_evh(obs["ev_history"], case) != canon_evh(m["ev_history"], case):
        diffs.append(f"{tag}ev_history: impl {obs['ev_history']} model {m['ev_history']}")
    if obs["pending"] != m["pending"]:
        diffs.append(f"{tag}pending: impl {obs['pending']} model {m['pending']}")
    if obs["invoked"] != m["invoked"]:
        diffs.append(f"{tag}scheduler invoked: impl {obs['invoked']} model {m['invoked']}")
    if obs["occ_final"] != m["occ_final"]:
        diffs.append(f"{tag}final occupancy: impl {obs['occ_final']} model {m['occ_final']}")
    if obs["occ"] != m["occ"]:
        k = next((i for i, (x, y) in enumerate(zip(obs["occ"], m["occ"])) if x != y), min(len(obs["occ"]), len(m["occ"])))
        diffs.append(f"{tag}occupancy log differs first at period {k}: impl {obs['occ'][k:k+1]} model {m['occ'][k:k+1]}")
    _mat_diff(tag + "pilot_signals", obs["pilots"], m["pilots"], diffs)
    _mat_diff(tag + "charging_rates", obs["rates"], m["rates"], diffs)
    if not close(obs["peak"], m["peak"]):
        diffs.append(f"{tag}peak: impl {obs['peak']!r} model {m['peak']!r}")
    for x, y in zip(obs["evs"], m["evs"]):
        for k in ("delivered", "rate", "charge", "power"):
            if not close(x[k], y[k]):
                diffs.append(f"{tag}ev {x['session']} {k}: impl {x[k]!r} model {y[k]!r}")
    for i, (x, y) in enumerate(zip(obs["evse_pilot"], m["evse_pilot"])):
        if not close(x, y):
            diffs.append(f"{tag}EVSE {i} current_pilot: impl {x!r} model {y!r}")
    if "noise_draws" in obs and obs["noise_draws"] != m.get("noise_draws"):
        diffs.append(f"{tag}noise draws consumed: impl {obs['noise_draws']} model {m.get('noise_draws')}")


def compare(case: dict, obs: dict, model: dict, exact_ties: bool = False) -> List[str]:
    diffs: List[str] = []
    m = decode_model(model)
    compare_state(case, obs, m, diffs, exact_ties=exact_ties)
    if "step_results" in obs or "step_results" in m:
        if obs.get("step_results") != m.get("step_results"):
            diffs.append(f"step() results [err, returned, iteration]: impl {obs.get('step_results')} model {m.get('step_results')}")
    if "first" in obs or "first" in m:
        if ("first" in obs) != ("first" in m):
            diffs.append("resume: only one side failed in the first run")
        else:
            o1 = dict(obs["first"])
            o1.pop("noise_draws", None)
            compare_state(case, o1, m["first"], diffs, tag="first run: ", exact_ties=exact_ties)
    return diffs[:12]


# ------------------------------------------------------------------------------- generation


def gen_kind(rng) -> dict:
    r = rng.random()
    if r < 0.35:
        return {"t": "cont", "min": 0, "max": rng.choice([32, 32, 16, 80, "inf"])}
    if r < 0.55:
        return {"t": "deadband", "db": rng.choice([6, 6, 8]), "max": rng.choice([32, 16, 48])}
    if r < 0.75:
        return {"t": "finite", "rates": list(AV_RATES)}
    if r < 0.9:
        return {"t": "finite", "rates": list(CC_RATES)}
    return {"t": "finite", "rates": rng.sample([6, 8, 10, 12.5, 16, 20, 24, 30, 32], rng.randint(1, 5))}


def valid_pilot(rng, kind: dict) -> float:
    """A pilot the EVSE accepts (incl. values at the edge of its tolerance)."""
    t = kind["t"]
    if t == "finite":
        v = float(rng.choice([0] + [I.num(r) for r in kind["rates"]]))
        return v + rng.choice([0, 0, 0, 5e-4, -5e-4])
    mx = I.num(kind["max"])
    hi = 40.0 if mx == float("inf") else mx
    lo = I.num(kind["db"]) if t == "deadband" else I.num(kind.get("min", 0))
    r = rng.random()
    if r < 0.2:
        return 0.0 if (t == "deadband" or lo == 0) else float(lo)
    if r < 0.35:
        return float(hi)
    if r < 0.45:
        return float(lo)
    if r < 0.55:
        return float(rng.choice([lo, hi])) + rng.choice([5e-4, -5e-4]) * (1 if lo > 0 or t == "deadband" else 0)
    return round(rng.uniform(lo, hi), rng.choice([0, 1, 3]))


def invalid_pilot(rng, kind: dict) -> float:
    t = kind["t"]
    if t == "finite":
        rates = sorted(set([0.0] + [float(I.num(r)) for r in kind["rates"]]))
        return rng.choice([rates[-1] + 1.5, -2.0, rates[-1] + 0.002, 3.3 if 3.3 not in rates else 4.4])
    mx = I.num(kind["max"])
    if mx == float("inf"):
        return -1.0
    if t == "deadband":
        return rng.choice([I.num(kind["db"]) / 2, mx + 0.5, mx + 0.0011, -0.5])
    return rng.choice([mx + 0.5, mx + 0.0011, -0.5, -0.0011])


def gen_battery(rng) -> dict:
    cap = rng.choice([10, 40, 60.5, 100])
    two = rng.random() < 0.4
    b = {"two": two, "cap": cap, "init": round(rng.uniform(0, cap), 3) if rng.random() < 0.85 else rng.choice([0, cap]),
         "maxp": rng.choice([3.3, 6.6, 7, 50])}
    if two:
        b.update({"noise": rng.choice([0, 0, 0.5, 2.0]), "ts": rng.choice([0.8, 0.5, 0.9]),
                  "calc": rng.choice(["continuous", "stepwise"])})
    return b


def gen_schedule(rng, case: dict, bad: Optional[str] = None) -> list:
    """One schedule dict (as a list of pairs): random subset of stations, 1-4 periods."""
    sts = case["stations"]
    r = rng.random()
    if r < 0.1:
        return []
    sub = [s for s in sts if rng.random() < 0.75] or [rng.choice(sts)]
    rng.shuffle(sub)
    n = rng.choice([1, 1, 2, 3, 4, 6])
    out = [[s["id"], [valid_pilot(rng, s["kind"]) for _ in range(n)]] for s in sub]
    if bad == "invalid_rate":
        k = rng.randrange(len(out))
        kind = next(s["kind"] for s in sts if s["id"] == out[k][0])
        out[k][1][rng.randrange(n)] = invalid_pilot(rng, kind)
    elif bad == "unknown_station":
        out.insert(rng.randrange(len(out) + 1), ["nowhere", [0.0] * n])
    elif bad == "ragged":
        if len(out) == 1:
            other = [s for s in sts if s["id"] != out[0][0]]
            if other:
                out.append([other[0]["id"], [0.0] * n])
        if len(out) > 1:
            out[-1][1] = out[-1][1] + [0.0]
    return out


def gen_case(rng, malformed: bool = False, real_algos: bool = False, max_sessions: int = 25,
             max_stations: int = 6) -> dict:
    """Structured scenario (DESIGN §6 C01): 1-6 stations of mixed EVSE classes, 0-25 sessions laid
    out per station so that about half of all reuse is back-to-back, arrivals from a small range
    (many simultaneous events), extra recomputes, period in {0.5,1,5,15}, max_recompute in
    {None,1,2,5}, scripted multi-period / empty schedulers (or a real algorithm)."""
    ns = rng.randint(1, max_stations)
    # registration order is NOT the lexicographic order of the ids in most cases (anything that silently
    # re-sorts stations by id - a dict rebuilt from sorted keys, a set - must show up)
    labels = [f"S{i}" for i in range(ns)]
    if ns > 1 and rng.random() < 0.7:
        labels = rng.sample(["S" + x for x in ("10", "2", "b", "A", "07", "a1", "Z", "0", "3", "x-1", "k", "11")], ns)
    stations = [{"id": labels[i], "kind": gen_kind(rng), "V": rng.choice([208, 208, 240, 120, 277.5]),
                 "phase": rng.choice([0, 30, -90, 150])} for i in range(ns)]
    case: Dict[str, Any] = {"stations": stations}
    case["constraint"] = {"limit": rng.choice([40.0, 64.0, 200.0, 1000.0])} if (real_algos or rng.random() < 0.5) else None
    total = rng.choice([0, 1, 2, 3, 5, 8, 12, 18, 25])
    total = min(total, max_sessions)
    horizon0 = rng.choice([2, 4, 8])
    sessions = []
    cursor = {st["id"]: rng.randint(0, horizon0) for st in stations}
    k = 0
    while k < total:
        st = rng.choice(stations)["id"]
        gap = rng.choice([0, 0, 0, 1, 2, 3]) if any(s["station"] == st for s in sessions) else 0
        arr = cursor[st] + gap
        dur = rng.choice([1, 1, 2, 3, 4, 6, 9])
        dep = arr + dur
        cursor[st] = dep
        sessions.append({"session": f"x{k}", "station": st, "arrival": arr, "departure": dep,
                         "requested": round(rng.uniform(0.05, 12), 3), "batt": gen_battery(rng),
                         "est": rng.choice([None, None, dep + 1, max(arr + 1, dep - 1)])})
        k += 1
    rng.shuffle(sessions)          # queue insertion order is not chronological
    case["sessions"] = sessions
    hi = max([s["departure"] for s in sessions] + [horizon0])
    nrec = rng.choice([0, 0, 1, 2, 3])
    case["recomputes"] = [rng.randint(0, hi + 2) for _ in range(nrec)]
    if sessions and rng.random() < 0.3:      # recompute sharing a period with an unplug and a plug-in
        case["recomputes"].append(rng.choice(sessions)["departure"])
    case["period"] = rng.choice([0.5, 1, 5, 15])
    case["max_recompute"] = rng.choice([None, None, 1, 2, 5])
    case["noise"] = [round(rng.gauss(0, 1.0), 4) for _ in range(rng.randint(1, 7))]
    last = max([s["departure"] for s in sessions] + case["recomputes"] + [0])
    if real_algos:
        case["sched"] = {"type": rng.choice(["uncontrolled", "fcfs", "rr", "edf"])}
        for st in stations:        # round robin enumerates [min, max] in steps: needs a finite max
            if st["kind"]["t"] == "cont" and st["kind"]["max"] == "inf":
                st["kind"]["max"] = 32
            # ... and they hand out pilots inside a deadband (observed: 5.7 A on DeadbandEVSE(6)),
            # which the EVSE refuses: outside C01's premise, so real algorithms get plain EVSEs here
            if st["kind"]["t"] == "deadband":
                st["kind"] = {"t": "cont", "min": 0, "max": st["kind"]["max"]}
        return case
    r = rng.random()
    if r < 0.15:
        case["sched"] = {"type": "empty"}
    else:
        default = gen_schedule(rng, case) if rng.random() < 0.5 else []
        script = []
        for t in range(0, last + 2):
            if rng.random() < 0.55:
                script.append({"t": t, "sched": gen_schedule(rng, case)})
        case["sched"] = {"type": "scripted", "default": default, "script": script}
    if malformed:
        _malform(rng, case, last)
    return case


def _malform(rng, case: dict, last: int) -> None:
    """Inject one fault class (the model and the implementation must raise the same error class
    in the same period): overlapping sessions, unknown station, departure ≤ arrival, invalid
    pilot, schedule for an unknown station, ragged schedule, scheduler crash, an EVSE with
    min_rate > 0 (which refuses pilot 0)."""
    ss = case["sessions"]
    sc = case["sched"]
    kinds = ["overlap", "unknown_station", "dep_le_arr", "invalid_rate", "sched_unknown_station", "ragged",
             "sched_fail", "min_rate"]
    kind = rng.choice(kinds)
    if not ss and kind in ("overlap", "unknown_station", "dep_le_arr"):
        kind = rng.choice(kinds[3:])
    case["malformed"] = kind
    if kind == "overlap" and ss:
        a = rng.choice(ss)
        off = rng.choice([0, 0, 1, -1, 2])
        arr = max(0, a["arrival"] + off)
        if not (a["arrival"] <= arr < a["departure"]):
            arr = a["arrival"]
        ss.insert(rng.randrange(len(ss) + 1), {
            "session": "ov", "station": a["station"], "arrival": arr, "departure": arr + rng.choice([1, 2, 5]),
            "requested": 5.0, "batt": gen_battery(rng), "est": None})
    elif kind == "unknown_station" and ss:
        rng.choice(ss)["station"] = "nowhere"
    elif kind == "dep_le_arr" and ss:
        a = rng.choice(ss)
        a["departure"] = a["arrival"] - rng.choice([0, 0, 1, 2])
        a["est"] = None
    elif kind == "min_rate":
        st = rng.choice(case["stations"])
        st["kind"] = {"t": "cont", "min": 6, "max": 32}
    else:
        if sc["type"] != "scripted":
            sc = case["sched"] = {"type": "scripted", "default": [], "script": []}
        t = rng.randint(0, last + 1)
        sc["script"] = [e for e in sc["script"] if e["t"] != t]
        if kind == "sched_fail":
            sc["script"].append({"t": t, "fail": True})
        else:
            bad = {"invalid_rate": "invalid_rate", "sched_unknown_station": "unknown_station", "ragged": "ragged"}[kind]
            s = []
            while not s:
                s = gen_schedule(rng, case, bad=bad)
            sc["script"].append({"t": t, "sched": s})
        sc["script"].sort(key=lambda e: e["t"])


def gen_step_case(rng, max_sessions: int = 8) -> dict:
    """A scenario driven through `Simulator.step()`: the list of schedules handed to successive calls."""
    case = gen_case(rng, max_sessions=max_sessions, max_stations=4)
    case["sched"] = {"type": "empty"}
    case["max_recompute"] = rng.choice([None, None, None, None, 1, 2, 5])
    last = max([s["departure"] for s in case["sessions"]] + case["recomputes"] + [0])
    case["steps"] = [gen_schedule(rng, case) for _ in range(rng.randint(1, min(last + 3, 12)))]
    return case


def is_valid_layout(case: dict) -> bool:
    """`Valid S R` of the theorems: distinct ids, registered stations, 0 ≤ arrival < departure,
    sessions on one station pairwise non-overlapping, recomputes ≥ 0."""
    ids = [s["session"] for s in case["sessions"]]
    if len(set(ids)) != len(ids):
        return False
    sts = {st["id"] for st in case["stations"]}
    for s in case["sessions"]:
        if s["station"] not in sts or not (0 <= s["arrival"] < s["departure"]):
            return False
    for i, a in enumerate(case["sessions"]):
        for b in case["sessions"][i + 1:]:
            if a["station"] == b["station"] and not (a["departure"] <= b["arrival"] or b["departure"] <= a["arrival"]):
                return False
    return all(r >= 0 for r in case.get("recomputes", []))
