"""Shared plumbing for the acnportal verification harness.

Everything here is generic: float<->bit-pattern wire encoding, tolerant numeric comparison,
the Lean tool chain (translate / build / axiom audit / forbidden-token grep), the compiled
model drivers (line protocol), known findings, evidence and replay files.
"""
from __future__ import annotations

import fcntl
import hashlib
import json
import math
import os
import re
import struct
import subprocess
import sys
import time
from typing import Any, Dict, Iterable, List, Optional, Tuple

HARNESS = os.path.dirname(os.path.dirname(os.path.abspath(__file__)))
VERIF = os.path.dirname(HARNESS)
LEAN = os.path.join(VERIF, "lean")
REPO = os.environ.get("ACN_REPO", "/repo")
# evidence/ describes /repo itself; runs against a scratch tree (ACN_REPO=<worktree>, used to test seeded
# changes) write to evidence_scratch/ (git-ignored) so that they never overwrite the committed evidence
EVIDENCE = os.path.join(VERIF, "evidence" if os.path.realpath(REPO) == "/repo" else "evidence_scratch")
REPLAYS = os.path.join(VERIF, "replays")
KNOWN = os.path.join(VERIF, "known_findings.json")

ALLOWED_AXIOMS = {"propext", "Classical.choice", "Quot.sound"}

# --------------------------------------------------------------------------- numerics


def f2b(x: float) -> int:
    """IEEE-754 bit pattern of a double, as an unsigned integer (wire format)."""
    return struct.unpack("<Q", struct.pack("<d", float(x)))[0]


def b2f(n: int) -> float:
    return struct.unpack("<d", struct.pack("<Q", int(n)))[0]


def fs2b(xs: Iterable[float]) -> List[int]:
    return [f2b(x) for x in xs]


def b2fs(ns: Iterable[int]) -> List[float]:
    return [b2f(n) for n in ns]


SLACK = 1e-9


def close(a: float, b: float, tol: float = SLACK) -> bool:
    """DESIGN §4: |a-b| <= tol + tol*max(|a|,|b|); inf==inf, nan==nan."""
    a = float(a)
    b = float(b)
    if math.isnan(a) or math.isnan(b):
        return math.isnan(a) and math.isnan(b)
    if math.isinf(a) or math.isinf(b):
        return a == b
    return abs(a - b) <= tol + tol * max(abs(a), abs(b))


def close_list(a, b, tol: float = SLACK) -> bool:
    a = list(a)
    b = list(b)
    return len(a) == len(b) and all(close(x, y, tol) for x, y in zip(a, b))


def case_hash(obj: Any) -> str:
    return hashlib.sha1(json.dumps(obj, sort_keys=True, default=str).encode()).hexdigest()[:12]


# --------------------------------------------------------------------------- lean


class _Lock:
    """Workspace lock (flock on lean/.lake/verif.lock), re-entrant within one process so that
    check.py can hold it across translate + build + audit (otherwise a concurrent check run
    against another ACN_REPO could regenerate Gen/*.lean between our translate and our build)."""
    _depth = 0
    _file = None

    def __enter__(self):
        if _Lock._depth == 0:
            os.makedirs(os.path.join(LEAN, ".lake"), exist_ok=True)
            _Lock._file = open(os.path.join(LEAN, ".lake", "verif.lock"), "w")
            fcntl.flock(_Lock._file, fcntl.LOCK_EX)
        _Lock._depth += 1
        return self

    def __exit__(self, *a):
        _Lock._depth -= 1
        if _Lock._depth == 0:
            fcntl.flock(_Lock._file, fcntl.LOCK_UN)
            _Lock._file.close()
            _Lock._file = None


def workspace_lock():
    return _Lock()


def run_translate() -> Tuple[bool, str]:
    """Regenerate lean/AcnModel/Gen/*.lean from /repo's working tree (T1)."""
    with _Lock():
        p = subprocess.run(
            [sys.executable, os.path.join(HARNESS, "translate.py")],
            capture_output=True,
            text=True,
        )
    return p.returncode == 0, p.stdout + p.stderr


def lake_build(targets: List[str], timeout: int = 3000) -> Tuple[bool, str]:
    with _Lock():
        p = subprocess.run(
            ["lake", "build"] + targets, cwd=LEAN, capture_output=True, text=True, timeout=timeout
        )
    return p.returncode == 0, p.stdout + p.stderr


_COMMENT_BLOCK = re.compile(r"/-.*?-/", re.S)
_COMMENT_LINE = re.compile(r"--.*")
FORBIDDEN = re.compile(
    r"\bsorry\b|\badmit\b|\bnative_decide\b|\bbv_decide\b|^\s*axiom\s|implemented_by|\bunsafe\s|maxHeartbeats\s+0\b|\bextern\b",
    re.M,
)


def strip_lean_comments(src: str) -> str:
    # nested block comments are rare in our files; strip repeatedly
    prev = None
    while prev != src:
        prev = src
        src = _COMMENT_BLOCK.sub("", src)
    return _COMMENT_LINE.sub("", src)


def lean_files() -> List[str]:
    out = []
    for sub in ("AcnModel", "AcnProofs", "Drivers"):
        for root, _, files in os.walk(os.path.join(LEAN, sub)):
            for f in files:
                if f.endswith(".lean"):
                    out.append(os.path.join(root, f))
    return sorted(out)


_IMPORT = re.compile(r"^\s*(?:public\s+)?import\s+(\S+)", re.M)


def local_closure(modules: List[str]) -> List[str]:
    """Files of this workspace in the transitive import closure of `modules`."""
    seen: Dict[str, str] = {}
    todo = list(modules)
    while todo:
        m = todo.pop()
        if m in seen:
            continue
        path = os.path.join(LEAN, *m.split(".")) + ".lean"
        if not os.path.exists(path):
            continue
        seen[m] = path
        for imp in _IMPORT.findall(strip_lean_comments(open(path).read())):
            if imp.split(".")[0] in ("AcnModel", "AcnProofs", "Drivers"):
                todo.append(imp)
    return sorted(seen.values())


def grep_forbidden(modules: Optional[List[str]] = None) -> List[str]:
    """Forbidden tokens in the Lean sources the given modules depend on (all sources if None)."""
    hits = []
    for path in (local_closure(modules) if modules else lean_files()):
        src = strip_lean_comments(open(path).read())
        for m in FORBIDDEN.finditer(src):
            hits.append(f"{os.path.relpath(path, LEAN)}: {m.group(0).strip()}")
    return hits


_NS = re.compile(r"^\s*namespace\s+(\S+)")
_END = re.compile(r"^\s*end\s+(\S+)")
_THM = re.compile(r"^\s*(?:@\[[^\]]*\]\s*)?(?:private\s+|protected\s+)?theorem\s+(\S+)")


def theorems_in(module: str) -> List[str]:
    """Fully qualified names of the theorems stated in a property file."""
    path = os.path.join(LEAN, *module.split(".")) + ".lean"
    src = strip_lean_comments(open(path).read())
    ns: List[str] = []
    out = []
    for line in src.splitlines():
        m = _NS.match(line)
        if m:
            ns.append(m.group(1))
            continue
        m = _END.match(line)
        if m and ns and ns[-1].split(".")[-1] == m.group(1).split(".")[-1]:
            ns.pop()
            continue
        m = _THM.match(line)
        if m:
            out.append(".".join(ns + [m.group(1)]))
    return out


_AX1 = re.compile(r"'([^']+)' depends on axioms: \[([^\]]*)\]", re.S)
_AX0 = re.compile(r"'([^']+)' does not depend on any axioms")


def audit_axioms(pid: str, modules: List[str], theorems: List[str]) -> Tuple[Dict[str, List[str]], str]:
    """`#print axioms` for every property theorem; returns {theorem: [axioms]} and raw log."""
    d = os.path.join(LEAN, ".lake", "audit")
    os.makedirs(d, exist_ok=True)
    path = os.path.join(d, f"{pid}.lean")
    with open(path, "w") as f:
        for m in modules:
            f.write(f"import {m}\n")
        for t in theorems:
            f.write(f"#print axioms {t}\n")
    with _Lock():
        p = subprocess.run(["lake", "env", "lean", path], cwd=LEAN, capture_output=True, text=True, timeout=1800)
    log = p.stdout + p.stderr
    if len(modules) > 1 and "environment already contains" in log:
        # two property modules of one check that cannot be imported into ONE file (their lemma files declare the
        # same names: e.g. AcnProofs.C02 / AcnProofs.C02Json through Lemmas.EventCoreSim / Lemmas.ResumeRun): audit
        # each module in a file of its own, with the theorems stated in it
        # first try TWO files: the message names the lemma module whose import failed; the property modules that have it
        # in their import closure go into one file, the others into another (2 elaborations instead of one per module)
        grouped = None
        mm = re.search(r"import (\S+) failed, environment already contains", log)
        if mm:
            bad = os.path.join(LEAN, *mm.group(1).split(".")) + ".lean"
            g2 = [m for m in modules if bad in local_closure([m])]
            g1 = [m for m in modules if m not in g2]
            if g1 and g2:
                glog = ""
                for k, grp in enumerate((g1, g2)):
                    mine = [t for m in grp for t in theorems_in(m) if t in theorems]
                    pk = os.path.join(d, f"{pid}_g{k}.lean")
                    with open(pk, "w") as f:
                        for m in grp:
                            f.write(f"import {m}\n")
                        for t in mine:
                            f.write(f"#print axioms {t}\n")
                    with _Lock():
                        q = subprocess.run(["lake", "env", "lean", pk], cwd=LEAN, capture_output=True, text=True, timeout=1800)
                    glog += q.stdout + q.stderr
                if "environment already contains" not in glog:
                    grouped = glog
        log = grouped or ""
        for k, m in enumerate(modules if grouped is None else []):
            mine = [t for t in theorems_in(m) if t in theorems]
            pk = os.path.join(d, f"{pid}_{k}.lean")
            with open(pk, "w") as f:
                f.write(f"import {m}\n")
                for t in mine:
                    f.write(f"#print axioms {t}\n")
            with _Lock():
                q = subprocess.run(["lake", "env", "lean", pk], cwd=LEAN, capture_output=True, text=True, timeout=1800)
            log += q.stdout + q.stderr
    res: Dict[str, List[str]] = {}
    for m in _AX1.finditer(log):
        res[m.group(1)] = [a.strip() for a in m.group(2).replace("\n", " ").split(",") if a.strip()]
    for m in _AX0.finditer(log):
        res[m.group(1)] = []
    return res, log


def leanchecker(modules: List[str], timeout: int = 3000) -> Tuple[bool, str]:
    """Lean's independent re-checker of compiled .olean files (thorough tier)."""
    with _Lock():
        p = subprocess.run(["lake", "env", "leanchecker"] + modules, cwd=LEAN, capture_output=True, text=True, timeout=timeout)
    return p.returncode == 0, p.stdout + p.stderr


class Driver:
    """A compiled model driver (`lean_exe`): JSON lines in, JSON lines out."""

    def __init__(self, name: str):
        self.path = os.path.join(LEAN, ".lake", "build", "bin", name)

    def available(self) -> bool:
        return os.path.exists(self.path)

    def ask(self, requests: List[dict], timeout: int = 3000) -> List[dict]:
        if not requests:
            return []
        data = "\n".join(json.dumps(r) for r in requests) + "\n"
        p = subprocess.run([self.path], input=data, capture_output=True, text=True, timeout=timeout)
        # one answer per "\n": str.splitlines() would also split at U+2028, U+0085, \x0c … inside an echoed id
        lines = [l for l in p.stdout.split("\n") if l.strip()]
        if len(lines) != len(requests):
            raise RuntimeError(
                f"driver {self.path}: {len(lines)} answers for {len(requests)} requests; stderr={p.stderr[:500]}"
            )
        return [json.loads(l) for l in lines]


# --------------------------------------------------------------------------- findings


def load_known() -> List[dict]:
    """known_findings.json (committed, never written at run time)."""
    out: List[dict] = []
    if os.path.exists(KNOWN):
        out.extend(json.load(open(KNOWN)).get("findings", []))
    return out


def json_safe(o: Any) -> Any:
    """inf / nan are not JSON: write them as strings so evidence and replay files stay valid JSON."""
    if isinstance(o, float):
        if math.isnan(o):
            return "nan"
        if math.isinf(o):
            return "inf" if o > 0 else "-inf"
        return o
    if isinstance(o, dict):
        return {str(k): json_safe(v) for k, v in o.items()}
    if isinstance(o, (list, tuple)):
        return [json_safe(v) for v in o]
    return o


def write_replay(pid: str, payload: dict) -> str:
    os.makedirs(REPLAYS, exist_ok=True)
    h = case_hash(payload)
    path = os.path.join(REPLAYS, f"{pid}-{h}.json")
    with open(path, "w") as f:
        json.dump(json_safe(payload), f, indent=1, sort_keys=True, default=str, allow_nan=False)
    return os.path.relpath(path, VERIF)


def write_evidence(pid: str, ev: dict) -> None:
    os.makedirs(EVIDENCE, exist_ok=True)
    with open(os.path.join(EVIDENCE, f"{pid}.json"), "w") as f:
        json.dump(json_safe(json.loads(json.dumps(ev, default=str))), f, indent=1, sort_keys=True, allow_nan=False)


def now() -> float:
    return time.time()
