"""Which lines of the implementation did the correspondence / oracle streams of this run execute?

The correspondence (T2) ties the hand models to the code only on the inputs the generators produce, so the
evidence of every run records how much of the code the property is anchored in (properties.jsonl: anchors.files) was actually executed while the cases ran.
`sys.monitoring` LINE events are used: every location reports once and is then disabled, so the cost is
negligible.  Only lines inside function bodies are counted (module- and class-level lines run at import time,
before the measurement starts).  Code executed in child processes is not seen (conservative).
"""
from __future__ import annotations

import json
import os
import sys
import types

_TOOL = 3  # a free tool id (0 debugger, 1 coverage, 2 profiler, 5 optimizer are conventional)


class LineCov:
    def __init__(self, repo_root: str):
        self.root = os.path.realpath(repo_root) + os.sep
        self.hits: set[tuple[str, int]] = set()
        self.active = False

    # ------------------------------------------------------------------ measurement
    def _cb(self, code: types.CodeType, line: int):
        fn = code.co_filename
        if fn.startswith(self.root) or os.path.realpath(fn).startswith(self.root):
            self.hits.add((os.path.relpath(os.path.realpath(fn), self.root), line))
        return sys.monitoring.DISABLE

    def start(self):
        if self.active or not hasattr(sys, "monitoring"):
            return
        try:
            sys.monitoring.use_tool_id(_TOOL, "verif-linecov")
        except ValueError:
            return
        sys.monitoring.register_callback(_TOOL, sys.monitoring.events.LINE, self._cb)
        sys.monitoring.set_events(_TOOL, sys.monitoring.events.LINE)
        self.active = True

    def stop(self):
        if not self.active:
            return
        sys.monitoring.set_events(_TOOL, 0)
        sys.monitoring.register_callback(_TOOL, sys.monitoring.events.LINE, None)
        sys.monitoring.free_tool_id(_TOOL)
        self.active = False

    # ------------------------------------------------------------------ report
    def _functions(self, rel: str) -> dict:
        """qualified function name -> set of body lines (the def line itself excluded)"""
        path = os.path.join(self.root, rel)
        try:
            src = open(path).read()
            top = compile(src, path, "exec")
        except (OSError, SyntaxError):
            return {}
        out: dict[str, set[int]] = {}

        def walk(co, in_function):
            is_fn = co.co_name != "<module>" and not _is_class_body(co)
            if is_fn or in_function:
                tgt = out.setdefault(f"{co.co_qualname}@{co.co_firstlineno}", set())
                for _s, _e, ln in co.co_lines():
                    if ln is not None and ln != co.co_firstlineno:
                        tgt.add(ln)
            for k in co.co_consts:
                if isinstance(k, types.CodeType):
                    walk(k, in_function or is_fn)

        def _is_class_body(co):
            return co.co_argcount == 0 and "__qualname__" in co.co_names and "__module__" in co.co_names

        walk(top, False)
        return {k: v for k, v in out.items() if v}

    def report(self, anchors: dict) -> dict:
        files = list(dict.fromkeys(f for f in anchors.get("files", []) if f.endswith(".py")))
        per_file = {}
        tot = got = 0
        untouched = []
        for rel in files:
            fns = self._functions(rel)
            hit_all = {ln for (f, ln) in self.hits if f == rel}
            partial = {}
            nb = nh = 0
            for name, body in sorted(fns.items(), key=lambda kv: int(kv[0].rsplit("@", 1)[1])):
                hit = body & hit_all
                nb += len(body)
                nh += len(hit)
                if not hit:
                    untouched.append(f"{rel}:{name}")
                elif hit != body:
                    partial[name] = _ranges(sorted(body - hit))
            tot += nb
            got += nh
            per_file[rel] = {"function_body_lines": nb, "executed": nh,
                             "functions": len(fns), "functions_entered": len([1 for b in fns.values() if b & hit_all]),
                             "entered_but_lines_not_executed": partial}
        return {"what": "lines of the implementation files this property is anchored in (properties.jsonl anchors.files) that were "
                        "executed in this process while the cases of this run ran (sys.monitoring LINE events; function bodies "
                        "only, def lines excluded; child processes not seen). Functions never entered are listed by name: "
                        "they may simply lie outside the property.",
                "anchored_files_lines": tot, "anchored_files_executed": got,
                "files": per_file, "functions_never_entered": untouched}


def _ranges(xs):
    out = []
    for x in xs:
        if out and x == out[-1][1] + 1:
            out[-1][1] = x
        else:
            out.append([x, x])
    return ",".join(f"{a}" if a == b else f"{a}-{b}" for a, b in out)


def anchors_of(verif_root: str, pid: str) -> dict:
    try:
        for l in open(os.path.join(verif_root, "properties.jsonl")):
            p = json.loads(l)
            if p.get("id") == pid:
                return p.get("anchors", {})
    except OSError:
        pass
    return {}
