"""Builders for implementation objects (imported from /repo) from JSON-able case specs,
and readers that turn implementation state into canonical, JSON-able observations."""
from __future__ import annotations

import contextlib
import json
import math
import warnings
from typing import Any, Dict, List, Optional

import numpy as np

from acnportal.acnsim.models import battery as battery_mod
from acnportal.acnsim.models.battery import Battery, Linear2StageBattery
from acnportal.acnsim.models.ev import EV
from acnportal.acnsim.models import evse as evse_mod
from acnportal.acnsim.models.evse import EVSE, DeadbandEVSE, FiniteRatesEVSE, InvalidRateError
from acnportal.acnsim.models.evse import StationOccupiedError

from .common import f2b

INF = float("inf")


def num(x):
    """case files store inf as the string 'inf'."""
    if isinstance(x, str):
        return float(x)
    return x


def enc(x):
    if isinstance(x, float) and math.isinf(x):
        return "inf" if x > 0 else "-inf"
    if isinstance(x, float) and math.isnan(x):
        return "nan"
    return x


# ---------------------------------------------------------------- batteries / EVs


def make_battery(spec: dict):
    """spec: {two, cap, init, maxp, [noise, ts, calc]}"""
    if spec.get("two"):
        return Linear2StageBattery(
            num(spec["cap"]), num(spec["init"]), num(spec["maxp"]),
            noise_level=num(spec.get("noise", 0)), transition_soc=num(spec.get("ts", 0.8)),
            charge_calculation=spec.get("calc", "continuous"),
        )
    return Battery(num(spec["cap"]), num(spec["init"]), num(spec["maxp"]))


def batt_wire(spec: dict) -> dict:
    return {
        "two": bool(spec.get("two")), "cap": f2b(num(spec["cap"])), "init": f2b(num(spec["init"])),
        "maxp": f2b(num(spec["maxp"])), "noise": f2b(num(spec.get("noise", 0))),
        "ts": f2b(num(spec.get("ts", 0.8))), "calc": spec.get("calc", "continuous"),
    }


def make_ev(spec: dict) -> EV:
    """spec: {session, station, arrival, departure, [est], requested, batt}"""
    return EV(
        spec["arrival"], spec["departure"], num(spec["requested"]), spec["station"], spec["session"],
        make_battery(spec["batt"]), estimated_departure=spec.get("est"),
    )


def ev_wire(spec: dict) -> dict:
    return {
        "session": spec["session"], "station": spec["station"], "arrival": spec["arrival"],
        "departure": spec["departure"], "est": spec.get("est") if spec.get("est") is not None else spec["departure"],
        "requested": f2b(num(spec["requested"])), "batt": batt_wire(spec["batt"]),
    }


def batt_state(b) -> dict:
    try:
        return {"charge": float(b._current_charge), "power": float(b.current_charging_power)}
    except AttributeError:
        with warnings.catch_warnings():
            warnings.simplefilter("ignore")
            d = json.loads(b.to_json())
        a = d["context_dict"][d["id"]]["attributes"]
        return {"charge": float(a["_current_charge"]), "power": float(a["_current_charging_power"])}


def ev_state(ev) -> Optional[dict]:
    if ev is None:
        return None
    return {
        "session": ev.session_id, "station": ev.station_id, "delivered": float(ev.energy_delivered),
        "rate": float(ev.current_charging_rate), "batt": batt_state(ev._battery),
    }


# ---------------------------------------------------------------- EVSEs


def make_evse(kind: dict, station: str = "S"):
    t = kind["t"]
    if t == "cont":
        return EVSE(station, max_rate=num(kind["max"]), min_rate=num(kind["min"]))
    if t == "deadband":
        return DeadbandEVSE(station, deadband_end=num(kind["db"]), max_rate=num(kind["max"]))
    if t == "finite":
        return FiniteRatesEVSE(station, [num(r) for r in kind["rates"]])
    raise ValueError(t)


def _as_number(x, how):
    """the same number in another of the types a caller may hand to a constructor"""
    x = num(x)
    if how == "float":
        return float(x)
    if how == "np":
        return np.float64(x)
    if how == "npint" and float(x) == int(x):
        return np.int64(int(x))
    return x


def make_evse_as(kind: dict, station: str = "S"):
    """`make_evse` for kinds carrying the optional keys
      "as"  (finite): the type of the `allowable_rates` ARGUMENT (documented: an iterable) — "list" | "gen" | "map" |
            "iter" (one-shot iterators) | "tuple" | "set" | "ndarray" | "range" (the rates must be an integer
            arithmetic progression) | "dictkeys";
      "num" (cont / deadband): the numeric type of the bounds — "float" | "np" (numpy.float64) | "npint".
    A kind without these keys builds exactly what `make_evse` builds."""
    t = kind["t"]
    how = kind.get("num")
    if t == "cont" and how:
        return EVSE(station, max_rate=_as_number(kind["max"], how), min_rate=_as_number(kind["min"], how))
    if t == "deadband" and how:
        return DeadbandEVSE(station, deadband_end=_as_number(kind["db"], how), max_rate=_as_number(kind["max"], how))
    form = kind.get("as")
    if t != "finite" or not form or form == "list":
        return make_evse(kind, station)
    rates = [num(r) for r in kind["rates"]]
    if form == "gen":
        arg = (r for r in rates)
    elif form == "map":
        arg = map(lambda r: r, rates)
    elif form == "iter":
        arg = iter(rates)
    elif form == "tuple":
        arg = tuple(rates)
    elif form == "set":
        arg = set(rates)
    elif form == "dictkeys":
        arg = dict.fromkeys(rates).keys()
    elif form == "ndarray":
        arg = np.array(rates) if rates else np.array([], dtype=float)
    elif form == "range":
        if any(float(r) != int(r) for r in rates):
            raise ValueError(f"rates {rates} are not a range")
        rates = [int(r) for r in rates]
        step = (rates[1] - rates[0]) if len(rates) > 1 else 1
        arg = range(rates[0], rates[-1] + (1 if step > 0 else -1), step) if rates else range(0)
        if list(arg) != rates:
            raise ValueError(f"rates {rates} are not a range")
    else:
        raise ValueError(form)
    return FiniteRatesEVSE(station, arg)


def kind_wire(kind: dict) -> dict:
    t = kind["t"]
    if t == "cont":
        return {"t": t, "min": f2b(num(kind["min"])), "max": f2b(num(kind["max"]))}
    if t == "deadband":
        return {"t": t, "db": f2b(num(kind["db"])), "max": f2b(num(kind["max"]))}
    return {"t": t, "rates": [f2b(num(r)) for r in kind["rates"]]}


# ---------------------------------------------------------------- noise


class _Noise:
    value = 0.0
    calls = 0


@contextlib.contextmanager
def noise_source():
    """Patch numpy.random.normal: it returns `ns.value`, set by the harness before each
    operation.  The model takes the *raw* return value of normal(0, noise_level) as its
    input ν, so every draw is an input of both sides."""
    ns = _Noise()
    orig = np.random.normal

    def fake(loc=0.0, scale=1.0, size=None):
        ns.calls += 1
        return ns.value

    np.random.normal = fake
    try:
        yield ns
    finally:
        np.random.normal = orig


def err_name(e: BaseException) -> str:
    if isinstance(e, InvalidRateError):
        return "InvalidRate"
    if isinstance(e, StationOccupiedError):
        return "StationOccupied"
    try:
        from acnportal.acnsim.network.charging_network import StationOccupiedError as SO2
        if isinstance(e, SO2):
            return "StationOccupied"
    except Exception:
        pass
    try:
        from acnportal.acnsim.interface import InvalidScheduleError
        if isinstance(e, InvalidScheduleError):
            return "InvalidSchedule"
    except Exception:
        pass
    if isinstance(e, KeyError):
        return "KeyError"
    if isinstance(e, ValueError):
        return "ValueError"
    if isinstance(e, TypeError):
        return "TypeError"
    return "Other:" + type(e).__name__
