#!/venv/bin/python
"""MANIFEST.setup_cmd: regenerate Gen/*.lean from /repo, then build the Lean targets of every
claimed check (proof modules + compiled model driver).  Only claimed properties are built, so
work in progress on other properties can be committed without breaking the setup."""
import importlib
import json
import os
import subprocess
import sys

HERE = os.path.dirname(os.path.abspath(__file__))
sys.path.insert(0, HERE)
from core import common as C  # noqa: E402

sys.path.insert(0, C.REPO)


def main() -> int:
    ok, log = C.run_translate()
    print(log.strip().splitlines()[-1] if log.strip() else "translate: no output")
    if not ok:
        print(log)
        return 1
    entries = json.load(open(os.path.join(HERE, "manifest_entries.json")))["checks"]
    targets = []
    for pid in sorted(entries):
        P = importlib.import_module(f"props.{pid}")
        for t in list(getattr(P, "LEAN_MODULES", [])) + list(getattr(P, "TIE_MODULES", [])) + ([P.DRIVER] if getattr(P, "DRIVER", None) else []):
            if t not in targets:
                targets.append(t)
    print("lake build", " ".join(targets))
    ok, log = C.lake_build(targets, timeout=7200)
    print("\n".join(log.splitlines()[-15:]))
    rc = 0
    if not ok:
        for t in targets:  # find out which ones are broken, build the rest
            ok, log = C.lake_build([t], timeout=7200)
            if not ok:
                rc = 1
                print(f"FAILED target {t}:\n" + "\n".join(log.splitlines()[-30:]))
    # EXTRA_MODULES (cross-property compositions such as the capstone): built here too so that the checks find them
    # compiled, but a failure is reported and does NOT fail the setup (check.py records it as a note)
    extras = []
    for pid in sorted(entries):
        P = importlib.import_module(f"props.{pid}")
        for t in list(getattr(P, "EXTRA_MODULES", [])):
            if t not in extras and t not in targets:
                extras.append(t)
    for t in extras:
        ok, log = C.lake_build([t], timeout=7200)
        print(f"extra module {t}: " + ("built" if ok else "DOES NOT BUILD (note only)\n" + "\n".join(log.splitlines()[-15:])))
    return rc


if __name__ == "__main__":
    sys.exit(main())
