#!/venv/bin/python
"""Maintainer tool (never part of a registered check): a systematic first-order MUTATION SWEEP over the implementation files
the properties are anchored in, to measure what the checks detect beyond the hand-written seeded changes.

For a seeded random sample of mutants per file (comparison flips, arithmetic swaps, and/or, dropped `not`, min/max, constant
off-by-one, deleted statements — applied at SOURCE level so every mutant is a readable one-token diff):
  1. the mutant is written into a private scratch worktree of /repo (outside /repo and /verif, removed at the end);
  2. the unedited test-suite runs there; only mutants with the baseline result (386 passed) are kept — the brief's notion
     of a realistic change ("still compiles and passes the existing tests");
  3. every check whose property is anchored in the mutated file runs against the worktree (ACN_REPO=<worktree>, quick tier,
     `--no-build`: the compiled model drivers of the clean tree are used, so the sweep measures the correspondence and the
     oracles and never touches lean/.lake; the T1 / T1c proof obligations are additional to what is measured here);
  4. the outcome (killed by which check and failure kind / survived) is appended to the output JSON-lines file.
Survivors are either equivalent mutants, changes outside every property, or blind spots: they are triaged by hand
(DESIGN.md §19).

usage: mutsweep.py --out <file.jsonl> [--per-file 12] [--workers 4] [--seed 0] [--files a.py,b.py] [--skip-suite]
"""
from __future__ import annotations

import argparse
import ast
import json
import os
import random
import re
import subprocess
import sys
import time
from concurrent.futures import ThreadPoolExecutor

VERIF = os.path.dirname(os.path.dirname(os.path.abspath(__file__)))
PY = "/venv/bin/python"
CMP = {ast.Lt: "<=", ast.LtE: "<", ast.Gt: ">=", ast.GtE: ">", ast.Eq: "!=", ast.NotEq: "=="}
CMP_TXT = {ast.Lt: "<", ast.LtE: "<=", ast.Gt: ">", ast.GtE: ">=", ast.Eq: "==", ast.NotEq: "!="}
BIN = {ast.Add: ("+", "-"), ast.Sub: ("-", "+"), ast.Mult: ("*", "/"), ast.Div: ("/", "*"), ast.FloorDiv: ("//", "/")}


def sh(cmd, cwd=None, env=None, timeout=3600):
    p = subprocess.run(cmd, cwd=cwd, env=env, capture_output=True, text=True, timeout=timeout)
    return p.returncode, p.stdout + p.stderr


class Src:
    def __init__(self, text):
        self.text = text
        self.lines = text.splitlines(keepends=True)
        self.off = [0]
        for l in self.lines:
            self.off.append(self.off[-1] + len(l.encode()))
        self.bytes = text.encode()

    def pos(self, line, col):
        return self.off[line - 1] + col

    def span(self, node):
        return self.pos(node.lineno, node.col_offset), self.pos(node.end_lineno, node.end_col_offset)

    def replace(self, a, b, new):
        return (self.bytes[:a] + new.encode() + self.bytes[b:]).decode()


def mutants_of(text):
    """list of (kind, line, description, new_text)"""
    tree = ast.parse(text)
    src = Src(text)
    out = []
    doc_nodes = set()
    for n in ast.walk(tree):
        if isinstance(n, (ast.FunctionDef, ast.ClassDef, ast.Module, ast.AsyncFunctionDef)) and n.body:
            f = n.body[0]
            if isinstance(f, ast.Expr) and isinstance(getattr(f, "value", None), ast.Constant) and isinstance(f.value.value, str):
                doc_nodes.add(id(f))
    in_func = set()
    in_default = set()      # constants that are DEFAULT VALUES of parameters (kind "default")
    for n in ast.walk(tree):
        if isinstance(n, (ast.FunctionDef, ast.AsyncFunctionDef)):
            for m in ast.walk(n):
                in_func.add(id(m))
            for d in list(n.args.defaults) + [k for k in n.args.kw_defaults if k is not None]:
                for m in ast.walk(d):
                    in_default.add(id(m))

    def between(left, right, old, new, kind, line):
        a = src.span(left)[1]
        b = src.span(right)[0]
        seg = src.bytes[a:b].decode()
        # the operator token must occur exactly once between the operands (parentheses / spaces aside)
        if seg.count(old) != 1 or (old in ("<", ">") and (old + "=") in seg) or (old == "/" and "//" in seg) or (old == "*" and "**" in seg):
            return
        out.append((kind, line, f"{old} -> {new}", src.replace(a, b, seg.replace(old, new))))

    for n in ast.walk(tree):
        if id(n) not in in_func:
            continue
        if isinstance(n, ast.Compare) and len(n.ops) == 1 and type(n.ops[0]) in CMP:
            between(n.left, n.comparators[0], CMP_TXT[type(n.ops[0])], CMP[type(n.ops[0])], "cmp", n.lineno)
        elif isinstance(n, ast.BinOp) and type(n.op) in BIN:
            if isinstance(n.left, ast.Constant) and isinstance(n.left.value, str):
                continue
            old, new = BIN[type(n.op)]
            between(n.left, n.right, old, new, "arith", n.lineno)
        elif isinstance(n, ast.BoolOp) and len(n.values) == 2:
            old, new = ("and", "or") if isinstance(n.op, ast.And) else ("or", "and")
            between(n.values[0], n.values[1], old, new, "bool", n.lineno)
        elif isinstance(n, ast.UnaryOp) and isinstance(n.op, ast.Not):
            a, b = src.span(n)
            oa, ob = src.span(n.operand)
            out.append(("not", n.lineno, "not x -> x", src.replace(a, b, "(" + src.bytes[oa:ob].decode() + ")")))
        elif isinstance(n, ast.Call) and isinstance(n.func, ast.Name) and n.func.id in ("min", "max"):
            a, b = src.span(n.func)
            out.append(("minmax", n.lineno, f"{n.func.id} -> {'max' if n.func.id == 'min' else 'min'}",
                        src.replace(a, b, "max" if n.func.id == "min" else "min")))
        elif isinstance(n, ast.Constant) and isinstance(n.value, (int, float)) and not isinstance(n.value, bool):
            a, b = src.span(n)
            v = n.value
            for nv in ([v + 1, v - 1] if isinstance(v, int) else [v * 2, v / 2] if v != 0 else [1.0]):
                out.append(("default" if id(n) in in_default else "const", n.lineno, f"{v!r} -> {nv!r}", src.replace(a, b, repr(nv))))
        elif isinstance(n, ast.Constant) and isinstance(n.value, bool):
            a, b = src.span(n)
            out.append(("default" if id(n) in in_default else "const", n.lineno, f"{n.value} -> {not n.value}", src.replace(a, b, repr(not n.value))))
        elif isinstance(n, (ast.Assign, ast.AugAssign, ast.Expr)) and id(n) not in doc_nodes:
            if isinstance(n, ast.Expr) and not isinstance(n.value, ast.Call):
                continue
            if isinstance(n, ast.Expr) and isinstance(n.value.func, ast.Attribute) and n.value.func.attr in ("warn", "_print", "format"):
                continue
            if isinstance(n, ast.Expr) and isinstance(n.value.func, ast.Name) and n.value.func.id in ("warn", "print", "super"):
                continue
            a, b = src.span(n)
            first = src.bytes[a:b].decode().splitlines()[0][:60]
            out.append(("delete", n.lineno, f"delete `{first}`", src.replace(a, b, "pass")))
    # keep only mutants that still parse
    ok = []
    for m in out:
        try:
            ast.parse(m[3])
            ok.append(m)
        except SyntaxError:
            pass
    return ok


def anchored():
    """file -> [property ids]"""
    m = {}
    for l in open(os.path.join(VERIF, "properties.jsonl")):
        p = json.loads(l)
        for f in p["anchors"].get("files", []):
            if f.endswith(".py"):
                m.setdefault(f, []).append(p["id"])
    return m


BASELINE = {"passed": None}
SUITE = [PY, "-m", "pytest", "-q", "-x", "-p", "no:cacheprovider", "--timeout=300", "--deselect", "tests/test_integration.py", "-W", "ignore"]


def run_one(job, wt, skip_suite):
    rel, props, (kind, line, desc, new_text) = job
    path = os.path.join(wt, rel)
    orig = open(path).read()
    rec = {"file": rel, "line": line, "kind": kind, "mutation": desc, "props": props}
    try:
        open(path, "w").write(new_text)
        if not skip_suite:
            t0 = time.time()
            rc, out = sh(SUITE, cwd=wt, timeout=1800)
            m = re.search(r"(\d+) passed", out)
            rec["suite_passed"] = int(m.group(1)) if m else -1
            rec["suite_s"] = round(time.time() - t0, 1)
            if rec["suite_passed"] != BASELINE["passed"] or " failed" in out.splitlines()[-1]:
                rec["outcome"] = "killed_by_suite"
                return rec
        killed = {}
        for p in props:
            env = dict(os.environ, ACN_REPO=wt, VERIF_SEED="0", VERIF_LINECOV="0", VERIF_CASE_TIMEOUT="60", VERIF_SHRINK_TIMEOUT="5")
            t0 = time.time()
            try:
                rc, out = sh([PY, "harness/check.py", p, "--tier", "quick", "--no-build"], cwd=VERIF, env=env, timeout=1500)
            except subprocess.TimeoutExpired:
                rc, out = 1, "VIOLATION (check timed out: non-termination)"
            vio = [l for l in out.splitlines() if l.startswith("VIOLATION")]
            kindf = None
            if vio:
                mm = re.search(r"replay=(\S+)", vio[0])
                if mm and os.path.exists(os.path.join(VERIF, mm.group(1))):
                    try:
                        kindf = json.load(open(os.path.join(VERIF, mm.group(1)))).get("what", {}).get("kind")
                    except Exception:
                        pass
            killed[p] = {"exit": rc, "caught": rc == 1 and bool(vio), "kind": kindf, "s": round(time.time() - t0, 1)}
            if rc not in (0, 1):
                killed[p]["tail"] = out[-400:]
            if killed[p]["caught"]:
                break               # one check that reports it is enough for the measurement
        rec["checks"] = killed
        rec["outcome"] = "killed" if any(v["caught"] for v in killed.values()) else "survived"
        return rec
    finally:
        open(path, "w").write(orig)


def main():
    ap = argparse.ArgumentParser()
    ap.add_argument("--out", required=True)
    ap.add_argument("--per-file", type=int, default=12)
    ap.add_argument("--workers", type=int, default=4)
    ap.add_argument("--seed", type=int, default=0)
    ap.add_argument("--files", default="")
    ap.add_argument("--skip-suite", action="store_true")
    ap.add_argument("--kinds", default="", help="comma list of mutation kinds to keep (cmp,arith,bool,not,minmax,const,default,delete)")
    a = ap.parse_args()
    rng = random.Random(a.seed)
    anch = anchored()
    files = [f for f in a.files.split(",") if f] or sorted(anch)
    jobs = []
    for rel in files:
        text = open(os.path.join("/repo", rel)).read()
        ms = mutants_of(text)
        if a.kinds:
            ms = [m for m in ms if m[0] in a.kinds.split(",")]
        rng.shuffle(ms)
        # spread over kinds: round-robin by kind
        by = {}
        for m in ms:
            by.setdefault(m[0], []).append(m)
        pick = []
        while len(pick) < a.per_file and any(by.values()):
            for k in sorted(by):
                if by[k] and len(pick) < a.per_file:
                    pick.append(by[k].pop())
        for m in pick:
            jobs.append((rel, anch.get(rel, []), m))
    print(f"{len(jobs)} mutants over {len(files)} files", flush=True)
    wts = []
    for i in range(a.workers):
        wt = f"/tmp/mutsweep_{os.getpid()}_{i}"
        rc, out = sh(["git", "-C", "/repo", "worktree", "add", "--detach", wt, "HEAD"])
        if rc:
            print(out)
            return 2
        wts.append(wt)
    if not a.skip_suite:
        rc, out = sh(SUITE, cwd=wts[0], timeout=1800)   # the offline part of the suite on the clean tree
        m = re.search(r"(\d+) passed", out)
        BASELINE["passed"] = int(m.group(1)) if m else -1
        print("baseline of the offline suite on the clean worktree:", BASELINE["passed"], "passed", flush=True)
        if BASELINE["passed"] < 380:
            print(out[-800:])
            return 2
    import queue
    free = queue.Queue()
    for w in wts:
        free.put(w)

    def work(job):
        wt = free.get()
        try:
            return run_one(job, wt, a.skip_suite)
        except Exception as e:  # noqa: BLE001
            return {"file": job[0], "line": job[2][1], "mutation": job[2][2], "outcome": "error", "error": repr(e)}
        finally:
            free.put(wt)

    try:
        with ThreadPoolExecutor(a.workers) as ex, open(a.out, "a") as fo:
            for rec in ex.map(work, jobs):
                fo.write(json.dumps(rec) + "\n")
                fo.flush()
                print(rec["outcome"], rec["file"], rec.get("line"), rec["mutation"], flush=True)
    finally:
        for wt in wts:
            sh(["git", "-C", "/repo", "worktree", "remove", "--force", wt])
    return 0


if __name__ == "__main__":
    sys.exit(main())
