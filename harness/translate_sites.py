"""T1 for C16 — the predefined site networks as Lean data (lean/AcnModel/Gen/Sites.lean, Gen/SimpleAcn.lean).

Everything the Lean side reasons about is a CANONICAL function of the networks the factories BUILD (never of how the
Python source spells them): a behaviour-preserving rewrite of a site file regenerates byte-identical data.

`gen_sites()` (called by translate.py on every check run)

  * EXECUTES the site factories of the working tree (`ACN_REPO`): caltech_acn, jpl_acn, office001_acn, with basic and real
    EVSE types, the default capacities and two other capacity settings each, and dumps station ids, phase angles, voltages,
    constraint names, the constraint matrix (sparse rows of exact rationals of the doubles) and the limits (exact rationals
    of the doubles);
  * FITS the dependence of every limit on the capacity arguments by PROBING (`fit_formulas`): the factory is executed with
    each capacity set to 1, 8 and 1000 kW in turn; a limit that never moves is a literal, a limit that moves with exactly
    one capacity and is proportional to it is `cap · N/D` or `cap · N/D · √3` with the coefficient identified as a small
    rational (continued fractions; 2⁻⁴⁴ relative); anything else is `.unknown`.  The result is written in ONE canonical
    form (`.ofCap k [.mul N D]` / `[.mul N D, .mulSqrt3]`), so the model can re-evaluate it and the theorems reason about
    it for EVERY capacity; `instOk` (kernel) re-checks every executed instance against it;
  * groups the rows by their names into transformers (Secondary/Primary A,B,C), panel line triples (`… I_a/b/c`) and pods
    (everything else).  The grouping is NOT trusted: `Acn.Sites.topoOk` re-derives every row from the EVSE sets and the
    theorem `site_structure_*` checks it by `decide +kernel`;
  * EXECUTES every factory (and the deprecated wrapper) with NO arguments at all and records, next to the limits the
    object then carries, the defaults of its live signature (`defaultInsts`): `site_default_ratings` pins them to the
    documented ratings;
  * the AST of the site files is consulted for ONE thing only, only as a hint and in a file of its own
    (`gen_sites_src()` -> Gen/SitesSrc.lean, imported by the driver and by no theorem): the left-to-right operation chain
    of a limit formula (`cap * 1000 / 3 / 120 [* sqrt 3]`) lets the driver reproduce the doubles of the source bit for
    bit.  A chain is used only when it denotes the same monomial as the fit (checked here AND again by the driver); where
    the reader does not follow the source (table-driven loops, hoisted constants, …) the entry silently falls back to
    the canonical form (a comment in the generated file says so) — no build depends on it.

`gen_simple()` (-> lean/AcnModel/Gen/SimpleAcn.lean) does the same for `simple_acn` (auto_acn.py): a fixed list of calls
is executed and dumped, the signature defaults are recorded, and the limit of the aggregate constraint is fitted by
probing capacity × voltage to the canonical monomial `N/D · cap^±1 · voltage^±1` (here `1000 · cap / voltage`).
"""
from __future__ import annotations

import ast
import importlib
import os
import re
import sys
import warnings
from fractions import Fraction

REPO = os.environ.get("ACN_REPO", "/repo")
SITES_DIR = "acnportal/acnsim/network/sites"

# (site, module file, factory, capacity parameter names, (capacities, voltage) settings: first = defaults)
SITES = [
    ("caltech", "caltech_acn.py", "caltech_acn", ["transformer_cap"],
     [([150], 208), ([80], 208), ([225.5], 208), ([150], 240)]),
    ("jpl", "jpl_acn.py", "jpl_acn", ["first_transformer_cap", "third_fourth_transformer_cap"],
     [([45, 150], 208), ([30, 112.5], 208), ([75, 300], 208), ([45, 150], 240)]),
    ("office001", "office001_acn.py", "office001_acn", ["transformer_cap"],
     [([50], 208), ([150], 208), ([33.3], 208), ([50], 240)]),
]
# the deprecated wrapper (caltech_acn.py:106-113): called by keyword and POSITIONALLY, so that a swapped
# argument in the wrapper shows up as a different topology / limits
WRAPPERS = [
    ("caltech", "caltech_acn.py", "CaltechACN", ["transformer_cap"],
     [("kw", False, [150], 208), ("pos", True, [80], 240)]),
]


# ----------------------------------------------------------------------------- AST side

class Unknown:
    def __repr__(self):
        return "Unknown"


UNKNOWN = Unknown()


class Mono:
    """coef * var^(0|1) * sqrt(3)^s3, with the source's operation chain when var is present."""

    def __init__(self, coef, var=None, s3=0, ops=None):
        self.coef = Fraction(coef)
        self.var = var
        self.s3 = s3
        self.ops = list(ops or [])

    def is_const(self):
        return self.var is None


def _const_ops(m: Mono, kind: str):
    """ops that multiply/divide by the constant monomial m"""
    out = []
    if m.coef != 1 or m.s3 == 0:
        out.append((kind, m.coef))
    if m.s3 == 1:
        out.append(("mulSqrt3" if kind == "mul" else "divSqrt3", None))
    elif m.s3 != 0:
        return None
    return out


def _binop(op, a, b):
    if not isinstance(a, Mono) or not isinstance(b, Mono):
        return UNKNOWN
    if isinstance(op, ast.Mult):
        if a.var and b.var:
            return UNKNOWN
        if b.var:  # const * var: multiplication is commutative in doubles as well
            a, b = b, a
        if a.var:
            extra = _const_ops(b, "mul")
            if extra is None:
                return UNKNOWN
            return Mono(a.coef * b.coef, a.var, a.s3 + b.s3, a.ops + extra)
        s3 = a.s3 + b.s3
        coef = a.coef * b.coef * (3 ** (s3 // 2))
        return Mono(coef, None, s3 % 2)
    if isinstance(op, ast.Div):
        if b.var or b.coef == 0:
            return UNKNOWN
        if a.var:
            extra = _const_ops(b, "div")
            if extra is None:
                return UNKNOWN
            return Mono(a.coef / b.coef, a.var, a.s3 - b.s3, a.ops + extra)
        s3 = a.s3 - b.s3
        coef = a.coef / b.coef
        if s3 < 0:
            coef, s3 = coef / 3, s3 + 2
        return Mono(coef, None, s3)
    if isinstance(op, (ast.Add, ast.Sub)):
        if a.var or b.var or a.s3 or b.s3:
            return UNKNOWN
        return Mono(a.coef + b.coef if isinstance(op, ast.Add) else a.coef - b.coef)
    return UNKNOWN


class Interp:
    def __init__(self, src, tree, cap_names):
        self.src = src
        self.tree = tree
        self.cap_names = cap_names
        self.found = {}  # constraint name -> Mono | UNKNOWN
        self.depth = 0

    def module_consts(self):
        if not hasattr(self, "_mconsts"):
            self._mconsts = {}
            for st in self.tree.body:
                if isinstance(st, ast.Assign) and len(st.targets) == 1 and isinstance(st.targets[0], ast.Name):
                    v = st.value
                    if isinstance(v, ast.Constant) and isinstance(v.value, (int, float)) and not isinstance(v.value, bool):
                        self._mconsts[st.targets[0].id] = self.lit(v)
                    elif isinstance(v, ast.Constant) and isinstance(v.value, str):
                        self._mconsts[st.targets[0].id] = v.value
        return self._mconsts

    def lit(self, node):
        txt = ast.get_source_segment(self.src, node)
        try:
            return Mono(Fraction(txt.replace("_", "")))
        except Exception:
            return Mono(Fraction(node.value))

    def ev(self, node, env):
        if isinstance(node, ast.Constant):
            if isinstance(node.value, bool):
                return UNKNOWN
            if isinstance(node.value, (int, float)):
                return self.lit(node)
            if isinstance(node.value, str):
                return node.value
            return UNKNOWN
        if isinstance(node, ast.Name):
            if node.id in env:
                return env[node.id]
            # a module-level numeric constant of the site file (`_PRIMARY_V = 277`)
            g = self.module_consts()
            return g.get(node.id, UNKNOWN)
        if isinstance(node, ast.BinOp):
            return _binop(node.op, self.ev(node.left, env), self.ev(node.right, env))
        if isinstance(node, ast.UnaryOp) and isinstance(node.op, ast.USub):
            v = self.ev(node.operand, env)
            return _binop(ast.Mult(), Mono(-1), v) if isinstance(v, Mono) else UNKNOWN
        if isinstance(node, (ast.List, ast.Tuple)):
            vals = [self.ev(e, env) for e in node.elts]
            return vals if all(isinstance(v, str) for v in vals) else UNKNOWN
        if isinstance(node, ast.JoinedStr):
            out = ""
            for p in node.values:
                v = self.ev(p.value if isinstance(p, ast.FormattedValue) else p, env)
                if not isinstance(v, str):
                    return UNKNOWN
                out += v
            return out
        if isinstance(node, ast.Call):
            f = node.func
            if isinstance(f, ast.Attribute) and f.attr == "sqrt" and len(node.args) == 1:
                v = self.ev(node.args[0], env)
                if isinstance(v, Mono) and v.is_const() and v.s3 == 0 and v.coef == 3:
                    return Mono(1, None, 1)
                return UNKNOWN
            if isinstance(f, ast.Attribute) and f.attr == "format":
                base = self.ev(f.value, env)
                args = [self.ev(a, env) for a in node.args]
                if isinstance(base, str) and all(isinstance(a, str) for a in args) and not node.keywords:
                    try:
                        return base.format(*args)
                    except Exception:
                        return UNKNOWN
                return UNKNOWN
            if isinstance(f, ast.Attribute) and f.attr == "add_constraint":
                self.add_constraint(node, env)
                return UNKNOWN
            if isinstance(f, ast.Name) and isinstance(env.get(f.id), ast.FunctionDef):
                self.call(env[f.id], node, env)
                return UNKNOWN
        return UNKNOWN

    def add_constraint(self, call, env):
        args = list(call.args)
        kw = {k.arg: k.value for k in call.keywords}
        limit = kw.get("limit", args[1] if len(args) > 1 else None)
        name = kw.get("name", args[2] if len(args) > 2 else None)
        if limit is None or name is None:
            return
        nm = self.ev(name, env)
        if isinstance(nm, str):
            v = self.ev(limit, env)
            self.found[nm] = v if isinstance(v, Mono) else UNKNOWN

    def call(self, fn, call, env):
        if self.depth > 6:
            return
        new = dict(env)
        params = [a.arg for a in fn.args.args]
        defaults = fn.args.defaults
        off = len(params) - len(defaults)
        for i, p in enumerate(params):
            new[p] = self.ev(defaults[i - off], env) if i >= off else UNKNOWN
        for i, a in enumerate(call.args):
            if i < len(params):
                new[params[i]] = self.ev(a, env)
        for k in call.keywords:
            if k.arg in params:
                new[k.arg] = self.ev(k.value, env)
        self.depth += 1
        self.walk(fn.body, new)
        self.depth -= 1

    def walk(self, body, env):
        for st in body:
            if isinstance(st, ast.FunctionDef):
                env[st.name] = st
            elif isinstance(st, ast.Assign):
                v = self.ev(st.value, env)
                for t in st.targets:
                    if isinstance(t, ast.Name):
                        env[t.id] = v
            elif isinstance(st, ast.Expr):
                self.ev(st.value, env)
            elif isinstance(st, ast.Return) and st.value is not None:
                self.ev(st.value, env)  # `return caltech_acn(…)` in the deprecated wrapper
            elif isinstance(st, ast.For):
                it = self.ev(st.iter, env)
                if isinstance(it, (str, list)) and isinstance(st.target, ast.Name):
                    for x in it:
                        env[st.target.id] = x
                        self.walk(st.body, env)
            elif isinstance(st, ast.If):
                pass  # the site files only branch on the EVSE type

    def run(self, factory):
        env = {}
        for st in self.tree.body:
            if isinstance(st, ast.FunctionDef):
                env[st.name] = st
        fn = env[factory]
        params = [a.arg for a in fn.args.args]
        defaults = fn.args.defaults
        off = len(params) - len(defaults)
        for i, p in enumerate(params):
            if p in self.cap_names:
                env[p] = Mono(1, p, 0, [])
            elif i >= off:
                env[p] = self.ev(defaults[i - off], env)
            else:
                env[p] = UNKNOWN
        self.walk(fn.body, env)
        return self.found


def parse_formulas(fname, factory, cap_names):
    src = open(os.path.join(REPO, SITES_DIR, fname)).read()
    return Interp(src, ast.parse(src), cap_names).run(factory)


# ----------------------------------------------------------------------------- Lean text

def _pair(x) -> str:
    fr = Fraction(x)
    return f"({fr.numerator}, {fr.denominator})"


def _strs(xs) -> str:
    return "[" + ", ".join('"' + s.replace("\\", "\\\\").replace('"', '\\"') + '"' for s in xs) + "]"


def _nats(xs) -> str:
    return "[" + ", ".join(str(int(x)) for x in xs) + "]"


def _lim(m, cap_names) -> str:
    if not isinstance(m, Mono):
        return ".unknown"
    if m.var is None:
        if m.s3:
            return ".unknown"
        return f".const {m.coef.numerator} {m.coef.denominator}"
    ops = []
    for kind, c in m.ops:
        if c is None:
            ops.append("." + kind)
        else:
            ops.append(f".{kind} {c.numerator} {c.denominator}")
    return f".ofCap {cap_names.index(m.var)} [{', '.join(ops)}]"


HEADER = '''/- GENERATED by harness/translate_sites.py from the working tree's site factories — do not edit. -/
namespace Acn.Gen.Sites

/-- one step of a limit formula, applied left to right starting from the capacity [kW] -/
inductive Op where
  | mul (n : Int) (d : Nat) | div (n : Int) (d : Nat) | mulSqrt3 | divSqrt3
  deriving DecidableEq, Repr

/-- limit of a constraint: a literal, or a chain applied to the capacity parameter number `cap`
    (canonical: `[.mul N D]` or `[.mul N D, .mulSqrt3]`); `unknown` when it is not of that class -/
inductive Lim where
  | const (n : Int) (d : Nat) | ofCap (cap : Nat) (ops : List Op) | unknown
  deriving DecidableEq, Repr

/-- three line rows (a, b, c: constraint indices) over a set of EVSE columns -/
structure Triple where
  evses : List Nat
  a : Nat
  b : Nat
  c : Nat
  deriving DecidableEq, Repr

structure Xfmr where
  name : String
  sec : Triple
  pa : Nat
  pb : Nat
  pc : Nat
  deriving DecidableEq, Repr

structure Panel where
  name : String
  lines : Triple
  deriving DecidableEq, Repr

structure Pod where
  name : String
  row : Nat
  evses : List Nat
  deriving DecidableEq, Repr

/-- what is the same for every capacity and EVSE type of one site.  Rationals are (num, den).
    `lims`: the limits as canonical monomials fitted to the executed factory. -/
structure Topo where
  site : String
  nominalV : Int × Nat
  capNames : List String
  stations : List String
  angles : List (Int × Nat)
  voltages : List (Int × Nat)
  conNames : List String
  rows : List (List (Nat × Int × Nat))
  lims : List Lim
  xfmrs : List Xfmr
  panels : List Panel
  pods : List Pod
  deriving DecidableEq, Repr

/-- one executed factory call -/
structure Inst where
  factory : String
  topo : Nat
  basic : Bool
  caps : List (Int × Nat)
  limits : List (Int × Nat)
  maxRates : List (Int × Nat)
  continuous : Bool
  deriving DecidableEq, Repr

'''


def _topo_of(site, cap_names, net, formulas, voltage):
    fit, src = formulas
    import numpy as np
    names = list(net.constraint_index)
    M = np.array(net.constraint_matrix, dtype=float)
    rows = []
    for i in range(M.shape[0]):
        ent = []
        for j in range(M.shape[1]):
            if M[i, j] != 0:
                fr = Fraction(float(M[i, j]))
                ent.append(f"({j}, {fr.numerator}, {fr.denominator})")
        rows.append("[" + ", ".join(ent) + "]")

    def supp(idx):
        return sorted({j for i in idx for j in range(M.shape[1]) if M[i, j] != 0})

    xf, panels, pods = {}, {}, []
    for i, nm in enumerate(names):
        m = re.match(r"^(.*?)\s*(Secondary|Primary) ([ABC])$", nm)
        if m:
            xf.setdefault(m.group(1), {})[(m.group(2), m.group(3))] = i
            continue
        m = re.match(r"^(.*?)\s*I_([abc])$", nm)
        if m:
            panels.setdefault(m.group(1), {})[m.group(2)] = i
            continue
        pods.append((nm, i))
    miss = len(names)  # an index that does not exist: topoOk then fails instead of the translator
    xs = []
    for nm, d in xf.items():
        sec = [d.get(("Secondary", p), miss) for p in "ABC"]
        pri = [d.get(("Primary", p), miss) for p in "ABC"]
        ev = supp([i for i in sec if i < miss])
        xs.append(f'{{ name := "{nm}", sec := {{ evses := {_nats(ev)}, a := {sec[0]}, b := {sec[1]}, c := {sec[2]} }}, '
                  f'pa := {pri[0]}, pb := {pri[1]}, pc := {pri[2]} }}')
    ps = []
    for nm, d in panels.items():
        ln = [d.get(p, miss) for p in "abc"]
        ev = supp([i for i in ln if i < miss])
        ps.append(f'{{ name := "{nm}", lines := {{ evses := {_nats(ev)}, a := {ln[0]}, b := {ln[1]}, c := {ln[2]} }} }}')
    pd_ = [f'{{ name := "{nm}", row := {i}, evses := {_nats(supp([i]))} }}' for nm, i in pods]
    lims = [_lim(fit.get(nm, UNKNOWN), cap_names) for nm in names]
    src_lims = "[" + ", ".join(_lim(src.get(nm, fit.get(nm, UNKNOWN)), cap_names) for nm in names) + "]"
    sep = ",\n    "
    return (
        "{ site := \"%s\",\n  nominalV := %s,\n  capNames := %s,\n  stations := %s,\n  angles := [%s],\n  voltages := [%s],\n"
        "  conNames := %s,\n  rows := [\n    %s],\n  lims := [%s],\n  xfmrs := [\n    %s],\n  panels := [%s],\n  pods := [%s] }"
        % (site, _pair(voltage), _strs(cap_names), _strs(net.station_ids),
           ", ".join(_pair(a) for a in net._phase_angles), ", ".join(_pair(v) for v in net._voltages),
           _strs(names), sep.join(rows), ", ".join(lims), sep.join(xs),
           (("\n    " + sep.join(ps)) if ps else ""), (("\n    " + sep.join(pd_)) if pd_ else ""))), src_lims


PROBES = (1.0, 8.0, 1000.0)       # exact doubles; 1.0 makes the limit equal the coefficient as the source computes it
_REL = Fraction(1, 2 ** 44)


def _small_rational(x: float):
    """the rational with denominator ≤ 10⁶ that `x` is (2⁻⁴⁴ relative), or None"""
    if x != x or abs(x) == float("inf"):
        return None
    fx = Fraction(x)
    r = fx.limit_denominator(10 ** 6)
    return r if abs(fx - r) <= _REL * abs(fx) else None


def fit_formulas(call, cap_names, base):
    """{constraint name: Mono | UNKNOWN} for the networks `call(caps)` builds — from their limits alone.

    `call(caps)` executes the factory with the capacities `caps` (everything else fixed).  Canonical result: a literal
    (`Mono(q)`), or `cap_k · N/D [· √3]` (`ops = [("mul", N/D)] (+ [("mulSqrt3", None)])`)."""
    import math
    base = [float(b) for b in base]
    net0 = call(base)
    names = list(net0.constraint_index)
    L0 = [float(x) for x in net0.magnitudes]
    moved = {nm: {} for nm in names}        # name -> {k: {probe: limit}}
    for k in range(len(cap_names)):
        for p in PROBES:
            caps = list(base)
            caps[k] = p
            net = call(caps)
            if list(net.constraint_index) != names:
                raise ValueError("the constraint set depends on the capacity arguments")
            for nm, l0, l in zip(names, L0, (float(x) for x in net.magnitudes)):
                moved[nm].setdefault(k, {})[p] = l
    out = {}
    for nm, l0 in zip(names, L0):
        ks = [k for k, d in moved[nm].items() if any(v != l0 for v in d.values())]
        if not ks:
            r = _small_rational(l0)
            out[nm] = Mono(r if r is not None else Fraction(l0)) if l0 == l0 and abs(l0) != float("inf") else UNKNOWN
            continue
        if len(ks) != 1:
            out[nm] = UNKNOWN       # depends on two capacities
            continue
        k = ks[0]
        d = moved[nm][k]
        q = d[1.0]
        pts = list(d.items()) + [(base[k], l0)]
        if not all(abs(v - q * p) <= 1e-12 * abs(q * p) for p, v in pts) or q == 0:
            out[nm] = UNKNOWN       # not proportional to the capacity
            continue
        r = _small_rational(q)
        if r is not None:
            out[nm] = Mono(r, cap_names[k], 0, [("mul", r)])
            continue
        r = _small_rational(q / math.sqrt(3.0))
        if r is not None and abs(float(r) * math.sqrt(3.0) - q) <= 1e-13 * abs(q):
            out[nm] = Mono(r, cap_names[k], 1, [("mul", r), ("mulSqrt3", None)])
            continue
        out[nm] = UNKNOWN
    return out


def source_chains(fname, factory, cap_names, fit):
    """AST hint: {name: Mono with the source's operation chain} for the constraints whose chain the reader follows AND
    that denote the monomial of the fit; (chains, note)"""
    try:
        found = parse_formulas(fname, factory, cap_names)
    except Exception as e:  # noqa: BLE001 — unfamiliar source: no hint
        return {}, f"{factory}: source not followed ({type(e).__name__}); srcLims = lims"
    ok = {}
    for nm, f in fit.items():
        m = found.get(nm)
        if isinstance(m, Mono) and isinstance(f, Mono) and m.var == f.var and m.s3 == f.s3 and m.coef == f.coef \
                and (m.var is None or all(c is None or c != 0 for _, c in m.ops)):
            ok[nm] = m
    miss = [nm for nm, f in fit.items() if isinstance(f, Mono) and f.var is not None and nm not in ok]
    note = None if not miss else f"{factory}: operation order of the source not read for {len(miss)} limit(s) (e.g. {miss[0]!r}); srcLims = lims there"
    return ok, note


def _is_num(x):
    return isinstance(x, (int, float)) and not isinstance(x, bool) and x == x and abs(x) != float("inf")


def _signature_defaults(fn):
    import inspect
    return {k: p.default for k, p in inspect.signature(fn).parameters.items() if p.default is not inspect.Parameter.empty}


def gen_sites() -> str:
    if REPO not in sys.path:
        sys.path.insert(0, REPO)
    out = [HEADER]
    topos = []       # distinct topology texts
    topo_src = []    # per topology: the limits in the source's operation order (AST hint; Gen/SitesSrc.lean)
    topo_site = []
    insts = []
    import contextlib
    import io

    fcache = {}
    src_notes = []

    def formulas_of(site, fname, factory, cap_names, base, call):
        if factory not in fcache:
            fit = fit_formulas(call, cap_names, base)
            src, note = source_chains(fname, factory, cap_names, fit)
            if note:
                src_notes.append(note.replace("-/", "- /"))
            fcache[factory] = (fit, src)
        return fcache[factory]

    def record(site, factory, cap_names, formulas, net, basic, caps, voltage):
        t, src_lims = _topo_of(site, cap_names, net, formulas, voltage)
        if t not in topos:
            topos.append(t)
            topo_src.append(src_lims)
            topo_site.append(f"{site} at {voltage} V")
        k = topos.index(t)
        mx = sorted({Fraction(float(x)) for x in net.max_pilot_signals})
        insts.append(
            f"{{ factory := \"{factory}\", topo := {k}, basic := {'true' if basic else 'false'}, "
            f"caps := [{', '.join(_pair(c) for c in caps)}],\n    "
            f"limits := [{', '.join(_pair(float(x)) for x in net.magnitudes)}],\n    "
            f"maxRates := [{', '.join(_pair(x) for x in mx)}], "
            f"continuous := {'true' if bool(all(net.is_continuous)) else 'false'} }}")

    with warnings.catch_warnings(), contextlib.redirect_stdout(io.StringIO()):
        warnings.simplefilter("ignore")
        # nominal-voltage settings of all sites first: topo0/1/2 stay caltech/jpl/office001 at 208 V
        for nominal_pass in (True, False):
          for site, fname, factory, cap_names, settings in SITES:
            mod = importlib.import_module("acnportal.acnsim.network.sites." + fname[:-3])
            formulas = formulas_of(site, fname, factory, cap_names, settings[0][0],
                                   lambda caps, f=getattr(mod, factory), cn=cap_names: f(basic_evse=True, **dict(zip(cn, caps))))
            for caps, voltage in settings:
                if (voltage == 208) != nominal_pass:
                    continue
                for basic in (False, True):
                    net = getattr(mod, factory)(basic_evse=basic, voltage=voltage, **dict(zip(cap_names, caps)))
                    record(site, factory, cap_names, formulas, net, basic, caps, voltage)
        for site, fname, factory, cap_names, calls in WRAPPERS:
            mod = importlib.import_module("acnportal.acnsim.network.sites." + fname[:-3])
            if not hasattr(mod, factory):
                continue
            formulas = formulas_of(site, fname, factory, cap_names, [150],
                                   lambda caps, f=getattr(mod, factory), cn=cap_names: f(basic_evse=True, **dict(zip(cn, caps))))
            for how, basic, caps, voltage in calls:
                if how == "kw":
                    net = getattr(mod, factory)(basic_evse=basic, voltage=voltage, **dict(zip(cap_names, caps)))
                else:
                    net = getattr(mod, factory)(basic, voltage, *caps)
                record(site, factory, cap_names, formulas, net, basic, caps, voltage)
    # every factory with NO arguments: what a user who relies on the documented defaults gets.  `caps`, `basic` and the
    # nominal voltage recorded for these calls are the defaults of the live signature (not what this file believes)
    n_explicit = len(insts)
    default_notes = []
    with warnings.catch_warnings(), contextlib.redirect_stdout(io.StringIO()):
        warnings.simplefilter("ignore")
        for site, fname, factory, cap_names, _settings in list(SITES) + list(WRAPPERS):
            mod = importlib.import_module("acnportal.acnsim.network.sites." + fname[:-3])
            if not hasattr(mod, factory):
                continue
            try:
                fn = getattr(mod, factory)
                sig = _signature_defaults(fn)
                caps = [sig[c] for c in cap_names]
                basic, voltage = sig["basic_evse"], sig["voltage"]
                if not all(_is_num(x) for x in caps + [voltage]) or not isinstance(basic, bool):
                    raise ValueError(f"defaults of {factory} are not plain numbers / a bool: {sig}")
                formulas = formulas_of(site, fname, factory, cap_names, caps,
                                       lambda cs, f=fn, cn=cap_names: f(basic_evse=True, **dict(zip(cn, cs))))
                record(site, factory, cap_names, formulas, fn(), basic, caps, voltage)
            except Exception as e:  # noqa: BLE001 — the obligation `site_default_ratings` then misses this factory
                default_notes.append(f"{factory}() not recorded: {type(e).__name__}: {e}".replace("-/", "- /"))
    default_insts = insts[n_explicit:]
    del insts[n_explicit:]
    global _LAST_SRC
    _LAST_SRC = (list(topo_src), list(src_notes))
    for k, t in enumerate(topos):
        out.append(f"/-- topology {k}: {topo_site[k]} -/\ndef topo{k} : Topo :=\n{t}\n")
    out.append("def topos : List Topo := [" + ", ".join(f"topo{k}" for k in range(len(topos))) + "]\n")
    out.append("def insts : List Inst := [\n  " + ",\n  ".join(insts) + "]\n")
    out.append("/-- every factory called with NO arguments; `basic`, `caps` (and the nominal voltage of the topology) are the\n"
               "    defaults of the live signature" + "".join("\n    " + n for n in default_notes) + " -/\n"
               "def defaultInsts : List Inst := [\n  " + ",\n  ".join(default_insts) + "]\n")
    out.append("end Acn.Gen.Sites")
    return "\n".join(out) + "\n"


_LAST_SRC = None


def gen_sites_src() -> str:
    """lean/AcnModel/Gen/SitesSrc.lean — the AST HINT, read by the driver only (never by a theorem): per topology of
    Gen/Sites.lean the limits as operation chains in the source's left-to-right order, so that the driver reproduces the
    doubles of the source bit for bit.  Never fails: where the reader does not follow the source the entry is the canonical
    form itself, and when nothing can be produced the list is empty (the driver then evaluates the canonical forms)."""
    head = ("/- GENERATED by harness/translate_sites.py (gen_sites_src) — AST hint for the driver; do not edit. -/\n"
            "import AcnModel.Gen.Sites\nnamespace Acn.Gen.SitesSrc\nopen Acn.Gen.Sites\n\n")
    try:
        if _LAST_SRC is None:
            gen_sites()
        chains, notes = _LAST_SRC
        body = "".join(f"/- {n} -/\n" for n in notes)
        body += "def srcLims : List (List Lim) := [\n  " + ",\n  ".join(chains) + "]\n"
    except Exception as e:  # noqa: BLE001
        body = f"/- no hint: {type(e).__name__}: {e} -/\n".replace("-/ -/", "- / -/") + "def srcLims : List (List Lim) := []\n"
    return head + body + "\nend Acn.Gen.SitesSrc\n"


# ----------------------------------------------------------------------------- simple_acn (auto_acn.py)

SIMPLE_FILE = "auto_acn.py"
# the calls that are executed and dumped: (station ids, keyword arguments); an argument that is absent is NOT passed
SIMPLE_CALLS = [
    (["s0"], {}),
    (["a", "b", "c"], {}),
    (["PS-%03d" % i for i in range(54)], {"evse_type": "AeroVironment", "voltage": 240, "aggregate_cap": 225.5}),
    (["x", "y"], {"evse_type": "ClipperCreek", "voltage": 277, "aggregate_cap": 7.5}),
    (["p", "q", "r", "s", "t"], {"evse_type": "BASIC", "voltage": 120, "aggregate_cap": 40}),
    (["only"], {"voltage": 208.0, "aggregate_cap": 0.5}),
    (["u", "v", "w", "z"], {"aggregate_cap": 80}),
    (["m", "n"], {"voltage": 480}),
]

SIMPLE_HEADER = """/- GENERATED by harness/translate_sites.py (gen_simple) from acnportal/acnsim/network/sites/auto_acn.py — do not edit. -/
namespace Acn.Gen.SimpleAcn

/-- how a limit depends on one numeric argument: not at all, proportionally, inversely proportionally -/
inductive Dep where
  | none | times | over
  deriving DecidableEq, Repr

/-- the canonical monomial `n/d · aggregate_cap^(0|±1) · voltage^(0|±1)` fitted to the executed factory -/
structure Mono where
  n : Int
  d : Nat
  cap : Dep
  voltage : Dep
  deriving DecidableEq, Repr

/-- one executed call `simple_acn(ids, …)`; `none` / "" = the argument was NOT passed (signature default) -/
structure Inst where
  ids : List String
  evseType : String
  voltage : Option (Int × Nat)
  cap : Option (Int × Nat)
  stations : List String
  angles : List (Int × Nat)
  voltages : List (Int × Nat)
  conNames : List String
  rows : List (List (Nat × Int × Nat))
  limits : List (Int × Nat)
  maxRates : List (Int × Nat)
  continuous : Bool
  levels : List (Int × Nat)
  deriving DecidableEq, Repr

"""


def _fit_simple(call):
    """Lean text of the canonical monomial of the (single) limit of `call(cap, voltage)`"""
    cs, vs = (1.0, 8.0, 1000.0), (1.0, 8.0, 250.0)
    L = {}
    for c in cs:
        for v in vs:
            net = call(c, v)
            if len(net.magnitudes) != 1:
                raise ValueError(f"{len(net.magnitudes)} constraints")
            L[(c, v)] = float(net.magnitudes[0])
    q = L[(1.0, 1.0)]

    def dep(ratio):
        for name, want in (("none", 1.0), ("times", 8.0), ("over", 0.125)):
            if abs(ratio - want) <= 1e-12 * want:
                return name
        raise ValueError(f"ratio {ratio!r} for a factor 8")
    if q == 0 or q != q:
        raise ValueError(f"limit {q!r} at (1, 1)")
    a, b = dep(L[(8.0, 1.0)] / q), dep(L[(1.0, 8.0)] / q)
    ex = {"none": 0, "times": 1, "over": -1}
    for (c, v), l in L.items():
        want = q * c ** ex[a] * v ** ex[b]
        if not abs(l - want) <= 1e-12 * abs(want):
            raise ValueError(f"limit({c}, {v}) = {l!r}, monomial gives {want!r}")
    r = _small_rational(q)
    if r is None:
        raise ValueError(f"coefficient {q!r} is not a small rational")
    return f"some {{ n := {r.numerator}, d := {r.denominator}, cap := .{a}, voltage := .{b} }}"


def _opt_pair(x):
    return "none" if x is None else f"(some {_pair(x)})"


def gen_simple() -> str:
    if REPO not in sys.path:
        sys.path.insert(0, REPO)
    import contextlib
    import io
    import numpy as np
    out = [SIMPLE_HEADER]
    mod = importlib.import_module("acnportal.acnsim.network.sites." + SIMPLE_FILE[:-3])
    fn = mod.simple_acn
    # ---- the limit of the one constraint as a function of (aggregate_cap, voltage): fitted by probing
    mono, why, cname = "none", "", ""
    try:
        with warnings.catch_warnings(), contextlib.redirect_stdout(io.StringIO()):
            warnings.simplefilter("ignore")
            mono = _fit_simple(lambda c, v: fn(["p", "q", "r"], voltage=v, aggregate_cap=c))
            cname = str(list(fn(["p", "q", "r"]).constraint_index)[0])
    except Exception as e:  # noqa: BLE001 — `simple_formula` then fails: the limit is not of the documented class
        why = f" ({type(e).__name__}: {e})".replace("-/", "- /")
    out.append("/-- limit of the aggregate constraint, fitted to `simple_acn(ids, voltage=v, aggregate_cap=c).magnitudes` at\n"
               f"    c, v ∈ {{1, 8, 1000}} × {{1, 8, 250}}; `none`: not a monomial of that class{why} -/\n"
               f"def limitMono : Option Mono := {mono}\n")
    out.append("/-- name of that constraint in the built network -/\ndef constraintName : String := " + _strs([cname])[1:-1] + "\n")
    # ---- signature defaults (live function)
    sig = _signature_defaults(fn)
    dv, dc, dt = sig.get("voltage"), sig.get("aggregate_cap"), sig.get("evse_type")
    out.append("/-- defaults of the live signature (`none`: not a plain number) -/")
    out.append(f"def defaultVoltage : Option (Int × Nat) := {_opt_pair(dv if _is_num(dv) else None)}")
    out.append(f"def defaultCap : Option (Int × Nat) := {_opt_pair(dc if _is_num(dc) else None)}")
    out.append("def defaultEvseType : String := " + (_strs([dt])[1:-1] if isinstance(dt, str) else '""') + "\n")
    # ---- executed calls
    insts = []
    notes = []
    with warnings.catch_warnings(), contextlib.redirect_stdout(io.StringIO()):
        warnings.simplefilter("ignore")
        for ids, kw in SIMPLE_CALLS:
            try:
                net = fn(list(ids), **kw)
                M = np.array(net.constraint_matrix, dtype=float)
                if M.ndim != 2:
                    M = M.reshape((len(net.constraint_index), -1))
                rows = []
                for i in range(M.shape[0]):
                    ent = []
                    for j in range(M.shape[1]):
                        if M[i, j] != 0:
                            fr = Fraction(float(M[i, j]))
                            ent.append(f"({j}, {fr.numerator}, {fr.denominator})")
                    rows.append("[" + ", ".join(ent) + "]")
                mx = sorted({Fraction(float(x)) for x in net.max_pilot_signals})
                lv = sorted({Fraction(float(x)) for a in net.allowable_rates for x in a})
                insts.append(
                    f"{{ ids := {_strs(ids)}, evseType := {_strs([kw.get('evse_type', '')])[1:-1]}, "
                    f"voltage := {_opt_pair(kw.get('voltage'))}, cap := {_opt_pair(kw.get('aggregate_cap'))},\n    "
                    f"stations := {_strs(net.station_ids)},\n    "
                    f"angles := [{', '.join(_pair(float(a)) for a in net._phase_angles)}],\n    "
                    f"voltages := [{', '.join(_pair(float(v)) for v in net._voltages)}],\n    "
                    f"conNames := {_strs(list(net.constraint_index))}, rows := [{', '.join(rows)}],\n    "
                    f"limits := [{', '.join(_pair(float(x)) for x in net.magnitudes)}],\n    "
                    f"maxRates := [{', '.join(_pair(x) for x in mx)}], "
                    f"continuous := {'true' if bool(all(net.is_continuous)) else 'false'}, "
                    f"levels := [{', '.join(_pair(x) for x in lv)}] }}")
            except Exception as e:  # noqa: BLE001 — the obligation `simple_instances` (a fixed count) then fails
                notes.append(f"simple_acn({len(ids)} ids, {kw}) raised {type(e).__name__}: {e}".replace("-/", "- /"))
    out.append("/-- the executed calls" + "".join("\n    NOT RECORDED: " + n for n in notes) + " -/\n"
               "def insts : List Inst := [\n  " + ",\n  ".join(insts) + "]\n")
    out.append("end Acn.Gen.SimpleAcn")
    return "\n".join(out) + "\n"


if __name__ == "__main__":
    sys.stdout.write(gen_simple() if "--simple" in sys.argv else gen_sites_src() if "--src" in sys.argv else gen_sites())
