"""T1 for C16 — the predefined site networks as Lean data (lean/AcnModel/Gen/Sites.lean).

`gen_sites()` (called by translate.py on every check run)

  * EXECUTES the site factories of the working tree (`ACN_REPO`): caltech_acn, jpl_acn,
    office001_acn, with basic and real EVSE types, the default capacities and two other
    capacity settings each, and dumps station ids, phase angles, voltages, constraint names, the
    constraint matrix (sparse rows of exact rationals of the doubles) and the limits (exact
    rationals of the doubles);
  * PARSES the limit formulas from the AST of the site files (a small abstract interpreter over the
    factory body: assignments, `for p in "abc"`, calls of local helper functions, `str.format`
    names, `network.add_constraint(cur, limit, name=…)`) into monomials of one capacity parameter,
    kept as the source's left-to-right operation chain (`cap * 1000 / 3 / 120 [* sqrt 3]`) so the
    model can both re-evaluate it in doubles and reason about it for EVERY capacity;
  * groups the rows by their names into transformers (Secondary/Primary A,B,C), panel line triples
    (`… I_a/b/c`) and pods (everything else).  The grouping is NOT trusted: `Acn.Sites.topoOk`
    re-derives every row from the EVSE sets and the theorem `site_structure_*` checks it by
    `decide +kernel`;
  * EXECUTES every factory (and the deprecated wrapper) with NO arguments at all and records, next to the
    limits the object then carries, the defaults of its signature (`defaultInsts`): the theorem
    `site_default_ratings` pins them to the documented ratings.

`gen_simple()` (-> lean/AcnModel/Gen/SimpleAcn.lean) does the same for `simple_acn` (auto_acn.py): the
expressions passed to `register_evse` / `add_constraint` are read from the AST as expression trees over the
two parameters `aggregate_cap` and `voltage` (`(aggregate_cap / voltage) * 1000`), the signature defaults are
recorded, and a fixed list of calls is executed and dumped.
"""
from __future__ import annotations

import ast
import importlib
import os
import re
import sys
import warnings
from fractions import Fraction

REPO = os.environ.get("ACN_REPO", "/repo")
SITES_DIR = "acnportal/acnsim/network/sites"

# (site, module file, factory, capacity parameter names, (capacities, voltage) settings: first = defaults)
SITES = [
    ("caltech", "caltech_acn.py", "caltech_acn", ["transformer_cap"],
     [([150], 208), ([80], 208), ([225.5], 208), ([150], 240)]),
    ("jpl", "jpl_acn.py", "jpl_acn", ["first_transformer_cap", "third_fourth_transformer_cap"],
     [([45, 150], 208), ([30, 112.5], 208), ([75, 300], 208), ([45, 150], 240)]),
    ("office001", "office001_acn.py", "office001_acn", ["transformer_cap"],
     [([50], 208), ([150], 208), ([33.3], 208), ([50], 240)]),
]
# the deprecated wrapper (caltech_acn.py:106-113): called by keyword and POSITIONALLY, so that a swapped
# argument in the wrapper shows up as a different topology / limits
WRAPPERS = [
    ("caltech", "caltech_acn.py", "CaltechACN", ["transformer_cap"],
     [("kw", False, [150], 208), ("pos", True, [80], 240)]),
]


# ----------------------------------------------------------------------------- AST side

class Unknown:
    def __repr__(self):
        return "Unknown"


UNKNOWN = Unknown()


class Mono:
    """coef * var^(0|1) * sqrt(3)^s3, with the source's operation chain when var is present."""

    def __init__(self, coef, var=None, s3=0, ops=None):
        self.coef = Fraction(coef)
        self.var = var
        self.s3 = s3
        self.ops = list(ops or [])

    def is_const(self):
        return self.var is None


def _const_ops(m: Mono, kind: str):
    """ops that multiply/divide by the constant monomial m"""
    out = []
    if m.coef != 1 or m.s3 == 0:
        out.append((kind, m.coef))
    if m.s3 == 1:
        out.append(("mulSqrt3" if kind == "mul" else "divSqrt3", None))
    elif m.s3 != 0:
        return None
    return out


def _binop(op, a, b):
    if not isinstance(a, Mono) or not isinstance(b, Mono):
        return UNKNOWN
    if isinstance(op, ast.Mult):
        if a.var and b.var:
            return UNKNOWN
        if b.var:  # const * var: multiplication is commutative in doubles as well
            a, b = b, a
        if a.var:
            extra = _const_ops(b, "mul")
            if extra is None:
                return UNKNOWN
            return Mono(a.coef * b.coef, a.var, a.s3 + b.s3, a.ops + extra)
        s3 = a.s3 + b.s3
        coef = a.coef * b.coef * (3 ** (s3 // 2))
        return Mono(coef, None, s3 % 2)
    if isinstance(op, ast.Div):
        if b.var or b.coef == 0:
            return UNKNOWN
        if a.var:
            extra = _const_ops(b, "div")
            if extra is None:
                return UNKNOWN
            return Mono(a.coef / b.coef, a.var, a.s3 - b.s3, a.ops + extra)
        s3 = a.s3 - b.s3
        coef = a.coef / b.coef
        if s3 < 0:
            coef, s3 = coef / 3, s3 + 2
        return Mono(coef, None, s3)
    if isinstance(op, (ast.Add, ast.Sub)):
        if a.var or b.var or a.s3 or b.s3:
            return UNKNOWN
        return Mono(a.coef + b.coef if isinstance(op, ast.Add) else a.coef - b.coef)
    return UNKNOWN


class Interp:
    def __init__(self, src, tree, cap_names):
        self.src = src
        self.tree = tree
        self.cap_names = cap_names
        self.found = {}  # constraint name -> Mono | UNKNOWN
        self.depth = 0

    def module_consts(self):
        if not hasattr(self, "_mconsts"):
            self._mconsts = {}
            for st in self.tree.body:
                if isinstance(st, ast.Assign) and len(st.targets) == 1 and isinstance(st.targets[0], ast.Name):
                    v = st.value
                    if isinstance(v, ast.Constant) and isinstance(v.value, (int, float)) and not isinstance(v.value, bool):
                        self._mconsts[st.targets[0].id] = self.lit(v)
                    elif isinstance(v, ast.Constant) and isinstance(v.value, str):
                        self._mconsts[st.targets[0].id] = v.value
        return self._mconsts

    def lit(self, node):
        txt = ast.get_source_segment(self.src, node)
        try:
            return Mono(Fraction(txt.replace("_", "")))
        except Exception:
            return Mono(Fraction(node.value))

    def ev(self, node, env):
        if isinstance(node, ast.Constant):
            if isinstance(node.value, bool):
                return UNKNOWN
            if isinstance(node.value, (int, float)):
                return self.lit(node)
            if isinstance(node.value, str):
                return node.value
            return UNKNOWN
        if isinstance(node, ast.Name):
            if node.id in env:
                return env[node.id]
            # a module-level numeric constant of the site file (`_PRIMARY_V = 277`)
            g = self.module_consts()
            return g.get(node.id, UNKNOWN)
        if isinstance(node, ast.BinOp):
            return _binop(node.op, self.ev(node.left, env), self.ev(node.right, env))
        if isinstance(node, ast.UnaryOp) and isinstance(node.op, ast.USub):
            v = self.ev(node.operand, env)
            return _binop(ast.Mult(), Mono(-1), v) if isinstance(v, Mono) else UNKNOWN
        if isinstance(node, (ast.List, ast.Tuple)):
            vals = [self.ev(e, env) for e in node.elts]
            return vals if all(isinstance(v, str) for v in vals) else UNKNOWN
        if isinstance(node, ast.JoinedStr):
            out = ""
            for p in node.values:
                v = self.ev(p.value if isinstance(p, ast.FormattedValue) else p, env)
                if not isinstance(v, str):
                    return UNKNOWN
                out += v
            return out
        if isinstance(node, ast.Call):
            f = node.func
            if isinstance(f, ast.Attribute) and f.attr == "sqrt" and len(node.args) == 1:
                v = self.ev(node.args[0], env)
                if isinstance(v, Mono) and v.is_const() and v.s3 == 0 and v.coef == 3:
                    return Mono(1, None, 1)
                return UNKNOWN
            if isinstance(f, ast.Attribute) and f.attr == "format":
                base = self.ev(f.value, env)
                args = [self.ev(a, env) for a in node.args]
                if isinstance(base, str) and all(isinstance(a, str) for a in args) and not node.keywords:
                    try:
                        return base.format(*args)
                    except Exception:
                        return UNKNOWN
                return UNKNOWN
            if isinstance(f, ast.Attribute) and f.attr == "add_constraint":
                self.add_constraint(node, env)
                return UNKNOWN
            if isinstance(f, ast.Name) and isinstance(env.get(f.id), ast.FunctionDef):
                self.call(env[f.id], node, env)
                return UNKNOWN
        return UNKNOWN

    def add_constraint(self, call, env):
        args = list(call.args)
        kw = {k.arg: k.value for k in call.keywords}
        limit = kw.get("limit", args[1] if len(args) > 1 else None)
        name = kw.get("name", args[2] if len(args) > 2 else None)
        if limit is None or name is None:
            return
        nm = self.ev(name, env)
        if isinstance(nm, str):
            v = self.ev(limit, env)
            self.found[nm] = v if isinstance(v, Mono) else UNKNOWN

    def call(self, fn, call, env):
        if self.depth > 6:
            return
        new = dict(env)
        params = [a.arg for a in fn.args.args]
        defaults = fn.args.defaults
        off = len(params) - len(defaults)
        for i, p in enumerate(params):
            new[p] = self.ev(defaults[i - off], env) if i >= off else UNKNOWN
        for i, a in enumerate(call.args):
            if i < len(params):
                new[params[i]] = self.ev(a, env)
        for k in call.keywords:
            if k.arg in params:
                new[k.arg] = self.ev(k.value, env)
        self.depth += 1
        self.walk(fn.body, new)
        self.depth -= 1

    def walk(self, body, env):
        for st in body:
            if isinstance(st, ast.FunctionDef):
                env[st.name] = st
            elif isinstance(st, ast.Assign):
                v = self.ev(st.value, env)
                for t in st.targets:
                    if isinstance(t, ast.Name):
                        env[t.id] = v
            elif isinstance(st, ast.Expr):
                self.ev(st.value, env)
            elif isinstance(st, ast.Return) and st.value is not None:
                self.ev(st.value, env)  # `return caltech_acn(…)` in the deprecated wrapper
            elif isinstance(st, ast.For):
                it = self.ev(st.iter, env)
                if isinstance(it, (str, list)) and isinstance(st.target, ast.Name):
                    for x in it:
                        env[st.target.id] = x
                        self.walk(st.body, env)
            elif isinstance(st, ast.If):
                pass  # the site files only branch on the EVSE type

    def run(self, factory):
        env = {}
        for st in self.tree.body:
            if isinstance(st, ast.FunctionDef):
                env[st.name] = st
        fn = env[factory]
        params = [a.arg for a in fn.args.args]
        defaults = fn.args.defaults
        off = len(params) - len(defaults)
        for i, p in enumerate(params):
            if p in self.cap_names:
                env[p] = Mono(1, p, 0, [])
            elif i >= off:
                env[p] = self.ev(defaults[i - off], env)
            else:
                env[p] = UNKNOWN
        self.walk(fn.body, env)
        return self.found


def parse_formulas(fname, factory, cap_names):
    src = open(os.path.join(REPO, SITES_DIR, fname)).read()
    return Interp(src, ast.parse(src), cap_names).run(factory)


# ----------------------------------------------------------------------------- Lean text

def _pair(x) -> str:
    fr = Fraction(x)
    return f"({fr.numerator}, {fr.denominator})"


def _strs(xs) -> str:
    return "[" + ", ".join('"' + s.replace("\\", "\\\\").replace('"', '\\"') + '"' for s in xs) + "]"


def _nats(xs) -> str:
    return "[" + ", ".join(str(int(x)) for x in xs) + "]"


def _lim(m, cap_names) -> str:
    if not isinstance(m, Mono):
        return ".unknown"
    if m.var is None:
        if m.s3:
            return ".unknown"
        return f".const {m.coef.numerator} {m.coef.denominator}"
    ops = []
    for kind, c in m.ops:
        if c is None:
            ops.append("." + kind)
        else:
            ops.append(f".{kind} {c.numerator} {c.denominator}")
    return f".ofCap {cap_names.index(m.var)} [{', '.join(ops)}]"


HEADER = '''/- GENERATED by harness/translate_sites.py from the working tree's site factories — do not edit. -/
namespace Acn.Gen.Sites

/-- one step of a limit formula, applied left to right starting from the capacity [kW] -/
inductive Op where
  | mul (n : Int) (d : Nat) | div (n : Int) (d : Nat) | mulSqrt3 | divSqrt3
  deriving DecidableEq, Repr

/-- limit of a constraint as written in the site file: a literal, or a chain applied to the
    capacity parameter number `cap`; `unknown` when the translator could not read it -/
inductive Lim where
  | const (n : Int) (d : Nat) | ofCap (cap : Nat) (ops : List Op) | unknown
  deriving DecidableEq, Repr

/-- three line rows (a, b, c: constraint indices) over a set of EVSE columns -/
structure Triple where
  evses : List Nat
  a : Nat
  b : Nat
  c : Nat
  deriving DecidableEq, Repr

structure Xfmr where
  name : String
  sec : Triple
  pa : Nat
  pb : Nat
  pc : Nat
  deriving DecidableEq, Repr

structure Panel where
  name : String
  lines : Triple
  deriving DecidableEq, Repr

structure Pod where
  name : String
  row : Nat
  evses : List Nat
  deriving DecidableEq, Repr

/-- what is the same for every capacity and EVSE type of one site.  Rationals are (num, den). -/
structure Topo where
  site : String
  nominalV : Int × Nat
  capNames : List String
  stations : List String
  angles : List (Int × Nat)
  voltages : List (Int × Nat)
  conNames : List String
  rows : List (List (Nat × Int × Nat))
  lims : List Lim
  xfmrs : List Xfmr
  panels : List Panel
  pods : List Pod
  deriving DecidableEq, Repr

/-- one executed factory call -/
structure Inst where
  factory : String
  topo : Nat
  basic : Bool
  caps : List (Int × Nat)
  limits : List (Int × Nat)
  maxRates : List (Int × Nat)
  continuous : Bool
  deriving DecidableEq, Repr

'''


def _topo_of(site, cap_names, net, formulas, voltage):
    import numpy as np
    names = list(net.constraint_index)
    M = np.array(net.constraint_matrix, dtype=float)
    rows = []
    for i in range(M.shape[0]):
        ent = []
        for j in range(M.shape[1]):
            if M[i, j] != 0:
                fr = Fraction(float(M[i, j]))
                ent.append(f"({j}, {fr.numerator}, {fr.denominator})")
        rows.append("[" + ", ".join(ent) + "]")

    def supp(idx):
        return sorted({j for i in idx for j in range(M.shape[1]) if M[i, j] != 0})

    xf, panels, pods = {}, {}, []
    for i, nm in enumerate(names):
        m = re.match(r"^(.*?)\s*(Secondary|Primary) ([ABC])$", nm)
        if m:
            xf.setdefault(m.group(1), {})[(m.group(2), m.group(3))] = i
            continue
        m = re.match(r"^(.*?)\s*I_([abc])$", nm)
        if m:
            panels.setdefault(m.group(1), {})[m.group(2)] = i
            continue
        pods.append((nm, i))
    miss = len(names)  # an index that does not exist: topoOk then fails instead of the translator
    xs = []
    for nm, d in xf.items():
        sec = [d.get(("Secondary", p), miss) for p in "ABC"]
        pri = [d.get(("Primary", p), miss) for p in "ABC"]
        ev = supp([i for i in sec if i < miss])
        xs.append(f'{{ name := "{nm}", sec := {{ evses := {_nats(ev)}, a := {sec[0]}, b := {sec[1]}, c := {sec[2]} }}, '
                  f'pa := {pri[0]}, pb := {pri[1]}, pc := {pri[2]} }}')
    ps = []
    for nm, d in panels.items():
        ln = [d.get(p, miss) for p in "abc"]
        ev = supp([i for i in ln if i < miss])
        ps.append(f'{{ name := "{nm}", lines := {{ evses := {_nats(ev)}, a := {ln[0]}, b := {ln[1]}, c := {ln[2]} }} }}')
    pd_ = [f'{{ name := "{nm}", row := {i}, evses := {_nats(supp([i]))} }}' for nm, i in pods]
    lims = [_lim(formulas.get(nm, UNKNOWN), cap_names) for nm in names]
    sep = ",\n    "
    return (
        "{ site := \"%s\",\n  nominalV := %s,\n  capNames := %s,\n  stations := %s,\n  angles := [%s],\n  voltages := [%s],\n"
        "  conNames := %s,\n  rows := [\n    %s],\n  lims := [%s],\n  xfmrs := [\n    %s],\n  panels := [%s],\n  pods := [%s] }"
        % (site, _pair(voltage), _strs(cap_names), _strs(net.station_ids),
           ", ".join(_pair(a) for a in net._phase_angles), ", ".join(_pair(v) for v in net._voltages),
           _strs(names), sep.join(rows), ", ".join(lims), sep.join(xs),
           (("\n    " + sep.join(ps)) if ps else ""), (("\n    " + sep.join(pd_)) if pd_ else "")))


def _is_num(x):
    return isinstance(x, (int, float)) and not isinstance(x, bool) and x == x and abs(x) != float("inf")


def _signature_defaults(fn):
    import inspect
    return {k: p.default for k, p in inspect.signature(fn).parameters.items() if p.default is not inspect.Parameter.empty}


def gen_sites() -> str:
    if REPO not in sys.path:
        sys.path.insert(0, REPO)
    out = [HEADER]
    topos = []       # distinct topology texts
    topo_site = []
    insts = []
    import contextlib
    import io

    def record(site, factory, cap_names, formulas, net, basic, caps, voltage):
        t = _topo_of(site, cap_names, net, formulas, voltage)
        if t not in topos:
            topos.append(t)
            topo_site.append(f"{site} at {voltage} V")
        k = topos.index(t)
        mx = sorted({Fraction(float(x)) for x in net.max_pilot_signals})
        insts.append(
            f"{{ factory := \"{factory}\", topo := {k}, basic := {'true' if basic else 'false'}, "
            f"caps := [{', '.join(_pair(c) for c in caps)}],\n    "
            f"limits := [{', '.join(_pair(float(x)) for x in net.magnitudes)}],\n    "
            f"maxRates := [{', '.join(_pair(x) for x in mx)}], "
            f"continuous := {'true' if bool(all(net.is_continuous)) else 'false'} }}")

    with warnings.catch_warnings(), contextlib.redirect_stdout(io.StringIO()):
        warnings.simplefilter("ignore")
        # nominal-voltage settings of all sites first: topo0/1/2 stay caltech/jpl/office001 at 208 V
        for nominal_pass in (True, False):
          for site, fname, factory, cap_names, settings in SITES:
            mod = importlib.import_module("acnportal.acnsim.network.sites." + fname[:-3])
            formulas = parse_formulas(fname, factory, cap_names)
            for caps, voltage in settings:
                if (voltage == 208) != nominal_pass:
                    continue
                for basic in (False, True):
                    net = getattr(mod, factory)(basic_evse=basic, voltage=voltage, **dict(zip(cap_names, caps)))
                    record(site, factory, cap_names, formulas, net, basic, caps, voltage)
        for site, fname, factory, cap_names, calls in WRAPPERS:
            mod = importlib.import_module("acnportal.acnsim.network.sites." + fname[:-3])
            if not hasattr(mod, factory):
                continue
            formulas = parse_formulas(fname, factory, cap_names)
            for how, basic, caps, voltage in calls:
                if how == "kw":
                    net = getattr(mod, factory)(basic_evse=basic, voltage=voltage, **dict(zip(cap_names, caps)))
                else:
                    net = getattr(mod, factory)(basic, voltage, *caps)
                record(site, factory, cap_names, formulas, net, basic, caps, voltage)
    # every factory with NO arguments: what a user who relies on the documented defaults gets.  `caps`, `basic` and the
    # nominal voltage recorded for these calls are the defaults of the live signature (not what this file believes)
    n_explicit = len(insts)
    default_notes = []
    with warnings.catch_warnings(), contextlib.redirect_stdout(io.StringIO()):
        warnings.simplefilter("ignore")
        for site, fname, factory, cap_names, _settings in list(SITES) + list(WRAPPERS):
            mod = importlib.import_module("acnportal.acnsim.network.sites." + fname[:-3])
            if not hasattr(mod, factory):
                continue
            try:
                fn = getattr(mod, factory)
                sig = _signature_defaults(fn)
                caps = [sig[c] for c in cap_names]
                basic, voltage = sig["basic_evse"], sig["voltage"]
                if not all(_is_num(x) for x in caps + [voltage]) or not isinstance(basic, bool):
                    raise ValueError(f"defaults of {factory} are not plain numbers / a bool: {sig}")
                formulas = parse_formulas(fname, factory, cap_names)
                record(site, factory, cap_names, formulas, fn(), basic, caps, voltage)
            except Exception as e:  # noqa: BLE001 — the obligation `site_default_ratings` then misses this factory
                default_notes.append(f"{factory}() not recorded: {type(e).__name__}: {e}".replace("-/", "- /"))
    default_insts = insts[n_explicit:]
    del insts[n_explicit:]
    for k, t in enumerate(topos):
        out.append(f"/-- topology {k}: {topo_site[k]} -/\ndef topo{k} : Topo :=\n{t}\n")
    out.append("def topos : List Topo := [" + ", ".join(f"topo{k}" for k in range(len(topos))) + "]\n")
    out.append("def insts : List Inst := [\n  " + ",\n  ".join(insts) + "]\n")
    out.append("/-- every factory called with NO arguments; `basic`, `caps` (and the nominal voltage of the topology) are the\n"
               "    defaults of the live signature" + "".join("\n    " + n for n in default_notes) + " -/\n"
               "def defaultInsts : List Inst := [\n  " + ",\n  ".join(default_insts) + "]\n")
    out.append("end Acn.Gen.Sites")
    return "\n".join(out) + "\n"


# ----------------------------------------------------------------------------- simple_acn (auto_acn.py)

SIMPLE_FILE = "auto_acn.py"
# the calls that are executed and dumped: (station ids, keyword arguments); an argument that is absent is NOT passed
SIMPLE_CALLS = [
    (["s0"], {}),
    (["a", "b", "c"], {}),
    (["PS-%03d" % i for i in range(54)], {"evse_type": "AeroVironment", "voltage": 240, "aggregate_cap": 225.5}),
    (["x", "y"], {"evse_type": "ClipperCreek", "voltage": 277, "aggregate_cap": 7.5}),
    (["p", "q", "r", "s", "t"], {"evse_type": "BASIC", "voltage": 120, "aggregate_cap": 40}),
    (["only"], {"voltage": 208.0, "aggregate_cap": 0.5}),
    (["u", "v", "w", "z"], {"aggregate_cap": 80}),
    (["m", "n"], {"voltage": 480}),
]

SIMPLE_HEADER = """/- GENERATED by harness/translate_sites.py (gen_simple) from acnportal/acnsim/network/sites/auto_acn.py — do not edit. -/
namespace Acn.Gen.SimpleAcn

/-- an arithmetic expression over the two numeric parameters of `simple_acn`, as written in the source
    (`unknown`: something the translator cannot read) -/
inductive SExpr where
  | cap | voltage | lit (n : Int) (d : Nat)
  | mul (a b : SExpr) | div (a b : SExpr) | add (a b : SExpr) | sub (a b : SExpr) | neg (a : SExpr) | unknown
  deriving DecidableEq, Repr

/-- one executed call `simple_acn(ids, …)`; `none` / "" = the argument was NOT passed (signature default) -/
structure Inst where
  ids : List String
  evseType : String
  voltage : Option (Int × Nat)
  cap : Option (Int × Nat)
  stations : List String
  angles : List (Int × Nat)
  voltages : List (Int × Nat)
  conNames : List String
  rows : List (List (Nat × Int × Nat))
  limits : List (Int × Nat)
  maxRates : List (Int × Nat)
  continuous : Bool
  levels : List (Int × Nat)
  deriving DecidableEq, Repr

"""


class _SimpleAst:
    """reads `simple_acn`: the arguments of the one `register_evse` call in the loop over `station_ids` and of the
    `add_constraint` call, with local names resolved through the straight-line assignments before them"""

    def __init__(self, src, fn):
        self.src = src
        self.fn = fn
        self.env = {}
        self.reg = []     # (voltage expr, angle expr, loops over station_ids?, evse type is the parameter?)
        self.cons = []    # (limit expr, name, covers station_ids?)
        self.station_lists = {"station_ids"}

    def ex(self, node):
        if isinstance(node, ast.Constant) and isinstance(node.value, (int, float)) and not isinstance(node.value, bool):
            txt = ast.get_source_segment(self.src, node) or repr(node.value)
            try:
                fr = Fraction(txt.replace("_", ""))
            except Exception:
                fr = Fraction(node.value)
            return f"(.lit {fr.numerator} {fr.denominator})" if fr >= 0 else f"(.neg (.lit {-fr.numerator} {fr.denominator}))"
        if isinstance(node, ast.Name):
            if node.id in self.env:
                return self.env[node.id]
            if node.id == "aggregate_cap":
                return ".cap"
            if node.id == "voltage":
                return ".voltage"
            return ".unknown"
        if isinstance(node, ast.BinOp):
            op = {ast.Mult: "mul", ast.Div: "div", ast.Add: "add", ast.Sub: "sub"}.get(type(node.op))
            if op is None:
                return ".unknown"
            return f"(.{op} {self.ex(node.left)} {self.ex(node.right)})"
        if isinstance(node, ast.UnaryOp) and isinstance(node.op, ast.USub):
            return f"(.neg {self.ex(node.operand)})"
        if isinstance(node, ast.UnaryOp) and isinstance(node.op, ast.UAdd):
            return self.ex(node.operand)
        return ".unknown"

    def _args(self, call, names):
        got = {}
        for i, a in enumerate(call.args):
            if i < len(names):
                got[names[i]] = a
        for k in call.keywords:
            if k.arg in names:
                got[k.arg] = k.value
        return got

    def walk(self, body, loop_over=None):
        for st in body:
            if isinstance(st, ast.Assign) and len(st.targets) == 1 and isinstance(st.targets[0], ast.Name):
                v = st.value
                name = st.targets[0].id
                if isinstance(v, ast.Call) and isinstance(v.func, ast.Name) and v.func.id == "Current" and len(v.args) == 1 \
                        and isinstance(v.args[0], ast.Name) and v.args[0].id in self.station_lists:
                    self.env[name] = "<current of all stations>"
                elif isinstance(v, ast.Name) and v.id in self.station_lists:
                    self.station_lists.add(name)
                else:
                    self.env[name] = self.ex(v)
            elif isinstance(st, ast.For) and isinstance(st.target, ast.Name):
                it = st.iter.id if isinstance(st.iter, ast.Name) else None
                self.walk(st.body, loop_over=(st.target.id, it in self.station_lists))
            elif isinstance(st, ast.Expr) and isinstance(st.value, ast.Call) and isinstance(st.value.func, ast.Attribute):
                call = st.value
                if call.func.attr == "register_evse":
                    a = self._args(call, ["evse", "voltage", "phase_angle"])
                    ev = a.get("evse")
                    typed = (isinstance(ev, ast.Call) and isinstance(ev.func, ast.Name) and ev.func.id == "get_evse_by_type"
                             and len(ev.args) == 2 and isinstance(ev.args[0], ast.Name) and loop_over is not None
                             and ev.args[0].id == loop_over[0] and isinstance(ev.args[1], ast.Name) and ev.args[1].id == "evse_type")
                    self.reg.append((self.ex(a["voltage"]) if "voltage" in a else ".unknown",
                                     self.ex(a["phase_angle"]) if "phase_angle" in a else ".unknown",
                                     bool(loop_over and loop_over[1]), typed))
                elif call.func.attr == "add_constraint":
                    a = self._args(call, ["current", "limit", "name"])
                    cur = a.get("current")
                    covers = isinstance(cur, ast.Name) and self.env.get(cur.id) == "<current of all stations>"
                    nm = a.get("name")
                    self.cons.append((self.ex(a["limit"]) if "limit" in a else ".unknown",
                                      nm.value if isinstance(nm, ast.Constant) and isinstance(nm.value, str) else None, covers))


def _simple_ast():
    src = open(os.path.join(REPO, SITES_DIR, SIMPLE_FILE)).read()
    tree = ast.parse(src)
    fn = next(st for st in tree.body if isinstance(st, ast.FunctionDef) and st.name == "simple_acn")
    rd = _SimpleAst(src, fn)
    rd.walk(fn.body)
    return rd


def _opt_pair(x):
    return "none" if x is None else f"(some {_pair(x)})"


def gen_simple() -> str:
    if REPO not in sys.path:
        sys.path.insert(0, REPO)
    import contextlib
    import io
    import numpy as np
    out = [SIMPLE_HEADER]
    # ---- AST: what the body passes to register_evse / add_constraint
    rd = _simple_ast()
    ok_shape = len(rd.reg) == 1 and len(rd.cons) == 1 and rd.reg[0][2] and rd.reg[0][3] and rd.cons[0][2]
    if ok_shape:
        volt_e, ang_e = rd.reg[0][0], rd.reg[0][1]
        lim_e, cname = rd.cons[0][0], rd.cons[0][1]
    else:
        volt_e = ang_e = lim_e = ".unknown"
        cname = None
    out.append("/-- the body of `simple_acn` has the documented shape: ONE `register_evse(get_evse_by_type(id, evse_type), …)` in a loop over\n"
               "    `station_ids`, ONE `add_constraint(Current(station_ids), …)` -/\n"
               f"def bodyShapeOk : Bool := {'true' if ok_shape else 'false'}\n")
    out.append(f"/-- second argument of `register_evse` -/\ndef voltageExpr : SExpr := {volt_e}\n")
    out.append(f"/-- third argument of `register_evse` (phase angle, degrees) -/\ndef angleExpr : SExpr := {ang_e}\n")
    out.append(f"/-- `limit` argument of `add_constraint`, local names resolved -/\ndef limitExpr : SExpr := {lim_e}\n")
    out.append("def constraintName : String := " + (_strs([cname])[1:-1] if cname is not None else '""') + "\n")
    # ---- signature defaults (live function)
    mod = importlib.import_module("acnportal.acnsim.network.sites." + SIMPLE_FILE[:-3])
    fn = mod.simple_acn
    sig = _signature_defaults(fn)
    dv, dc, dt = sig.get("voltage"), sig.get("aggregate_cap"), sig.get("evse_type")
    out.append("/-- defaults of the live signature (`none`: not a plain number) -/")
    out.append(f"def defaultVoltage : Option (Int × Nat) := {_opt_pair(dv if _is_num(dv) else None)}")
    out.append(f"def defaultCap : Option (Int × Nat) := {_opt_pair(dc if _is_num(dc) else None)}")
    out.append("def defaultEvseType : String := " + (_strs([dt])[1:-1] if isinstance(dt, str) else '""') + "\n")
    # ---- executed calls
    insts = []
    notes = []
    with warnings.catch_warnings(), contextlib.redirect_stdout(io.StringIO()):
        warnings.simplefilter("ignore")
        for ids, kw in SIMPLE_CALLS:
            try:
                net = fn(list(ids), **kw)
                M = np.array(net.constraint_matrix, dtype=float)
                if M.ndim != 2:
                    M = M.reshape((len(net.constraint_index), -1))
                rows = []
                for i in range(M.shape[0]):
                    ent = []
                    for j in range(M.shape[1]):
                        if M[i, j] != 0:
                            fr = Fraction(float(M[i, j]))
                            ent.append(f"({j}, {fr.numerator}, {fr.denominator})")
                    rows.append("[" + ", ".join(ent) + "]")
                mx = sorted({Fraction(float(x)) for x in net.max_pilot_signals})
                lv = sorted({Fraction(float(x)) for a in net.allowable_rates for x in a})
                insts.append(
                    f"{{ ids := {_strs(ids)}, evseType := {_strs([kw.get('evse_type', '')])[1:-1]}, "
                    f"voltage := {_opt_pair(kw.get('voltage'))}, cap := {_opt_pair(kw.get('aggregate_cap'))},\n    "
                    f"stations := {_strs(net.station_ids)},\n    "
                    f"angles := [{', '.join(_pair(float(a)) for a in net._phase_angles)}],\n    "
                    f"voltages := [{', '.join(_pair(float(v)) for v in net._voltages)}],\n    "
                    f"conNames := {_strs(list(net.constraint_index))}, rows := [{', '.join(rows)}],\n    "
                    f"limits := [{', '.join(_pair(float(x)) for x in net.magnitudes)}],\n    "
                    f"maxRates := [{', '.join(_pair(x) for x in mx)}], "
                    f"continuous := {'true' if bool(all(net.is_continuous)) else 'false'}, "
                    f"levels := [{', '.join(_pair(x) for x in lv)}] }}")
            except Exception as e:  # noqa: BLE001 — the obligation `simple_instances` (a fixed count) then fails
                notes.append(f"simple_acn({len(ids)} ids, {kw}) raised {type(e).__name__}: {e}".replace("-/", "- /"))
    out.append("/-- the executed calls" + "".join("\n    NOT RECORDED: " + n for n in notes) + " -/\n"
               "def insts : List Inst := [\n  " + ",\n  ".join(insts) + "]\n")
    out.append("end Acn.Gen.SimpleAcn")
    return "\n".join(out) + "\n"


if __name__ == "__main__":
    sys.stdout.write(gen_simple() if "--simple" in sys.argv else gen_sites())
