"""T1 for C16 — the predefined site networks as Lean data (lean/AcnModel/Gen/Sites.lean).

`gen_sites()` (called by translate.py on every check run)

  * EXECUTES the site factories of the working tree (`ACN_REPO`): caltech_acn, jpl_acn,
    office001_acn, with basic and real EVSE types, the default capacities and two other
    capacity settings each, and dumps station ids, phase angles, voltages, constraint names, the
    constraint matrix (sparse rows of exact rationals of the doubles) and the limits (exact
    rationals of the doubles);
  * PARSES the limit formulas from the AST of the site files (a small abstract interpreter over the
    factory body: assignments, `for p in "abc"`, calls of local helper functions, `str.format`
    names, `network.add_constraint(cur, limit, name=…)`) into monomials of one capacity parameter,
    kept as the source's left-to-right operation chain (`cap * 1000 / 3 / 120 [* sqrt 3]`) so the
    model can both re-evaluate it in doubles and reason about it for EVERY capacity;
  * groups the rows by their names into transformers (Secondary/Primary A,B,C), panel line triples
    (`… I_a/b/c`) and pods (everything else).  The grouping is NOT trusted: `Acn.Sites.topoOk`
    re-derives every row from the EVSE sets and the theorem `site_structure_*` checks it by
    `decide +kernel`.
"""
from __future__ import annotations

import ast
import importlib
import os
import re
import sys
import warnings
from fractions import Fraction

REPO = os.environ.get("ACN_REPO", "/repo")
SITES_DIR = "acnportal/acnsim/network/sites"

# (site, module file, factory, capacity parameter names, (capacities, voltage) settings: first = defaults)
SITES = [
    ("caltech", "caltech_acn.py", "caltech_acn", ["transformer_cap"],
     [([150], 208), ([80], 208), ([225.5], 208), ([150], 240)]),
    ("jpl", "jpl_acn.py", "jpl_acn", ["first_transformer_cap", "third_fourth_transformer_cap"],
     [([45, 150], 208), ([30, 112.5], 208), ([75, 300], 208), ([45, 150], 240)]),
    ("office001", "office001_acn.py", "office001_acn", ["transformer_cap"],
     [([50], 208), ([150], 208), ([33.3], 208), ([50], 240)]),
]
# the deprecated wrapper (caltech_acn.py:106-113): called by keyword and POSITIONALLY, so that a swapped
# argument in the wrapper shows up as a different topology / limits
WRAPPERS = [
    ("caltech", "caltech_acn.py", "CaltechACN", ["transformer_cap"],
     [("kw", False, [150], 208), ("pos", True, [80], 240)]),
]


# ----------------------------------------------------------------------------- AST side

class Unknown:
    def __repr__(self):
        return "Unknown"


UNKNOWN = Unknown()


class Mono:
    """coef * var^(0|1) * sqrt(3)^s3, with the source's operation chain when var is present."""

    def __init__(self, coef, var=None, s3=0, ops=None):
        self.coef = Fraction(coef)
        self.var = var
        self.s3 = s3
        self.ops = list(ops or [])

    def is_const(self):
        return self.var is None


def _const_ops(m: Mono, kind: str):
    """ops that multiply/divide by the constant monomial m"""
    out = []
    if m.coef != 1 or m.s3 == 0:
        out.append((kind, m.coef))
    if m.s3 == 1:
        out.append(("mulSqrt3" if kind == "mul" else "divSqrt3", None))
    elif m.s3 != 0:
        return None
    return out


def _binop(op, a, b):
    if not isinstance(a, Mono) or not isinstance(b, Mono):
        return UNKNOWN
    if isinstance(op, ast.Mult):
        if a.var and b.var:
            return UNKNOWN
        if b.var:  # const * var: multiplication is commutative in doubles as well
            a, b = b, a
        if a.var:
            extra = _const_ops(b, "mul")
            if extra is None:
                return UNKNOWN
            return Mono(a.coef * b.coef, a.var, a.s3 + b.s3, a.ops + extra)
        s3 = a.s3 + b.s3
        coef = a.coef * b.coef * (3 ** (s3 // 2))
        return Mono(coef, None, s3 % 2)
    if isinstance(op, ast.Div):
        if b.var or b.coef == 0:
            return UNKNOWN
        if a.var:
            extra = _const_ops(b, "div")
            if extra is None:
                return UNKNOWN
            return Mono(a.coef / b.coef, a.var, a.s3 - b.s3, a.ops + extra)
        s3 = a.s3 - b.s3
        coef = a.coef / b.coef
        if s3 < 0:
            coef, s3 = coef / 3, s3 + 2
        return Mono(coef, None, s3)
    if isinstance(op, (ast.Add, ast.Sub)):
        if a.var or b.var or a.s3 or b.s3:
            return UNKNOWN
        return Mono(a.coef + b.coef if isinstance(op, ast.Add) else a.coef - b.coef)
    return UNKNOWN


class Interp:
    def __init__(self, src, tree, cap_names):
        self.src = src
        self.tree = tree
        self.cap_names = cap_names
        self.found = {}  # constraint name -> Mono | UNKNOWN
        self.depth = 0

    def module_consts(self):
        if not hasattr(self, "_mconsts"):
            self._mconsts = {}
            for st in self.tree.body:
                if isinstance(st, ast.Assign) and len(st.targets) == 1 and isinstance(st.targets[0], ast.Name):
                    v = st.value
                    if isinstance(v, ast.Constant) and isinstance(v.value, (int, float)) and not isinstance(v.value, bool):
                        self._mconsts[st.targets[0].id] = self.lit(v)
                    elif isinstance(v, ast.Constant) and isinstance(v.value, str):
                        self._mconsts[st.targets[0].id] = v.value
        return self._mconsts

    def lit(self, node):
        txt = ast.get_source_segment(self.src, node)
        try:
            return Mono(Fraction(txt.replace("_", "")))
        except Exception:
            return Mono(Fraction(node.value))

    def ev(self, node, env):
        if isinstance(node, ast.Constant):
            if isinstance(node.value, bool):
                return UNKNOWN
            if isinstance(node.value, (int, float)):
                return self.lit(node)
            if isinstance(node.value, str):
                return node.value
            return UNKNOWN
        if isinstance(node, ast.Name):
            if node.id in env:
                return env[node.id]
            # a module-level numeric constant of the site file (`_PRIMARY_V = 277`)
            g = self.module_consts()
            return g.get(node.id, UNKNOWN)
        if isinstance(node, ast.BinOp):
            return _binop(node.op, self.ev(node.left, env), self.ev(node.right, env))
        if isinstance(node, ast.UnaryOp) and isinstance(node.op, ast.USub):
            v = self.ev(node.operand, env)
            return _binop(ast.Mult(), Mono(-1), v) if isinstance(v, Mono) else UNKNOWN
        if isinstance(node, (ast.List, ast.Tuple)):
            vals = [self.ev(e, env) for e in node.elts]
            return vals if all(isinstance(v, str) for v in vals) else UNKNOWN
        if isinstance(node, ast.JoinedStr):
            out = ""
            for p in node.values:
                v = self.ev(p.value if isinstance(p, ast.FormattedValue) else p, env)
                if not isinstance(v, str):
                    return UNKNOWN
                out += v
            return out
        if isinstance(node, ast.Call):
            f = node.func
            if isinstance(f, ast.Attribute) and f.attr == "sqrt" and len(node.args) == 1:
                v = self.ev(node.args[0], env)
                if isinstance(v, Mono) and v.is_const() and v.s3 == 0 and v.coef == 3:
                    return Mono(1, None, 1)
                return UNKNOWN
            if isinstance(f, ast.Attribute) and f.attr == "format":
                base = self.ev(f.value, env)
                args = [self.ev(a, env) for a in node.args]
                if isinstance(base, str) and all(isinstance(a, str) for a in args) and not node.keywords:
                    try:
                        return base.format(*args)
                    except Exception:
                        return UNKNOWN
                return UNKNOWN
            if isinstance(f, ast.Attribute) and f.attr == "add_constraint":
                self.add_constraint(node, env)
                return UNKNOWN
            if isinstance(f, ast.Name) and isinstance(env.get(f.id), ast.FunctionDef):
                self.call(env[f.id], node, env)
                return UNKNOWN
        return UNKNOWN

    def add_constraint(self, call, env):
        args = list(call.args)
        kw = {k.arg: k.value for k in call.keywords}
        limit = kw.get("limit", args[1] if len(args) > 1 else None)
        name = kw.get("name", args[2] if len(args) > 2 else None)
        if limit is None or name is None:
            return
        nm = self.ev(name, env)
        if isinstance(nm, str):
            v = self.ev(limit, env)
            self.found[nm] = v if isinstance(v, Mono) else UNKNOWN

    def call(self, fn, call, env):
        if self.depth > 6:
            return
        new = dict(env)
        params = [a.arg for a in fn.args.args]
        defaults = fn.args.defaults
        off = len(params) - len(defaults)
        for i, p in enumerate(params):
            new[p] = self.ev(defaults[i - off], env) if i >= off else UNKNOWN
        for i, a in enumerate(call.args):
            if i < len(params):
                new[params[i]] = self.ev(a, env)
        for k in call.keywords:
            if k.arg in params:
                new[k.arg] = self.ev(k.value, env)
        self.depth += 1
        self.walk(fn.body, new)
        self.depth -= 1

    def walk(self, body, env):
        for st in body:
            if isinstance(st, ast.FunctionDef):
                env[st.name] = st
            elif isinstance(st, ast.Assign):
                v = self.ev(st.value, env)
                for t in st.targets:
                    if isinstance(t, ast.Name):
                        env[t.id] = v
            elif isinstance(st, ast.Expr):
                self.ev(st.value, env)
            elif isinstance(st, ast.Return) and st.value is not None:
                self.ev(st.value, env)  # `return caltech_acn(…)` in the deprecated wrapper
            elif isinstance(st, ast.For):
                it = self.ev(st.iter, env)
                if isinstance(it, (str, list)) and isinstance(st.target, ast.Name):
                    for x in it:
                        env[st.target.id] = x
                        self.walk(st.body, env)
            elif isinstance(st, ast.If):
                pass  # the site files only branch on the EVSE type

    def run(self, factory):
        env = {}
        for st in self.tree.body:
            if isinstance(st, ast.FunctionDef):
                env[st.name] = st
        fn = env[factory]
        params = [a.arg for a in fn.args.args]
        defaults = fn.args.defaults
        off = len(params) - len(defaults)
        for i, p in enumerate(params):
            if p in self.cap_names:
                env[p] = Mono(1, p, 0, [])
            elif i >= off:
                env[p] = self.ev(defaults[i - off], env)
            else:
                env[p] = UNKNOWN
        self.walk(fn.body, env)
        return self.found


def parse_formulas(fname, factory, cap_names):
    src = open(os.path.join(REPO, SITES_DIR, fname)).read()
    return Interp(src, ast.parse(src), cap_names).run(factory)


# ----------------------------------------------------------------------------- Lean text

def _pair(x) -> str:
    fr = Fraction(x)
    return f"({fr.numerator}, {fr.denominator})"


def _strs(xs) -> str:
    return "[" + ", ".join('"' + s.replace("\\", "\\\\").replace('"', '\\"') + '"' for s in xs) + "]"


def _nats(xs) -> str:
    return "[" + ", ".join(str(int(x)) for x in xs) + "]"


def _lim(m, cap_names) -> str:
    if not isinstance(m, Mono):
        return ".unknown"
    if m.var is None:
        if m.s3:
            return ".unknown"
        return f".const {m.coef.numerator} {m.coef.denominator}"
    ops = []
    for kind, c in m.ops:
        if c is None:
            ops.append("." + kind)
        else:
            ops.append(f".{kind} {c.numerator} {c.denominator}")
    return f".ofCap {cap_names.index(m.var)} [{', '.join(ops)}]"


HEADER = '''/- GENERATED by harness/translate_sites.py from the working tree's site factories — do not edit. -/
namespace Acn.Gen.Sites

/-- one step of a limit formula, applied left to right starting from the capacity [kW] -/
inductive Op where
  | mul (n : Int) (d : Nat) | div (n : Int) (d : Nat) | mulSqrt3 | divSqrt3
  deriving DecidableEq, Repr

/-- limit of a constraint as written in the site file: a literal, or a chain applied to the
    capacity parameter number `cap`; `unknown` when the translator could not read it -/
inductive Lim where
  | const (n : Int) (d : Nat) | ofCap (cap : Nat) (ops : List Op) | unknown
  deriving DecidableEq, Repr

/-- three line rows (a, b, c: constraint indices) over a set of EVSE columns -/
structure Triple where
  evses : List Nat
  a : Nat
  b : Nat
  c : Nat
  deriving DecidableEq, Repr

structure Xfmr where
  name : String
  sec : Triple
  pa : Nat
  pb : Nat
  pc : Nat
  deriving DecidableEq, Repr

structure Panel where
  name : String
  lines : Triple
  deriving DecidableEq, Repr

structure Pod where
  name : String
  row : Nat
  evses : List Nat
  deriving DecidableEq, Repr

/-- what is the same for every capacity and EVSE type of one site.  Rationals are (num, den). -/
structure Topo where
  site : String
  nominalV : Int × Nat
  capNames : List String
  stations : List String
  angles : List (Int × Nat)
  voltages : List (Int × Nat)
  conNames : List String
  rows : List (List (Nat × Int × Nat))
  lims : List Lim
  xfmrs : List Xfmr
  panels : List Panel
  pods : List Pod
  deriving DecidableEq, Repr

/-- one executed factory call -/
structure Inst where
  factory : String
  topo : Nat
  basic : Bool
  caps : List (Int × Nat)
  limits : List (Int × Nat)
  maxRates : List (Int × Nat)
  continuous : Bool
  deriving DecidableEq, Repr

'''


def _topo_of(site, cap_names, net, formulas, voltage):
    import numpy as np
    names = list(net.constraint_index)
    M = np.array(net.constraint_matrix, dtype=float)
    rows = []
    for i in range(M.shape[0]):
        ent = []
        for j in range(M.shape[1]):
            if M[i, j] != 0:
                fr = Fraction(float(M[i, j]))
                ent.append(f"({j}, {fr.numerator}, {fr.denominator})")
        rows.append("[" + ", ".join(ent) + "]")

    def supp(idx):
        return sorted({j for i in idx for j in range(M.shape[1]) if M[i, j] != 0})

    xf, panels, pods = {}, {}, []
    for i, nm in enumerate(names):
        m = re.match(r"^(.*?)\s*(Secondary|Primary) ([ABC])$", nm)
        if m:
            xf.setdefault(m.group(1), {})[(m.group(2), m.group(3))] = i
            continue
        m = re.match(r"^(.*?)\s*I_([abc])$", nm)
        if m:
            panels.setdefault(m.group(1), {})[m.group(2)] = i
            continue
        pods.append((nm, i))
    miss = len(names)  # an index that does not exist: topoOk then fails instead of the translator
    xs = []
    for nm, d in xf.items():
        sec = [d.get(("Secondary", p), miss) for p in "ABC"]
        pri = [d.get(("Primary", p), miss) for p in "ABC"]
        ev = supp([i for i in sec if i < miss])
        xs.append(f'{{ name := "{nm}", sec := {{ evses := {_nats(ev)}, a := {sec[0]}, b := {sec[1]}, c := {sec[2]} }}, '
                  f'pa := {pri[0]}, pb := {pri[1]}, pc := {pri[2]} }}')
    ps = []
    for nm, d in panels.items():
        ln = [d.get(p, miss) for p in "abc"]
        ev = supp([i for i in ln if i < miss])
        ps.append(f'{{ name := "{nm}", lines := {{ evses := {_nats(ev)}, a := {ln[0]}, b := {ln[1]}, c := {ln[2]} }} }}')
    pd_ = [f'{{ name := "{nm}", row := {i}, evses := {_nats(supp([i]))} }}' for nm, i in pods]
    lims = [_lim(formulas.get(nm, UNKNOWN), cap_names) for nm in names]
    sep = ",\n    "
    return (
        "{ site := \"%s\",\n  nominalV := %s,\n  capNames := %s,\n  stations := %s,\n  angles := [%s],\n  voltages := [%s],\n"
        "  conNames := %s,\n  rows := [\n    %s],\n  lims := [%s],\n  xfmrs := [\n    %s],\n  panels := [%s],\n  pods := [%s] }"
        % (site, _pair(voltage), _strs(cap_names), _strs(net.station_ids),
           ", ".join(_pair(a) for a in net._phase_angles), ", ".join(_pair(v) for v in net._voltages),
           _strs(names), sep.join(rows), ", ".join(lims), sep.join(xs),
           (("\n    " + sep.join(ps)) if ps else ""), (("\n    " + sep.join(pd_)) if pd_ else "")))


def gen_sites() -> str:
    if REPO not in sys.path:
        sys.path.insert(0, REPO)
    out = [HEADER]
    topos = []       # distinct topology texts
    topo_site = []
    insts = []
    import contextlib
    import io

    def record(site, factory, cap_names, formulas, net, basic, caps, voltage):
        t = _topo_of(site, cap_names, net, formulas, voltage)
        if t not in topos:
            topos.append(t)
            topo_site.append(f"{site} at {voltage} V")
        k = topos.index(t)
        mx = sorted({Fraction(float(x)) for x in net.max_pilot_signals})
        insts.append(
            f"{{ factory := \"{factory}\", topo := {k}, basic := {'true' if basic else 'false'}, "
            f"caps := [{', '.join(_pair(c) for c in caps)}],\n    "
            f"limits := [{', '.join(_pair(float(x)) for x in net.magnitudes)}],\n    "
            f"maxRates := [{', '.join(_pair(x) for x in mx)}], "
            f"continuous := {'true' if bool(all(net.is_continuous)) else 'false'} }}")

    with warnings.catch_warnings(), contextlib.redirect_stdout(io.StringIO()):
        warnings.simplefilter("ignore")
        # nominal-voltage settings of all sites first: topo0/1/2 stay caltech/jpl/office001 at 208 V
        for nominal_pass in (True, False):
          for site, fname, factory, cap_names, settings in SITES:
            mod = importlib.import_module("acnportal.acnsim.network.sites." + fname[:-3])
            formulas = parse_formulas(fname, factory, cap_names)
            for caps, voltage in settings:
                if (voltage == 208) != nominal_pass:
                    continue
                for basic in (False, True):
                    net = getattr(mod, factory)(basic_evse=basic, voltage=voltage, **dict(zip(cap_names, caps)))
                    record(site, factory, cap_names, formulas, net, basic, caps, voltage)
        for site, fname, factory, cap_names, calls in WRAPPERS:
            mod = importlib.import_module("acnportal.acnsim.network.sites." + fname[:-3])
            if not hasattr(mod, factory):
                continue
            formulas = parse_formulas(fname, factory, cap_names)
            for how, basic, caps, voltage in calls:
                if how == "kw":
                    net = getattr(mod, factory)(basic_evse=basic, voltage=voltage, **dict(zip(cap_names, caps)))
                else:
                    net = getattr(mod, factory)(basic, voltage, *caps)
                record(site, factory, cap_names, formulas, net, basic, caps, voltage)
    for k, t in enumerate(topos):
        out.append(f"/-- topology {k}: {topo_site[k]} -/\ndef topo{k} : Topo :=\n{t}\n")
    out.append("def topos : List Topo := [" + ", ".join(f"topo{k}" for k in range(len(topos))) + "]\n")
    out.append("def insts : List Inst := [\n  " + ",\n  ".join(insts) + "]\n")
    out.append("end Acn.Gen.Sites")
    return "\n".join(out) + "\n"


if __name__ == "__main__":
    sys.stdout.write(gen_sites())
