#!/venv/bin/python
"""Entry point of every check:  check.py Cxx [--tier quick|thorough] [--replay FILE]

Steps (DESIGN.md §2.1):
  1 translate      regenerate lean/AcnModel/Gen/*.lean from /repo's working tree
  2 build          lake build <property proof modules> <driver>
  3 audit          #print axioms for every property theorem; forbidden-token grep
  4 correspondence implementation (in-process, imported from /repo) vs compiled Lean model
  5 oracle         the property, as a predicate over the implementation's behaviour
  6 evidence       evidence/Cxx.json

Exit 0: property held on everything explored.  Exit 1 + "VIOLATION property=… replay=…".
Exit 2: infrastructure error (never a VIOLATION line).
"""
from __future__ import annotations

import argparse
import importlib
import json
import os
import random
import sys
import time
import traceback
import warnings

sys.path.insert(0, os.path.dirname(os.path.abspath(__file__)))

from core import common as C  # noqa: E402
from core import linecov  # noqa: E402

# the implementation under test is imported from ACN_REPO (default /repo): its working tree
sys.path.insert(0, C.REPO)


class _CaseTimeout(BaseException):
    pass


class _deadline:
    """SIGALRM-based wall-clock limit for one implementation case (main thread only)"""

    def __init__(self, seconds):
        self.seconds = seconds

    def _raise(self, *_a):
        raise _CaseTimeout()

    def __enter__(self):
        import signal
        self._old = signal.signal(signal.SIGALRM, self._raise)
        signal.alarm(self.seconds)

    def __exit__(self, *a):
        import signal
        signal.alarm(0)
        signal.signal(signal.SIGALRM, self._old)
        return False


def budget(P, tier: str, search: bool = False) -> int:
    b = getattr(P, "BUDGET", {"quick": 300, "thorough": 5000, "search": 3000})
    if search:
        return b.get("search", b["thorough"])
    return b[tier]


def run_cases(P, cases, driver, use_model=True):
    """Run implementation, model and oracle on every case.

    Returns (records, stats) where each record is a dict with keys
    case, obs, model, diffs, failures, nontrivial, features.
    """
    obs_list = []
    # a case that does not return (a simulator that loops forever, a search that never converges) is a
    # behaviour of the implementation, not an infrastructure problem: it is cut off and reported as a failure
    # of that case; after a few of them the remaining cases are skipped so that the check still ends
    limit = int(os.environ.get("VERIF_CASE_TIMEOUT", getattr(P, "CASE_TIMEOUT", 300)))
    timeouts = 0
    for c in cases:
        if timeouts >= 3:
            obs_list.append({"__skipped__": "earlier cases did not terminate"})
            continue
        try:
            with warnings.catch_warnings(), _deadline(limit):
                warnings.simplefilter("ignore")
                obs_list.append(P.run_impl(c))
        except _CaseTimeout:
            timeouts += 1
            obs_list.append({"__harness_exception__": f"Timeout: the implementation did not finish this case within {limit} s "
                                                       f"(non-termination?)", "__tb__": None, "__timeout__": True})
        except Exception as e:  # an exception the harness did not classify
            obs_list.append({"__harness_exception__": f"{type(e).__name__}: {e}", "__tb__": traceback.format_exc()[-1500:]})
    model_list = [None] * len(cases)
    if use_model and driver is not None and hasattr(P, "model_request"):
        idx = []
        reqs = []
        for i, (c, o) in enumerate(zip(cases, obs_list)):
            if isinstance(o, dict) and ("__skipped__" in o or "__harness_exception__" in o):
                continue
            r = P.model_request(c, o) if P.model_request.__code__.co_argcount >= 2 else P.model_request(c)
            if r is not None:
                idx.append(i)
                reqs.append(r)
        resp = driver.ask(reqs)
        for i, r in zip(idx, resp):
            model_list[i] = r
    records = []
    for c, o, m in zip(cases, obs_list, model_list):
        rec = {"case": c, "obs": o, "model": m, "diffs": [], "failures": []}
        if "__skipped__" in (o if isinstance(o, dict) else {}):
            rec["nontrivial"] = False
            rec["features"] = ["skipped:after-timeouts"]
            records.append(rec)
            continue
        if "__harness_exception__" in (o if isinstance(o, dict) else {}):
            rec["failures"].append({"kind": "implementation_timeout" if o.get("__timeout__") else "implementation_exception",
                                    "detail": o["__harness_exception__"], "tb": o.get("__tb__")})
        else:
            try:
                rec["failures"] = list(P.oracle(c, o))
            except Exception as e:
                rec["failures"] = [{"kind": "oracle_exception", "detail": f"{type(e).__name__}: {e}", "tb": traceback.format_exc()[-1500:]}]
            if m is not None:
                if "protocol_error" in m:
                    rec["diffs"] = [f"model protocol error: {m['protocol_error']}"]
                else:
                    try:
                        rec["diffs"] = list(P.compare(c, o, m))
                    except Exception as e:
                        rec["diffs"] = [f"compare exception {type(e).__name__}: {e} {traceback.format_exc()[-800:]}"]
        try:
            rec["nontrivial"] = bool(P.nontrivial(c, o))
        except Exception:
            rec["nontrivial"] = False
        try:
            rec["features"] = list(P.features(c, o)) if hasattr(P, "features") else []
        except Exception:
            rec["features"] = []
        records.append(rec)
    return records


def load_corpus(P):
    cases = []
    if hasattr(P, "corpus"):
        cases.extend(P.corpus())
    d = os.path.join(C.HARNESS, "corpus", P.ID)
    if os.path.isdir(d):
        for f in sorted(os.listdir(d)):
            if f.endswith(".json"):
                j = json.load(open(os.path.join(d, f)))
                cases.extend(j if isinstance(j, list) else [j.get("case", j)])
    return cases


def known_match(pid, failure, known):
    for k in known:
        if k.get("property") == pid and k.get("status") == "open" and k.get("match") == failure.get("kind"):
            return k
    return None


def main() -> int:
    ap = argparse.ArgumentParser()
    ap.add_argument("prop")
    ap.add_argument("--tier", default=os.environ.get("VERIF_TIER", "quick"))
    ap.add_argument("--replay", default=None)
    ap.add_argument("--no-build", action="store_true", help="debug: skip translate/build/audit")
    args = ap.parse_args()
    tier = args.tier if args.tier in ("quick", "thorough") else "quick"
    if args.no_build:  # a debugging / sweep run is not evidence: never overwrite evidence/
        C.EVIDENCE = os.path.join(C.VERIF, "evidence_scratch")
    seed = int(os.environ.get("VERIF_SEED", "0"))
    pid = args.prop
    t0 = time.time()
    try:
        P = importlib.import_module(f"props.{pid}")
    except Exception:
        traceback.print_exc()
        print(f"ERROR: cannot import props.{pid}")
        return 2

    known = C.load_known()
    proof_broken = None  # text describing the proof obligation that no longer checks
    notes = []

    # ---------------------------------------------------------------- replay mode
    if args.replay:
        payload = json.load(open(args.replay))
        case = payload.get("case")
        if case is None:
            print("replay file carries no concrete case:", payload.get("what"))
            return 1
        driver = C.Driver(P.DRIVER) if getattr(P, "DRIVER", None) else None
        if driver is not None and not driver.available():
            driver = None
        recs = run_cases(P, [case], driver)
        r = recs[0]
        print(json.dumps({"obs": r["obs"], "model": r["model"], "diffs": r["diffs"], "failures": r["failures"]}, indent=1, default=str)[:6000])
        bad = [f for f in r["failures"] if not known_match(pid, f, known)] or r["diffs"]
        if bad:
            print(f"VIOLATION property={pid} replay={args.replay}")
            return 1
        return 0

    # ---------------------------------------------------------------- 1-3 translate / build / audit
    lean_modules = list(getattr(P, "LEAN_MODULES", []))
    # T1c (DESIGN §17): modules proving `translated source = hand model`.  They are an ADDITIONAL tie on top
    # of the correspondence: when one no longer builds (the function was rewritten — harmlessly or not) the
    # property theorems still hold of the model and the model is still tied to the code by the correspondence
    # of this run, so a lost tie is not a violation by itself; it forces the failing-input search (larger
    # stream) and is recorded in the evidence.
    tie_modules = list(getattr(P, "TIE_MODULES", []))
    tie_lost = None
    extra_modules = list(getattr(P, "EXTRA_MODULES", []))  # see below: built + audited, problems are notes only
    extra_report = []
    driver_name = getattr(P, "DRIVER", None)
    axioms = {}
    theorems = []
    forbidden = []
    rechecked = None
    triage = None  # {"modules_ok", "modules_broken_theorems", "broken": {obligation: [kind prefixes] | None}}
    if not args.no_build:
      with C.workspace_lock():  # translate + build + audit atomically w.r.t. other checks
          ok, log = C.run_translate()
          if not ok:
              proof_broken = "translate.py failed on the working tree:\n" + log[-3000:]
          targets = lean_modules + ([driver_name] if driver_name else [])
          if proof_broken is None:
              try:
                  ok, log = C.lake_build(targets)
              except Exception as e:
                  print("ERROR: lake build could not run:", e)
                  return 2
              if not ok:
                  proof_broken = "lake build failed:\n" + "\n".join(
                      l for l in log.splitlines() if not l.startswith("✔") and "Built" not in l
                  )[-4000:]
                  # additive hook (C17/F10): a property module may attribute the build errors to named
                  # proof obligations ("known broken obligations", see the end of main); the modules that
                  # did build are still audited
                  if hasattr(P, "triage_build"):
                      try:
                          triage = P.triage_build(log)
                      except Exception:
                          traceback.print_exc()
                          triage = None
                  # the driver may still be buildable on its own (model unchanged, theorem broken)
                  if driver_name:
                      try:
                          C.lake_build([driver_name])
                      except Exception:
                          pass
          audit_modules = lean_modules if proof_broken is None else list((triage or {}).get("modules_ok", []))
          for tm in tie_modules:
              try:
                  ok, log = C.lake_build([tm])
              except Exception as e:
                  print("ERROR: lake build could not run:", e)
                  return 2
              if ok:
                  audit_modules = audit_modules + [tm]
              else:
                  tie_lost = (tie_lost or "") + f"{tm} no longer builds (translated source != hand model, or not translatable):\n" + "\n".join(
                      l for l in log.splitlines() if not l.startswith("✔") and "Built" not in l)[-1500:] + "\n"

          # EXTRA_MODULES (optional; e.g. the end-to-end capstone `AcnProofs.Capstone`): cross-property compositions
          # that belong to no single property.  They are built and audited together with this check, but whatever
          # goes wrong with them (no longer builds because ANOTHER property's file changed, non-standard axiom,
          # forbidden token) is a NOTE in the evidence (`coverage.extra_modules`) — never a violation of this
          # property, never a forced failing-input search, and their theorems are not counted as obligations.
          for xm in extra_modules:
              rec = {"module": xm, "built": False, "theorems": [], "axioms_used": [], "problems": []}
              extra_report.append(rec)
              try:
                  ok, log = C.lake_build([xm])
                  rec["built"] = bool(ok)
                  if not ok:
                      rec["problems"].append("does not build: " + "\n".join(
                          l for l in log.splitlines() if not l.startswith("✔") and "Built" not in l)[-1200:])
                      continue
                  ths = C.theorems_in(xm)
                  xax, xlog = C.audit_axioms(pid + "_extra", [xm], ths)
                  rec["theorems"] = ths
                  rec["axioms_used"] = sorted({a for v in xax.values() for a in v})
                  xbad = {t: a for t, a in xax.items() if not set(a) <= C.ALLOWED_AXIOMS}
                  if xbad:
                      rec["problems"].append(f"non-standard axioms: {xbad}")
                  xunseen = [t for t in ths if t not in xax]
                  if xunseen:
                      rec["problems"].append(f"axiom audit did not report on {xunseen}: {xlog[-600:]}")
                  xforb = C.grep_forbidden([xm])
                  if xforb:
                      rec["problems"].append(f"forbidden tokens: {xforb}")
              except Exception as e:  # noqa: BLE001
                  rec["problems"].append(f"could not be built / audited: {type(e).__name__}: {e}")

          def _broken(msg):
              # with a triaged build failure the build text is kept and the new problem is unexplained
              if triage is not None and proof_broken is not None:
                  triage["broken"][msg[:120]] = None
                  return proof_broken + "\n" + msg
              return msg

          if proof_broken is None or audit_modules:
              for m in audit_modules:
                  theorems.extend(C.theorems_in(m))
              req = list(getattr(P, "REQUIRED_THEOREMS", []))
              missing = [t for t in req if t not in theorems and t not in (triage or {}).get("modules_broken_theorems", [])]
              if missing:
                  proof_broken = _broken(f"required property theorems are no longer stated: {missing}")
              try:
                  axioms, alog = C.audit_axioms(pid, audit_modules, theorems)
              except Exception as e:
                  print("ERROR: axiom audit could not run:", e)
                  return 2
              bad = {t: a for t, a in axioms.items() if not set(a) <= C.ALLOWED_AXIOMS}
              unseen = [t for t in theorems if t not in axioms]
              if bad:
                  proof_broken = _broken(f"theorems depend on non-standard axioms: {bad}")
              elif unseen:
                  proof_broken = _broken(f"axiom audit did not report on {unseen}:\n{alog[-2000:]}")
              forbidden = C.grep_forbidden(lean_modules + [m for m in tie_modules if m in audit_modules] + (["Drivers." + driver_name[4:]] if driver_name and driver_name.startswith("drv_") else []))
              if forbidden:
                  proof_broken = _broken(f"forbidden tokens in Lean sources: {forbidden}")
              if tier == "thorough" and proof_broken is None and lean_modules:
                  # independent re-check of the compiled property modules by leanchecker
                  try:
                      ok, log = C.leanchecker(lean_modules + [m for m in tie_modules if m in audit_modules])
                      rechecked = ok
                      if not ok:
                          proof_broken = "leanchecker rejected the compiled property modules:\n" + log[-2000:]
                  except Exception as e:
                      notes.append(f"leanchecker could not run: {e}")

    driver = C.Driver(driver_name) if driver_name else None
    if driver is not None and not driver.available():
        notes.append("model driver not available (build broken) — implementation-only search")
        driver = None

    # ---------------------------------------------------------------- 4-5 correspondence + oracle
    rng = random.Random(seed * 1000003 + 17)
    # which lines of the anchored implementation files do the streams of this run execute? (evidence only)
    cov = linecov.LineCov(C.REPO)
    if os.environ.get("VERIF_LINECOV", "1") != "0":
        cov.start()
    try:
        cases = load_corpus(P)
        n_corpus = len(cases)
        cases.extend(P.generate(rng, budget(P, tier), tier))
    except Exception as e:  # noqa: BLE001
        # a generator that builds its scenarios with the package's own factories can be brought down by the implementation
        # itself: when the traceback ends inside the tree under test that is a behaviour of the code (reported with the
        # call as replay), otherwise a bug of the harness (exit 2)
        import traceback as _tb
        frames = _tb.extract_tb(e.__traceback__)
        root = os.path.realpath(C.REPO) + os.sep
        inside = [f for f in frames if os.path.realpath(f.filename).startswith(root)]
        _tb.print_exc()
        if not inside:
            print("ERROR: the case generator failed outside the implementation")
            return 2
        last_h = [f for f in frames if not os.path.realpath(f.filename).startswith(root)][-1]
        path = C.write_replay(pid, {
            "property": pid, "case": None,
            "what": {"kind": "implementation_exception_while_building_cases", "detail": f"{type(e).__name__}: {e}"},
            "call": f"{last_h.filename}:{last_h.lineno} {last_h.line}",
            "raised_at": f"{inside[-1].filename}:{inside[-1].lineno} {inside[-1].line}",
            "traceback": _tb.format_exc()[-3000:], "proof_broken": proof_broken,
            "note": "the harness builds its scenarios through the package's public constructors / factories; on this tree that call raises"})
        print(f"VIOLATION property={pid} replay={path}")
        return 1
    try:
        records = run_cases(P, cases, driver)
    except Exception:
        traceback.print_exc()
        print("ERROR: harness failure while running cases")
        return 2

    def _live_diffs(recs):
        # a case whose oracle failures are all listed open known findings is not counted as a
        # correspondence break as well (the model follows the repaired behaviour)
        out = []
        for r in recs:
            if r["diffs"] and not (r["failures"] and all(known_match(pid, f, known) for f in r["failures"])):
                out.append(r)
        return out

    disagreements = _live_diffs(records)
    searched = 0
    # constants that could not be located in this tree run on pinned values (translate.py): like a lost T1c tie
    # this forces the larger search; the correspondence of this run decides
    try:
        ctext = open(os.path.join(C.LEAN, "AcnModel", "Gen", "Consts.lean")).read()
        pinned_blocks = [l for l in ctext.splitlines() if l.startswith("/- PINNED (")]
    except OSError:
        pinned_blocks = []
    if pinned_blocks:
        notes.append("constants on pinned values (not located in the source): " + "; ".join(b[3:90] for b in pinned_blocks))
        tie_lost = (tie_lost or "") + "\n".join(pinned_blocks)
    if tie_lost:
        notes.append("T1c tie lost (not a violation by itself; failing-input search forced): " + tie_lost[:600])
    for rec in extra_report:
        if rec["problems"]:
            notes.append(f"EXTRA module {rec['module']} (not part of this property; never a violation): " + "; ".join(rec["problems"])[:600])
    force_search = os.environ.get("VERIF_FORCE_SEARCH") == "1"     # maintainer: exercise the search stream on a clean tree
    if force_search:
        notes.append("failing-input search forced by VERIF_FORCE_SEARCH=1 (maintainer run)")
    if (proof_broken or disagreements or tie_lost or force_search):
        # failing-input search (DESIGN §2.2): bigger budget, oracle on the implementation
        rng2 = random.Random(seed * 7919 + 5)
        extra = list(P.search(rng2, budget(P, tier, True)) if hasattr(P, "search") else P.generate(rng2, budget(P, tier, True), "search"))
        searched = len(extra)
        try:
            records.extend(run_cases(P, extra, driver))
        except Exception:
            traceback.print_exc()
        disagreements = _live_diffs(records)

    cov.stop()
    if os.environ.get("VERIF_LINECOV_DUMP") and cov.hits:  # maintainer analysis: union over properties
        os.makedirs(os.environ["VERIF_LINECOV_DUMP"], exist_ok=True)
        json.dump(sorted(cov.hits), open(os.path.join(os.environ["VERIF_LINECOV_DUMP"], f"{pid}.json"), "w"))

    # classify failures
    violations = []  # (record, failure)
    known_hits = {}
    for r in records:
        for f in r["failures"]:
            k = known_match(pid, f, known)
            if k:
                known_hits.setdefault(k["id"], (k, r, f))
            else:
                violations.append((r, f))

    for kid, (k, r, f) in sorted(known_hits.items()):
        print(f"KNOWN-FINDING: property={pid} {k['what']}")

    exit_code = 0
    replay_paths = []
    if violations:
        # smallest case first
        violations.sort(key=lambda rf: len(json.dumps(rf[0]["case"], default=str)))
        any_timeout = any(f["kind"] == "implementation_timeout" for _r, f in violations)
        shrink_deadline = time.time() + int(os.environ.get("VERIF_SHRINK_TIMEOUT", 180))
        seen_kinds = set()
        for r, f in violations:
            if f["kind"] in seen_kinds:
                continue
            seen_kinds.add(f["kind"])
            case = r["case"]
            # shrinking re-runs the implementation: never when some case did not terminate, and within one
            # global wall-clock budget otherwise
            left = int(shrink_deadline - time.time())
            if hasattr(P, "shrink") and not any_timeout and left > 1:
                try:
                    with _deadline(left):
                        case = P.shrink(case, f["kind"])
                except (_CaseTimeout, Exception):
                    case = r["case"]
            path = C.write_replay(pid, {
                "property": pid, "what": f, "case": case, "obs": r["obs"] if case is r["case"] else None,
                "model": r["model"] if case is r["case"] else None,
                "rerun": f"/venv/bin/python harness/check.py {pid} --replay <this file>",
                "proof_broken": proof_broken,
            })
            replay_paths.append(path)
            print(f"VIOLATION property={pid} replay={path}")
        exit_code = 1
    elif proof_broken and not disagreements and triage and triage.get("broken") and all(
            kinds and any(f["kind"].startswith(pref) for (_k, _r, f) in known_hits.values() for pref in kinds)
            for kinds in triage["broken"].values()):
        # "known broken obligations": every proof obligation that no longer builds is a data obligation
        # whose failing input was found on the implementation in THIS run and is a listed open finding;
        # nothing else is broken (any other broken theorem, or a failing input of another kind, lands in
        # the branches above/below).  Reported, not counted.
        for ob in sorted(triage["broken"]):
            print(f"KNOWN-FINDING: property={pid} proof obligation {ob} does not hold on this tree "
                  f"(explained by open finding(s) {sorted(known_hits)})")
        notes.append(f"known broken obligations: {sorted(triage['broken'])}")
    elif proof_broken or disagreements:
        what = {"kind": "proof_or_correspondence_broken"}
        payload = {"property": pid, "what": what, "case": None,
                   "proof_broken": proof_broken,
                   "disagreements": [{"case": r["case"], "obs": r["obs"], "model": r["model"], "diffs": r["diffs"]}
                                     for r in sorted(disagreements, key=lambda r: len(json.dumps(r["case"], default=str)))[:3]],
                   "searched_cases": searched,
                   "note": "no input was found on which the property fails on the implementation; the theorem / correspondence named here no longer checks"}
        path = C.write_replay(pid, payload)
        replay_paths.append(path)
        print(f"VIOLATION property={pid} replay={path} no-failing-input-found")
        exit_code = 1

    # ---------------------------------------------------------------- 6 evidence
    nontriv = {}
    feats = {}
    for r in records:
        if r["nontrivial"]:
            nontriv[C.case_hash(r["case"])] = True
        for ft in r["features"]:
            feats[ft] = feats.get(ft, 0) + 1
    discharged = len([t for t in theorems if t in axioms]) if (not proof_broken or (triage and exit_code == 0)) else 0
    sample_thms = [{"theorem": t, "axioms": axioms.get(t)} for t in theorems[:6]]
    sample_cases = [{"case": r["case"], "obs": r["obs"]} for r in records[n_corpus:n_corpus + 2]] or [{"case": r["case"]} for r in records[:2]]
    ev = {
        "property_id": pid,
        "tier": tier,
        "seed": seed,
        "level": "proof",
        "coverage": {
            "obligations": max(len(theorems) + len((triage or {}).get("modules_broken_theorems", [])), 1),
            "discharged": discharged,
            "checker_cmd": f"cd lean && lake build {' '.join(lean_modules + tie_modules)} && lake env lean .lake/audit/{pid}.lean  (#print axioms)",
            "trusted_base": list(getattr(P, "TRUSTED", [])) + [
                "Lean 4.33 kernel; Mathlib v4.33 as compiled in /opt/veriftools/mathlib4",
                "axioms ⊆ {propext, Classical.choice, Quot.sound} (audited per theorem, this run)",
                "harness/translate.py (T1) and the correspondence harness incl. 1e-9 numeric slack (T2)",
            ] + (["harness/translate_code.py (T1c): mechanical Python-AST -> Lean translation of the tied numeric kernels "
                  "(Acn.CodeTie.* prove translated = hand model for every input); Python's ZeroDivisionError and "
                  "NaN/inf comparison semantics are not translated"]
                 if any(t.startswith("Acn.CodeTie.") for t in theorems) else []),
            "theorems": theorems,
            "code_tie_theorems": [t for t in theorems if t.startswith("Acn.CodeTie.")],
            "axioms_used": sorted({a for v in axioms.values() for a in v}),
            "forbidden_token_hits": forbidden,
            "leanchecker_rechecked": rechecked,
            "traces_validated_against_impl": len([r for r in records if r["model"] is not None and not r["diffs"]]),
            "disagreements_checked": len(disagreements),
            "evaluations": len(records),
            "corpus_cases": n_corpus,
            "search_cases": searched,
            "distinct_nontrivial": len(nontriv),
            "rule": getattr(P, "RULE", ""),
            "input_distribution": dict(sorted(feats.items())),
            "samples": sample_thms + json.loads(json.dumps(sample_cases, default=str)),
            "known_findings_seen": sorted(known_hits.keys()),
            "notes": notes,
            "proof_broken": proof_broken,
            "code_tie_lost": tie_lost,
            "extra_modules": extra_report,
            "impl_line_coverage": cov.report(linecov.anchors_of(C.VERIF, pid)) if cov.hits else None,
            "exhaustive": False,
        },
        "assumptions": list(getattr(P, "ASSUMPTIONS", [])),
        "wall_s": round(time.time() - t0, 2),
        "violations": len(replay_paths),
    }
    if proof_broken:
        # not a proof-level run any more: report it through the generic counts, never as "0 discharged"
        ev["coverage"]["obligations_stated"] = ev["coverage"].pop("obligations")
        ev["coverage"]["obligations_discharged"] = ev["coverage"].pop("discharged")
    C.write_evidence(pid, ev)
    print(f"{pid} tier={tier} seed={seed}: theorems={len(theorems)} discharged={discharged} cases={len(records)} "
          f"validated={ev['coverage']['traces_validated_against_impl']} disagreements={len(disagreements)} "
          f"nontrivial={len(nontriv)} violations={len(replay_paths)} wall={ev['wall_s']}s")
    return exit_code


if __name__ == "__main__":
    try:
        sys.exit(main())
    except Exception:
        traceback.print_exc()
        sys.exit(2)
