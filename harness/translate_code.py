#!/venv/bin/python
"""T1c — translate the BODIES of small numeric methods of /repo's current working tree into Lean.

`translate.py` (T1) regenerates data and constants; the algorithmic code is hand-modelled and tied by
the correspondence harness (T2).  This module adds a third tie for the straight-line numeric kernels
(battery laws, `EV.charge`, the EVSE validity predicates, `fully_charged`, amp-period conversion, the
recompute trigger of `Simulator.run`): their Python ASTs are translated MECHANICALLY into Lean
definitions in `lean/AcnModel/Gen/Code.lean` (shallow embedding, polymorphic in the carrier `K` exactly
like the hand-written models), and `lean/AcnProofs/Lemmas/CodeTie*.lean` prove, for every input,
`Gen.Code.<f> = <hand model>` — so a change of a comparison, a clamp, an operand order, a tolerance or
an assignment in one of these functions breaks a kernel-checked proof obligation even if no generated
test input happens to land on the affected edge.

Python subset (anything else raises `Unsupported`, which makes the generated file carry a
`#eval`-free error stub so that the tie theorem no longer compiles and the check runs its
failing-input search):

  statements   docstrings / `warnings.warn(...)` / `if …: warnings.warn(...)`      skipped
               `if c: raise E(...)`  (guards), `raise E(...)`                        `.error .<e>`
               `x = e`, `x += e`, `self.a = e`, `self.a += e`                        `let` (SSA by shadowing)
               `if / elif / else` whose branches only assign                         `let v := if c then … else …`
               `if / elif / else` whose taken branch returns / raises                `if c then … else <rest>`
               `return e`                                                            `.ok (self, e)` / `e`
  expressions  + - * /, unary -, comparisons (chains of two), and / or / not, `x is None`,
               `x is not None`, int and decimal literals (exact), `min([..])`, `min(a,b,..)`,
               `max(a,b)`, `abs`, `np.exp`, `np.random.normal(0, σ)` (the draw is the input `ν`),
               `np.isclose(a, b, atol=t, rtol=0)`, `np.any(np.isclose(p, xs, atol=t, rtol=0))`,
               attribute reads through a per-target NAME MAP (`self._capacity` ↦ `self.capacity`),
               `@property` reads (inlined from their own translated bodies), and calls listed in the
               target's CALL MAP (e.g. `self._battery.charge(..)` ↦ a bind on `Battery.charge`).

Extensions of the subset (groups Fit, Net, Analysis, Queue, Tariff — all general and mechanical):

  path targets     a function is addressed by its chain of `def`/`class` names (`path=`), so INNER functions are
                   targets of their own.  Their closure variables (free names bound in an enclosing function
                   scope, computed from the AST) become leading parameters, in binding order; own parameters
                   and closure variables are matched BY POSITION (`_resolved`), so renaming them is harmless.
                   An inner `def` statement makes the name callable from then on; a call `g(a, k=b)` of a
                   translated inner / module-level function is a call of its translation (keywords and numeric
                   default values are filled in from g's signature; closure variables are read from the
                   caller's current environment — Python closures are late-binding).  A function passed as an
                   argument is the partial application to its closure variables; `f(x)` for a parameter
                   `f : K → K` is an application.
  kind 'except'    `return e` ↦ `.ok e`, `raise E` ↦ `.error`, `x = g(..)` for an 'except' callee ↦ a bind,
                   `return g(..)` ↦ a tail call.
  fuel             a self-recursive function (tail calls only) takes `fuel : Nat`: `match fuel with
                   | 0 => .error <rec_err> | fuel + 1 => body` — Python's recursion depth; callers hand their own
                   `fuel` down.  Recursion without `fuel=True` is `Unsupported`.
  for loops        `for x in xs: BODY` + REST with `xs` a local list literal (`[..]` / `np.array([..])`), no
                   loop-carried state, exits by return / raise / continue / end of body only: an auxiliary
                   definition `<f>_loop` by recursion on the list (`[]` ↦ REST, `x :: rest'` ↦ BODY with
                   `continue` ↦ the call on `rest'`).
  counts           `len(c)`, `sum(1 for v in c if p)` over a declared collection are `Nat`s (`.length` of the
                   filtered list), cast exactly where Python converts the int; `sum(e for v in c if p)` is
                   `sumK` of the mapped list; `[v for v in c if p]` is `List.filter`; an element's attributes /
                   properties are read through the collection's declaration (a property is inlined from its
                   own single-`return` body, possibly in another file).
  integers         comparisons between `Nat` / `Int` atoms (parameters, declared inputs, counts) are decided in
                   that type (literals are typed accordingly); pairs of naturals compare lexicographically
                   as Python tuples do.
  Optional args    `if x is None: x = e` for a parameter `x : Option T` ↦ `match x with | none => e | some v => v`.
  declared inputs  `inputs={source text: binder}`: an untranslatable sub-expression is an INPUT of the
                   definition (refused if it mentions a local the translated part has assigned); a parameter of
                   type "-" is in the Python signature but may not be read; `attrs={a: "@"}` tracks `self.a`
                   like a local (readable once assigned); `self.m()` of a single-`return` method is inlined.
  selectors        `_sel_prefix` (leading run of assignments; results = the locals the rest reads, in the order
                   it first reads them), `_sel_final_return` (the last `return` over the assignments before
                   it; constant guards are not part of it), `_sel_while_test`, `_sel_loop_test`, and the scalar
                   (one index) reading of numpy broadcast expressions in `_NpTr`.
  Anything that does not fit raises `Unsupported`: the definition is not emitted and its tie stops compiling.

Second part of this file (kind 'state', class `STr`, groups QueueOps / EvseOps / NetOps / SimEvent and the fixed
`Gen/CodePrelude.lean`): small STATEFUL methods — the event queue, `BaseEVSE.plugin/unplug/set_pilot`,
`ChargingNetwork.plugin/unplug/get_ev/active_evs`, `Simulator._process_event` — as functions of an explicit `self`
record that return the updated record, with `raise` as `Except PyErr`, partial operations and mutating calls hoisted in
evaluation order, `for` / `while` as auxiliary recursions.  Its subset and its limits are described where it starts
("T1c, second part").

Python semantics that are NOT translated (recorded in the trusted base): `ZeroDivisionError` of float
division (the tie theorems are stated for the inputs on which the hand model does not report
`zeroDivision`), NaN/inf corner cases of comparisons, exceptions' messages.
"""
from __future__ import annotations

import ast
import os
from fractions import Fraction

REPO = os.environ.get("ACN_REPO", "/repo")


class Unsupported(Exception):
    pass


# --------------------------------------------------------------------------------------- helpers


def _src(rel):
    return open(os.path.join(REPO, rel)).read()


def _find_class(tree, name):
    for n in ast.walk(tree):
        if isinstance(n, ast.ClassDef) and n.name == name:
            return n
    raise Unsupported(f"class {name} not found")


def _find_func(node, name):
    for n in node.body:
        if isinstance(n, (ast.FunctionDef,)) and n.name == name:
            return n
    raise Unsupported(f"function {name} not found in {getattr(node, 'name', '<module>')}")


def _is_docstring(st):
    return isinstance(st, ast.Expr) and isinstance(st.value, ast.Constant) and isinstance(st.value.value, str)


def _is_warn_call(st):
    if not (isinstance(st, ast.Expr) and isinstance(st.value, ast.Call)):
        return False
    f = st.value.func
    return (isinstance(f, ast.Attribute) and f.attr == "warn") or (isinstance(f, ast.Name) and f.id == "warn")


def _only_warns(stmts):
    return all(_is_warn_call(s) or _is_docstring(s) or isinstance(s, ast.Pass) for s in stmts)


def _terminates(stmts):
    """every path through `stmts` ends in return / raise"""
    if not stmts:
        return False
    last = stmts[-1]
    if isinstance(last, (ast.Return, ast.Raise, ast.Continue)):
        return True
    if isinstance(last, ast.If):
        return _terminates(last.body) and _terminates(last.orelse)
    return False


def _has_exit(stmts):
    for s in stmts:
        for n in ast.walk(s):
            if isinstance(n, (ast.Return, ast.Raise, ast.Continue)):
                return True
    return False


def _find_path(tree, path):
    """the chain of nested `def`s (or a class, then its method) named by `path`; each name must be
    defined exactly once, directly in the body of the previous one"""
    node, chain = tree, []
    for i, name in enumerate(path):
        hits = [n for n in node.body if isinstance(n, (ast.FunctionDef, ast.ClassDef)) and n.name == name]
        if len(hits) != 1:
            raise Unsupported(f"{'.'.join(path[:i + 1])}: found {len(hits)} definitions")
        node = hits[0]
        chain.append(node)
    if not isinstance(node, ast.FunctionDef):
        raise Unsupported(f"{'.'.join(path)} is not a function")
    return chain


class _Scope(ast.NodeVisitor):
    """names bound / loaded in ONE function scope (inner functions are collected, not entered)"""

    def __init__(self):
        self.bound, self.loads, self.inner = set(), set(), []

    def visit_FunctionDef(self, n):
        self.bound.add(n.name)
        self.inner.append(n)
        for d in list(n.args.defaults) + [d for d in n.args.kw_defaults if d is not None]:
            self.visit(d)  # defaults are evaluated in the enclosing scope

    def visit_Lambda(self, n):
        self.inner.append(n)

    def visit_ClassDef(self, n):
        raise Unsupported("class definition inside a function")

    def visit_Global(self, n):
        raise Unsupported("global statement")

    def visit_Nonlocal(self, n):
        raise Unsupported("nonlocal statement")

    def visit_Name(self, n):
        (self.loads if isinstance(n.ctx, ast.Load) else self.bound).add(n.id)


def _fn_args(fn):
    a = fn.args
    if a.vararg or a.kwarg or a.kwonlyargs or a.posonlyargs:
        raise Unsupported(f"signature of {getattr(fn, 'name', '<lambda>')} (*args / ** / keyword-only)")
    return [x.arg for x in a.args]


def _scope_of(fn):
    sc = _Scope()
    body = fn.body if isinstance(fn.body, list) else [fn.body]
    for st in body:
        sc.visit(st)
    sc.bound |= set(_fn_args(fn))
    return sc


def _free_names(fn):
    """names read in `fn` (or in functions nested in it) that are not bound in `fn`'s own scope"""
    sc = _scope_of(fn)
    free = set(sc.loads)
    for inner in sc.inner:
        free |= _free_names(inner)
    return free - sc.bound


def _closure_of(chain):
    """(value closure variables, enclosing functions referenced) of chain[-1]: its free names that are
    bound in an enclosing FUNCTION scope (module-level names and builtins are not closure variables)"""
    fn = chain[-1]
    free = _free_names(fn)
    values, funcs = set(), set()
    for enc in chain[:-1]:
        if not isinstance(enc, ast.FunctionDef):
            continue
        sc = _scope_of(enc)
        inner_names = {i.name for i in sc.inner if isinstance(i, ast.FunctionDef)}
        for nm in free & sc.bound:
            (funcs if nm in inner_names else values).add(nm)
    return values - funcs, funcs


def _closure_order(chain):
    """the value closure variables of chain[-1] in the order of their BINDING: outermost scope first, in a
    scope its parameters in signature order, then its locals in order of first assignment"""
    values, _funcs = _closure_of(chain)
    order = []

    class _Stores(ast.NodeVisitor):
        def visit_FunctionDef(self, n):
            pass

        def visit_Lambda(self, n):
            pass

        def visit_Name(self, n):
            if not isinstance(n.ctx, ast.Load) and n.id in values and n.id not in order:
                order.append(n.id)

    for enc in chain[:-1]:
        if not isinstance(enc, ast.FunctionDef):
            continue
        for a in _fn_args(enc):
            if a in values and a not in order:
                order.append(a)
        for st in enc.body:
            _Stores().visit(st)
    return order + sorted(values - set(order))


def _resolved(t, tree):
    """a copy of a path target whose Python parameter names are the ones of the source: the target
    declares its own parameters and its closure variables BY POSITION (types, and binder names where
    they differ from the Python name); renaming a parameter of an inner function or a local that an inner
    function closes over does not change the translation's shape"""
    import copy
    if t.path is None or getattr(t, "_is_resolved", False):
        return t
    chain = _find_path(tree, t.path)
    fn = chain[-1]
    pyargs = [a for a in _fn_args(fn) if a != "self"]
    own = [p for p in t.params if not p[0].startswith(("$", "^"))]
    if len(pyargs) != len(own):
        raise Unsupported(f"signature of {'.'.join(t.path)} is {pyargs}, the tie expects {len(own)} parameters")
    clos = _closure_order(chain)
    decl = [p for p in t.params if p[0].startswith("^")]
    if len(clos) != len(decl):
        raise Unsupported(f"closure variables of {'.'.join(t.path)} are {clos}, the tie expects {len(decl)}")
    io, ic, out = iter(pyargs), iter(clos), []
    for p in t.params:
        if p[0].startswith("$"):
            out.append(p)
        elif p[0].startswith("^"):
            a = next(ic)
            out.append(("^" + a, a, p[2]))
        else:
            a = next(io)
            out.append((a, a if p[1] == p[0] else p[1], p[2]))
    binders = [p[1] for p in out if p[2] != "-"]
    if len(set(binders)) != len(binders):
        raise Unsupported(f"parameter names of {'.'.join(t.path)} collide: {binders}")
    t2 = copy.copy(t)
    t2.params = out
    t2._is_resolved = True
    return t2


class Target:
    """One function to translate.

    kind      'method'  state-passing: returns `Except Err (Self × K)` (or `Except Err Self` if `unit`)
              'pure'    returns the value of the `return` expression (type `ret`)
              'except'  returns `Except Err ret`: `return e` is `.ok e`, `raise` is `.error`, and calls of
                        other 'except' functions (fuelled recursion) are binds / tail calls
    """

    def __init__(self, lean_name, rel, cls, func, *, self_type=None, params=(), ret="K", kind="pure",
                 attrs=None, props=None, err_type=None, errs=None, calls=None, noise=None, unit=False,
                 extra_binders="", select=None, doc="", bool_result=False, locals_types=None, group="Battery",
                 path=None, fuel=False, rec_err=None, inputs=None, colls=None, sig=None, noops=()):
        self.lean_name = lean_name
        self.rel = rel
        self.cls = cls
        self.func = func
        self.self_type = self_type
        self.params = list(params)  # [(python name, lean binder name, lean type)]
        self.ret = ret
        self.kind = kind
        self.attrs = attrs or {}  # python attribute of self -> lean field expr (with `self`)
        self.props = props or {}  # python property name -> (cls, func) to inline
        self.err_type = err_type
        self.errs = errs or {}
        self.calls = calls or {}
        self.noise = noise
        self.unit = unit
        self.extra_binders = extra_binders
        self.select = select  # optional: function picking the AST node to translate
        self.doc = doc
        self.bool_result = bool_result
        self.locals_types = locals_types or {}
        self.group = group
        # nested / module-level function addressed by its chain of `def` names, e.g.
        # ("batt_cap_fn", "_get_init_cap", "binsearch"); closure variables are the params named "^x"
        self.path = tuple(path) if path else None
        self.fuel = fuel          # takes a `fuel : Nat` (Python recursion depth); kind must be 'except'
        self.rec_err = rec_err    # the error reported at fuel 0 (Python: RecursionError)
        # source text of an (untranslatable) sub-expression -> the lean input standing for its value
        self.inputs = inputs or {}
        # source text of an iterable / sized object -> {"list": lean list, "attrs": {python attribute of an
        # element: lean field}, "props": {python property of an element: (file, class, property)}}
        self.colls = colls or {}
        # kind 'state' (stateful methods, second part of this file): (mutates self?, may raise?, type of the value)
        self.sig = sig
        self.noops = set(noops)   # calls without an effect on the state (`self._print`), skipped like `warnings.warn`


class Tr:
    def __init__(self, target: Target, source: str, tree: ast.AST, done=None):
        if target.path is not None and tree is not None:
            target = _resolved(target, tree)
        self.t = target
        self.source = source
        self.tree = tree
        # python name -> lean binder; a closure variable "^x" is read as `x`
        # a parameter of type "-" exists in the Python signature but is not handed to the Lean definition:
        # reading it is `Unsupported`
        self.pnames = {p[0].lstrip("^"): p[1] for p in target.params if p[2] != "-"}
        self.ptypes = {p[0].lstrip("^"): p[2] for p in target.params if p[2] != "-"}
        self.done = done if done is not None else {}  # lean names translated earlier in this run
        self.elems = {}      # comprehension variable -> the collection it ranges over
        self.btypes = {p[1]: p[2] for p in target.params if p[2] != "-"}  # lean binder -> type
        self.loop_ctx = None  # inside the body of a `for`: the call that stands for `continue`
        self.aux = []        # auxiliary definitions (loops) emitted before the function
        self.ltypes = {}     # translated local -> "Nat" / "Int" (everything else is a `K`)
        self.nat_names = set()  # locals holding a count / length (a Lean `Nat`)

    # ------------------------------------------------------------------ literals
    def lit(self, node):
        v = node.value
        if isinstance(v, bool):
            return "true" if v else "false"
        if isinstance(v, int):
            if v == 0:
                return "(0 : K)"
            if v == 1:
                return "(1 : K)"
            if v < 0:
                raise Unsupported("negative literal")
            return f"(({v} : Nat) : K)"
        if isinstance(v, float):
            text = ast.get_source_segment(self.source, node).replace("_", "")
            fr = Fraction(text)
            if fr.denominator == 1:
                return self.lit(ast.Constant(value=int(fr.numerator)))
            return f"((({fr.numerator} : Nat) : K) / (({fr.denominator} : Nat) : K))"
        raise Unsupported(f"literal {v!r}")

    # ------------------------------------------------------------------ expressions (numeric)
    def expr(self, n, env):
        if self.t.inputs and not isinstance(n, ast.Constant) and ast.unparse(n) in self.t.inputs:
            return self.input(n, env)
        if isinstance(n, ast.Constant):
            return self.lit(n)
        if self.is_nat(n, env):
            # an integer count used as a number: exact in the carrier (Python's int → float conversion)
            return f"(({self.nat(n, env)} : Nat) : K)"
        if isinstance(n, ast.Name):
            if n.id in env:
                return env[n.id]
            if n.id in self.pnames:
                return self.pnames[n.id]
            raise Unsupported(f"free name {n.id}")
        if isinstance(n, ast.Attribute):
            return self.attr(n, env)
        if isinstance(n, ast.BinOp):
            op = {ast.Add: "+", ast.Sub: "-", ast.Mult: "*", ast.Div: "/"}.get(type(n.op))
            if op is None:
                raise Unsupported(f"operator {type(n.op).__name__}")
            return f"({self.expr(n.left, env)} {op} {self.expr(n.right, env)})"
        if isinstance(n, ast.UnaryOp):
            if isinstance(n.op, ast.USub):
                return f"(-{self.expr(n.operand, env)})"
            if isinstance(n.op, ast.Not):
                return f"(!{self.bexpr(n.operand, env)})"
            raise Unsupported("unary op")
        if isinstance(n, ast.IfExp):
            return f"(if {self.cond(n.test, env)} then {self.expr(n.body, env)} else {self.expr(n.orelse, env)})"
        if isinstance(n, ast.Tuple) and len(n.elts) >= 2 and all(isinstance(e.ctx if hasattr(e, "ctx") else ast.Load(), ast.Load) for e in n.elts):
            return "(" + ", ".join(self.expr(e, env) for e in n.elts) + ")"
        if self.is_list_lit(n):
            return "[" + ", ".join(self.expr(e, env) for e in self.is_list_lit(n)) + "]"
        if isinstance(n, ast.Subscript) and isinstance(n.value, ast.Attribute) and isinstance(n.value.value, ast.Name) \
                and n.value.value.id in self.elems and n.value.value.id in env:
            # `v.a[i]` for a comprehension variable: only as the target declares it (the reading of the index
            # and of an index out of range is the model's)
            var = n.value.value.id
            key = ast.unparse(n)[len(var) + 1:]
            if key not in self.elems[var].get("index", {}):
                raise Unsupported(f"subscript {ast.unparse(n)}")
            return f"({var}.{self.elems[var]['index'][key]})"
        if isinstance(n, ast.ListComp):
            g, coll = self._comp(n)
            var, lst, elt = self._filtered(g, coll, env)
            if isinstance(g.elt, ast.Name) and g.elt.id == var:
                return lst
            return f"({lst}.map (fun {var} => {elt}))"
        if isinstance(n, ast.Call):
            return self.call(n, env)
        if isinstance(n, (ast.Compare, ast.BoolOp)):
            return self.bexpr(n, env)
        raise Unsupported(f"expression {type(n).__name__}")

    # ------------------------------------------------------------------ counts, lengths, generator sums
    def _gen(self, n):
        """(generator, collection) of `sum(<elt> for v in <mapped collection> [if …])`"""
        if not (isinstance(n, ast.Call) and isinstance(n.func, ast.Name) and n.func.id == "sum" and len(n.args) == 1
                and not n.keywords and isinstance(n.args[0], ast.GeneratorExp)):
            return None
        g = n.args[0]
        if len(g.generators) != 1 or g.generators[0].is_async or not isinstance(g.generators[0].target, ast.Name):
            raise Unsupported("generator expression with several clauses / a pattern target")
        coll = self.t.colls.get(ast.unparse(g.generators[0].iter))
        if coll is None:
            raise Unsupported(f"iteration over {ast.unparse(g.generators[0].iter)}")
        return g, coll

    def _comp(self, g):
        if len(g.generators) != 1 or g.generators[0].is_async or not isinstance(g.generators[0].target, ast.Name):
            raise Unsupported("comprehension with several clauses / a pattern target")
        coll = self.t.colls.get(ast.unparse(g.generators[0].iter))
        if coll is None:
            raise Unsupported(f"iteration over {ast.unparse(g.generators[0].iter)}")
        return g, coll

    def is_nat(self, n, env):
        if self.t.inputs and not isinstance(n, ast.Constant) and ast.unparse(n) in self.t.inputs:
            return False  # a declared input (its type is the binder's)
        if isinstance(n, ast.Name):
            return n.id in self.nat_names and n.id in env
        if isinstance(n, ast.Call) and isinstance(n.func, ast.Name) and "sum" not in env and "len" not in env:
            if n.func.id == "len" and len(n.args) == 1 and not n.keywords:
                return True
            if n.func.id == "sum" and self.t.colls:
                gc = self._gen(n)
                return gc is not None and isinstance(gc[0].elt, ast.Constant) and gc[0].elt.value == 1 \
                    and not isinstance(gc[0].elt.value, bool) and isinstance(gc[0].elt.value, int)
        return False

    def _filtered(self, g, coll, env):
        var = g.generators[0].target.id
        if var in env or var in self.pnames or var in self.elems:
            raise Unsupported(f"comprehension variable {var} shadows another name")
        self.elems[var] = coll
        try:
            env2 = dict(env)
            env2[var] = var
            conds = [self.bexpr(c, env2) for c in g.generators[0].ifs]
            lst = coll["list"]
            if conds:
                lst = f"({lst}.filter (fun {var} => {' && '.join(conds)}))"
            elt = None if (isinstance(g.elt, ast.Constant) and g.elt.value == 1) else self.expr(g.elt, env2)
        finally:
            del self.elems[var]
        return var, lst, elt

    def nat(self, n, env):
        """a Lean `Nat`: `len(<mapped collection>)`, `sum(1 for v in <mapped collection> if …)`, a count local"""
        if isinstance(n, ast.Name):
            return env[n.id]
        if n.func.id == "len":
            coll = self.t.colls.get(ast.unparse(n.args[0]))
            if coll is None:
                raise Unsupported(f"len({ast.unparse(n.args[0])})")
            return f"({coll['list']}.length)"
        g, coll = self._gen(n)
        _var, lst, _elt = self._filtered(g, coll, env)
        return f"({lst}.length)"

    def gensum(self, n, env):
        """`sum(e for v in xs if c)`: Python adds left to right starting from 0 — `sumK` of the mapped list"""
        g, coll = self._gen(n)
        var, lst, elt = self._filtered(g, coll, env)
        return f"(sumK ({lst}.map (fun {var} => {elt})))"

    def elem_attr(self, n, env):
        """`v.<a>` for a comprehension variable `v`"""
        var = n.value.id
        coll = self.elems[var]
        if n.attr in coll.get("attrs", {}):
            return f"{var}.{coll['attrs'][n.attr]}"
        if n.attr in coll.get("props", {}):
            rel, cls, func = coll["props"][n.attr]
            src = _src(rel)
            fn = _find_path(ast.parse(src), (cls, func))[-1]
            if [ast.unparse(d) for d in fn.decorator_list] != ["property"] or _fn_args(fn) != ["self"]:
                raise Unsupported(f"{cls}.{func} is not a property")
            body = [st for st in fn.body if not _is_docstring(st)]
            if len(body) != 1 or not isinstance(body[0], ast.Return) or body[0].value is None:
                raise Unsupported(f"property {cls}.{func} is not a single return")
            t2 = Target(self.t.lean_name, rel, cls, func,
                        attrs={k: f"{var}.{v}" for k, v in coll.get("attrs", {}).items()}, params=[])
            return Tr(t2, src, None).expr(body[0].value, {})
        raise Unsupported(f"attribute {ast.unparse(n)}")

    def is_list_lit(self, n):
        """the elements of a list of numbers written out in the source: `[a, b, …]` or `np.array([a, b, …])`"""
        if isinstance(n, ast.Call) and ast.unparse(n.func) in ("np.array", "numpy.array") and len(n.args) == 1 \
                and not n.keywords:
            n = n.args[0]
        if isinstance(n, ast.List) and n.elts and not any(isinstance(e, ast.Starred) for e in n.elts):
            return list(n.elts)
        return None

    def input(self, n, env):
        """a sub-expression the target declares as an INPUT (by its source text): it must not mention a
        local that the translated part has (re)assigned — then it would not be the same value"""
        for m in ast.walk(n):
            if isinstance(m, ast.Name) and m.id in env:
                raise Unsupported(f"input expression {ast.unparse(n)} reads the translated local {m.id}")
        return self.t.inputs[ast.unparse(n)]

    def attr(self, n, env):
        if isinstance(n.value, ast.Name) and n.value.id in self.elems and n.value.id in env:
            return self.elem_attr(n, env)
        # self.<a>
        if isinstance(n.value, ast.Name) and n.value.id == "self":
            if self.t.attrs.get(n.attr) == "@":
                # an attribute tracked like a local: readable once the translated part has assigned it
                if self.attr_local(n.attr) not in env:
                    raise Unsupported(f"self.{n.attr} is read before it is assigned")
                return env[self.attr_local(n.attr)]
            if n.attr in self.t.attrs:
                return self.t.attrs[n.attr].replace("self", env.get("self", "self"))
            if n.attr in self.t.props:
                return self.inline_prop(n.attr, env)
            raise Unsupported(f"attribute self.{n.attr}")
        # <param>.<a>  via attrs key "param.attr"
        if isinstance(n.value, ast.Name):
            key = f"{n.value.id}.{n.attr}"
            if key in self.t.attrs:
                return self.t.attrs[key]
            if key in self.t.props:
                return self.inline_prop(key, env)
        raise Unsupported(f"attribute {ast.unparse(n)}")

    def inline_prop(self, name, env):
        cls, func = self.t.props[name]
        fn = _find_func(_find_class(self.tree, cls), func)
        body = [s for s in fn.body if not _is_docstring(s)]
        if len(body) != 1 or not isinstance(body[0], ast.Return):
            raise Unsupported(f"property {name} is not a single return")
        # a property of another object: rebind `self.` attribute keys with the prefix
        if "." in name:
            prefix = name.split(".")[0]
            sub = Tr(self.t, self.source, self.tree)
            sub_attrs = {}
            for k, v in self.t.attrs.items():
                if k.startswith(prefix + "."):
                    sub_attrs[k.split(".", 1)[1]] = v
            sub_props = {}
            for k, v in self.t.props.items():
                if k.startswith(prefix + "."):
                    sub_props[k.split(".", 1)[1]] = v
            t2 = Target(self.t.lean_name, self.t.rel, cls, func, attrs=sub_attrs, props=sub_props, params=self.t.params)
            sub = Tr(t2, self.source, self.tree)
            return sub.expr(body[0].value, {})
        return self.expr(body[0].value, env)

    def call(self, n, env):
        f = n.func
        fname = ast.unparse(f)
        if fname in ("min", "max"):
            args = n.args
            if len(args) == 1 and isinstance(args[0], (ast.List, ast.Tuple)):
                args = args[0].elts
            xs = [self.expr(a, env) for a in args]
            if fname == "max":
                if len(xs) != 2:
                    raise Unsupported("max arity")
                return f"(pyMax {xs[0]} {xs[1]})"
            if len(xs) == 2:
                return f"(pyMin {xs[0]} {xs[1]})"
            if len(xs) == 3:
                return f"(pyMin3 {xs[0]} {xs[1]} {xs[2]})"
            if len(xs) == 4:
                return f"(pyMin4 {xs[0]} {xs[1]} {xs[2]} {xs[3]})"
            raise Unsupported("min arity")
        if fname == "abs":
            return f"(absK {self.expr(n.args[0], env)})"
        if fname == "sum" and self.t.colls and "sum" not in env and self._gen(n) is not None:
            return self.gensum(n, env)
        if fname in ("np.exp", "numpy.exp", "math.exp"):
            return f"(HasExp.exp {self.expr(n.args[0], env)})"
        if fname in ("np.random.normal", "numpy.random.normal"):
            if self.t.noise is None:
                raise Unsupported("random draw without a noise input")
            if not (len(n.args) == 2 and isinstance(n.args[0], ast.Constant) and n.args[0].value == 0):
                raise Unsupported("normal() with a non-zero mean")
            exp_sigma = self.t.noise[1]
            got = self.expr(n.args[1], env)
            if got != exp_sigma.replace("self", env.get("self", "self")) and got != exp_sigma:
                raise Unsupported(f"normal() sigma is {got}, the model draws for {exp_sigma}")
            return self.t.noise[0]
        if fname in ("np.isclose", "numpy.isclose"):
            return self.isclose(n, env)
        if fname in ("np.any", "numpy.any") and len(n.args) == 1 and isinstance(n.args[0], ast.Call) \
                and ast.unparse(n.args[0].func) in ("np.isclose", "numpy.isclose"):
            inner = n.args[0]
            a = self.expr(inner.args[0], env)
            xs = self.expr(inner.args[1], env)
            atol = self._isclose_tols(inner, env)
            return f"({xs}.any (fun a => isclose0 {a} a {atol}))"
        if fname in self.t.calls:
            raise Unsupported(f"call {fname} is only supported as a statement-level bind")
        if isinstance(f, ast.Attribute) and isinstance(f.value, ast.Name) and f.value.id == "self" \
                and f.attr in self.t.props and not n.args and not n.keywords:
            # `self.m()` for a method `m(self)` whose body is a single `return`: inlined like a property
            cls, func = self.t.props[f.attr]
            m = _find_func(_find_class(self.tree, cls), func)
            if m.decorator_list or _fn_args(m) != ["self"]:
                raise Unsupported(f"{cls}.{func} is not a plain method without arguments")
            return self.inline_prop(f.attr, env)
        if isinstance(f, ast.Name) and f.id not in env and "→" in self.ptypes.get(f.id, ""):
            # a parameter of function type
            if n.keywords or len(n.args) != self.ptypes[f.id].count("→"):
                raise Unsupported(f"call of the function parameter {f.id}")
            return f"({self.pnames[f.id]} {' '.join(self.expr(a, env) for a in n.args)})"
        if self.is_fcall(n, env):
            e, is_except = self.fcall(n, env)
            if is_except:
                raise Unsupported(f"call of the fuelled function {fname} inside an expression")
            return e
        raise Unsupported(f"call {fname}")

    # ------------------------------------------------------------------ translated (inner) functions
    def callee(self, name, env):
        """the Target of a function that may be called by its Python name here: the function itself
        (recursion) or an inner function whose `def` statement has been executed (`def:<name>` in env)"""
        t = self.t
        if t.path is None:
            return None
        if name in env or (name in self.pnames):
            return None  # shadowed by a local / parameter
        if name == t.path[-1] and f"def:{name}" not in env:
            return t  # already resolved
        if f"def:{name}" in env:
            ct = PATHS.get((t.rel, t.path + (name,)))
            if ct is None:
                raise Unsupported(f"inner function {name} is not a translation target")
            if self.done.get(ct.lean_name) != "ok":
                raise Unsupported(f"inner function {name} was not translated")
            return _resolved(ct, self.tree)
        # a module-level function of the same file that is a translation target — unless the name is bound
        # in an enclosing function scope (then it is something else)
        ct = PATHS.get((t.rel, (name,)))
        if ct is not None and ct is not t:
            for enc in _find_path(self.tree, t.path):
                if isinstance(enc, ast.FunctionDef) and name in _scope_of(enc).bound:
                    return None
            if self.done.get(ct.lean_name) != "ok":
                raise Unsupported(f"function {name} was not translated")
            return _resolved(ct, self.tree)
        return None

    def is_fcall(self, n, env):
        return isinstance(n, ast.Call) and isinstance(n.func, ast.Name) and self.callee(n.func.id, env) is not None

    def fvalue(self, node, env, ty):
        """a function passed as an argument: a function-typed parameter, or an inner function partially
        applied to its closure variables (Python closures read them at call time; the callee runs before
        the caller's next statement, so the caller's current values are the ones it sees)"""
        if not isinstance(node, ast.Name):
            raise Unsupported(f"function argument {ast.unparse(node)}")
        if node.id not in env and "→" in self.ptypes.get(node.id, ""):
            if self.ptypes[node.id].replace(" ", "") != ty.replace(" ", ""):
                raise Unsupported(f"function parameter {node.id} passed at type {ty}")
            return self.pnames[node.id]
        ct = self.callee(node.id, env)
        if ct is None or ct.lean_name == self.t.lean_name:
            raise Unsupported(f"function argument {node.id}")
        if ct.kind != "pure" or ct.fuel:
            raise Unsupported(f"function argument {node.id} is not a pure translated function")
        own = [p for p in ct.params if not p[0].startswith("^")]
        if any(p[0].startswith("$") for p in own):
            raise Unsupported(f"function argument {node.id} has extra inputs")
        got = " → ".join([p[2] for p in own] + [ct.ret]).replace(" ", "")
        if got != ty.replace(" ", ""):
            raise Unsupported(f"function argument {node.id} : {got}, expected {ty}")
        clos = [self.expr(ast.Name(id=p[0][1:], ctx=ast.Load()), env) for p in ct.params if p[0].startswith("^")]
        return f"({ct.lean_name} {' '.join(clos)})" if clos else ct.lean_name

    def fcall(self, n, env):
        """call of a translated function by its Python name → (lean expression, returns-Except?)"""
        name = n.func.id
        ct = self.callee(name, env)
        fn = _find_path(self.tree, ct.path)[-1]
        pyargs = _fn_args(fn)
        defaults = dict(zip(pyargs[len(pyargs) - len(fn.args.defaults):], fn.args.defaults))
        given = {}
        if len(n.args) > len(pyargs):
            raise Unsupported(f"too many arguments for {name}")
        for i, a in enumerate(n.args):
            if isinstance(a, ast.Starred):
                raise Unsupported("starred argument")
            given[pyargs[i]] = a
        for k in n.keywords:
            if k.arg is None or k.arg not in pyargs or k.arg in given:
                raise Unsupported(f"keyword argument {k.arg} of {name}")
            given[k.arg] = k.value
        args = []
        for py, _ln, ty in ct.params:
            if py.startswith("^"):
                args.append(self.expr(ast.Name(id=py[1:], ctx=ast.Load()), env))
            elif py.startswith("$"):
                raise Unsupported(f"{name} has extra inputs")
            elif py in given:
                args.append(self.fvalue(given[py], env, ty) if "→" in ty else self.expr(given[py], env))
            elif py in defaults:
                d = defaults[py]
                if not (isinstance(d, ast.Constant) and isinstance(d.value, (int, float)) and not isinstance(d.value, bool)):
                    raise Unsupported(f"default of {name}({py}) is not a numeric literal")
                args.append(self.lit(d))
            else:
                raise Unsupported(f"missing argument {py} of {name}")
        if set(given) - {p[0] for p in ct.params}:
            raise Unsupported(f"arguments of {name}")
        if ct.fuel:
            if not self.t.fuel:
                raise Unsupported(f"call of the fuelled function {name} from a function without fuel")
            args.insert(0, "fuel")
        return f"({ct.lean_name} {' '.join(args)})", ct.kind == "except"

    def _isclose_tols(self, n, env):
        kw = {k.arg: k.value for k in n.keywords}
        if "rtol" not in kw or not (isinstance(kw["rtol"], ast.Constant) and kw["rtol"].value == 0):
            raise Unsupported("isclose with rtol != 0")
        if "atol" not in kw:
            raise Unsupported("isclose without atol")
        return self.expr(kw["atol"], env)

    def isclose(self, n, env):
        a = self.expr(n.args[0], env)
        b = self.expr(n.args[1], env)
        return f"(isclose0 {a} {b} {self._isclose_tols(n, env)})"

    # ------------------------------------------------------------------ conditions
    def etype(self, n, env):
        """"Nat" / "Int" for an integer-valued atom, "lit" for an int literal, "K" for everything else"""
        if self.t.inputs and not isinstance(n, ast.Constant) and ast.unparse(n) in self.t.inputs:
            ty = self.btypes.get(self.t.inputs[ast.unparse(n)], "K")
            return ty if ty in ("Nat", "Int", "Nat × Nat") else "K"
        if isinstance(n, ast.Constant) and isinstance(n.value, int) and not isinstance(n.value, bool):
            return "lit"
        if self.is_nat(n, env):
            return "Nat"
        if isinstance(n, ast.Attribute) and isinstance(n.value, ast.Name) and n.value.id in self.elems \
                and n.value.id in env:
            return self.elems[n.value.id].get("types", {}).get(n.attr, "K")
        if isinstance(n, ast.Name):
            if n.id in env:
                return self.ltypes.get(n.id, "K")
            ty = self.ptypes.get(n.id)
            return ty if ty in ("Nat", "Int") else "K"
        if isinstance(n, ast.Attribute) and isinstance(n.value, ast.Name) and n.value.id == "self" \
                and self.t.attrs.get(n.attr) == "@":
            return self.ltypes.get(self.attr_local(n.attr), "K")
        return "K"

    def int_cmp(self, left, op, right, env):
        """comparison of two integer-valued atoms (None if this is a comparison in the carrier)"""
        tl, tr_ = self.etype(left, env), self.etype(right, env)
        tys = {tl, tr_} - {"lit"}
        if "Nat × Nat" in tys:
            raise Unsupported("pair comparison in a Prop position")
        if not tys & {"Nat", "Int"}:
            return None
        if len(tys) != 1:
            raise Unsupported(f"comparison of a {tl} with a {tr_}")
        ty = tys.pop()

        def atom(n, t):
            if t == "lit":
                if n.value < 0 and ty == "Nat":
                    raise Unsupported("negative literal compared with a count")
                return f"({n.value} : {ty})"
            return self.nat(n, env) if self.is_nat(n, env) else self.expr(n, env)
        l, r = atom(left, tl), atom(right, tr_)
        rel = {ast.Lt: f"{l} < {r}", ast.LtE: f"{l} ≤ {r}", ast.Gt: f"{r} < {l}", ast.GtE: f"{r} ≤ {l}",
               ast.Eq: f"{l} = {r}", ast.NotEq: f"¬ ({l} = {r})"}.get(type(op))
        if rel is None:
            raise Unsupported(f"comparison {type(op).__name__}")
        return rel

    def pair_cmp(self, left, op, right, env):
        """Python's lexicographic comparison of two (month, day)-like pairs of naturals, as a Bool
        (None if the operands are not such pairs)"""
        if self.etype(left, env) != "Nat × Nat" and self.etype(right, env) != "Nat × Nat":
            return None
        if self.etype(left, env) != self.etype(right, env):
            raise Unsupported("comparison of a pair with something else")
        l, r = self.expr(left, env), self.expr(right, env)
        if isinstance(op, ast.GtE):
            l, r, op = r, l, ast.LtE()
        elif isinstance(op, ast.Gt):
            l, r, op = r, l, ast.Lt()
        if isinstance(op, ast.LtE):
            return f"(decide ({l}.1 < {r}.1) || ({l}.1 == {r}.1 && decide ({l}.2 ≤ {r}.2)))"
        if isinstance(op, ast.Lt):
            return f"(decide ({l}.1 < {r}.1) || ({l}.1 == {r}.1 && decide ({l}.2 < {r}.2)))"
        raise Unsupported(f"pair comparison {type(op).__name__}")

    def attr_local(self, attr):
        return "self_" + attr.lstrip("_")

    def cmp_prop(self, left, op, right, env):
        ic = self.int_cmp(left, op, right, env)
        if ic is not None:
            return ic
        l, r = self.expr(left, env), self.expr(right, env)
        if isinstance(op, ast.Lt):
            return f"{l} < {r}"
        if isinstance(op, ast.LtE):
            return f"{l} ≤ {r}"
        if isinstance(op, ast.Gt):
            return f"{r} < {l}"
        if isinstance(op, ast.GtE):
            return f"{r} ≤ {l}"
        if isinstance(op, ast.Eq):
            # Python float equality through the order (so that it unfolds at every carrier)
            return None
        raise Unsupported(f"comparison {type(op).__name__}")

    def cond(self, n, env):
        """a condition of `if`: a Prop for a plain comparison, otherwise `<bool> = true`"""
        if isinstance(n, ast.Compare) and len(n.ops) == 1 and not isinstance(n.ops[0], (ast.Eq, ast.Is, ast.IsNot, ast.NotEq)):
            return self.cmp_prop(n.left, n.ops[0], n.comparators[0], env)
        return self.bexpr(n, env)

    def bexpr(self, n, env):
        """a Bool"""
        if self.t.inputs and not isinstance(n, ast.Constant) and ast.unparse(n) in self.t.inputs:
            return self.input(n, env)
        if isinstance(n, ast.Compare):
            parts = []
            left = n.left
            for op, right in zip(n.ops, n.comparators):
                if isinstance(op, (ast.Is, ast.IsNot)):
                    if not (isinstance(right, ast.Constant) and right.value is None):
                        raise Unsupported("`is` with something other than None")
                    e = self.expr(left, env)
                    parts.append(f"({e}).isNone" if isinstance(op, ast.Is) else f"({e}).isSome")
                elif self.pair_cmp(left, op, right, env) is not None:
                    parts.append(self.pair_cmp(left, op, right, env))
                elif self.int_cmp(left, op, right, env) is not None:
                    parts.append(f"decide ({self.int_cmp(left, op, right, env)})")
                elif isinstance(op, ast.Eq):
                    l, r = self.expr(left, env), self.expr(right, env)
                    parts.append(f"(decide ({r} ≤ {l}) && decide ({l} ≤ {r}))")
                else:
                    parts.append(f"decide ({self.cmp_prop(left, op, right, env)})")
                left = right
            return parts[0] if len(parts) == 1 else "(" + " && ".join(parts) + ")"
        if isinstance(n, ast.BoolOp):
            op = " && " if isinstance(n.op, ast.And) else " || "
            return "(" + op.join(self.bexpr(v, env) for v in n.values) + ")"
        if isinstance(n, ast.UnaryOp) and isinstance(n.op, ast.Not):
            return f"(!{self.bexpr(n.operand, env)})"
        if isinstance(n, ast.Call):
            return self.call(n, env)
        if isinstance(n, ast.Constant) and isinstance(n.value, bool):
            return "true" if n.value else "false"
        if isinstance(n, (ast.Name, ast.Attribute, ast.Subscript)):
            return self.expr(n, env)
        raise Unsupported(f"boolean expression {type(n).__name__}")

    # ------------------------------------------------------------------ statements
    def assigned(self, stmts, acc=None):
        """targets assigned anywhere in an assignment-only block, in order of first assignment"""
        acc = [] if acc is None else acc
        for s in stmts:
            if isinstance(s, (ast.Assign, ast.AugAssign)):
                tg = s.targets[0] if isinstance(s, ast.Assign) else s.target
                key = self.target_key(tg)
                if key not in acc:
                    acc.append(key)
            elif isinstance(s, ast.If):
                self.assigned(s.body, acc)
                self.assigned(s.orelse, acc)
            elif _is_docstring(s) or _is_warn_call(s) or isinstance(s, ast.Pass):
                pass
            else:
                raise Unsupported(f"statement {type(s).__name__} inside an assignment block")
        return acc

    def always_assigned(self, stmts):
        """keys assigned on EVERY path through an assignment-only block"""
        acc = set()
        for s in stmts:
            if isinstance(s, (ast.Assign, ast.AugAssign)):
                acc.add(self.target_key(s.targets[0] if isinstance(s, ast.Assign) else s.target))
            elif isinstance(s, ast.If) and s.orelse:
                acc |= self.always_assigned(s.body) & self.always_assigned(s.orelse)
        return acc

    def live_keys(self, s, env):
        """variables an assignment-style `if` defines for the code after it: those that had a value
        before, or get one on every path; a name assigned in one branch only is a branch-local temporary"""
        both = self.always_assigned([s])
        return [k for k in self.assigned([s]) if k == "self" or k in env or k in self.pnames or k in both]

    def target_key(self, tg):
        if isinstance(tg, ast.Name):
            return tg.id
        if isinstance(tg, ast.Attribute) and isinstance(tg.value, ast.Name) and tg.value.id == "self":
            if self.t.attrs.get(tg.attr) == "@":
                return self.attr_local(tg.attr)
            return "self"
        raise Unsupported(f"assignment target {ast.unparse(tg)}")

    def assign_value(self, s, env):
        """(key, lean value) of one assignment under env"""
        tg = s.targets[0] if isinstance(s, ast.Assign) else s.target
        if isinstance(s, ast.Assign) and len(s.targets) != 1:
            raise Unsupported("multiple assignment targets")
        if isinstance(tg, ast.Name):
            if isinstance(s, ast.Assign) and self.is_nat(s.value, env):
                if tg.id in env or tg.id in self.pnames:
                    raise Unsupported(f"{tg.id} changes type to a count")
                self.nat_names.add(tg.id)
                return tg.id, self.nat(s.value, env)
            if tg.id in self.nat_names:
                raise Unsupported(f"reassignment of the count {tg.id}")
        val = self.expr(s.value, env)
        if isinstance(s, ast.AugAssign):
            op = {ast.Add: "+", ast.Sub: "-", ast.Mult: "*", ast.Div: "/"}.get(type(s.op))
            if op is None:
                raise Unsupported("augmented operator")
            cur = self.expr(tg, env)
            val = f"({cur} {op} {val})"
        if isinstance(tg, ast.Name):
            if isinstance(s, ast.Assign) and self.is_list_lit(s.value):
                if tg.id in env or tg.id in self.pnames:
                    raise Unsupported(f"{tg.id} changes type to a list")
                self.ltypes[tg.id] = "List K"
            elif isinstance(s, ast.Assign) and self.etype(s.value, env) in ("Nat", "Int"):
                self.ltypes[tg.id] = self.etype(s.value, env)
            elif tg.id in self.ltypes:
                raise Unsupported(f"reassignment of the integer local {tg.id}")
            return tg.id, val
        if isinstance(tg, ast.Attribute) and isinstance(tg.value, ast.Name) and tg.value.id == "self" \
                and self.t.attrs.get(tg.attr) == "@":
            k = self.attr_local(tg.attr)
            if isinstance(s, ast.AugAssign):
                raise Unsupported(f"augmented assignment to self.{tg.attr}")
            if self.etype(s.value, env) in ("Nat", "Int"):
                self.ltypes[k] = self.etype(s.value, env)
            elif k in self.ltypes:
                raise Unsupported(f"reassignment of the integer attribute self.{tg.attr}")
            return k, val
        # self.attr = val
        if tg.attr not in self.t.attrs:
            raise Unsupported(f"assignment to unmapped attribute self.{tg.attr}")
        field = self.t.attrs[tg.attr]
        if not field.startswith("self."):
            raise Unsupported(f"assignment to a computed attribute self.{tg.attr}")
        me = env.get("self", "self")
        return "self", f"{{ {me} with {field[5:]} := {val} }}"

    def block_value(self, stmts, key, env):
        """value of `key` after running an assignment-only block from env (None if untouched)"""
        env = dict(env)
        lets = []
        touched = False
        for s in stmts:
            if _is_docstring(s) or _is_warn_call(s) or isinstance(s, ast.Pass):
                continue
            if isinstance(s, ast.If):
                if _only_warns(s.body) and not s.orelse:
                    continue
                for k in self.live_keys(s, env):
                    v = self.if_value(s, k, env)
                    nm = self.fresh(k, env)
                    lets.append(f"let {nm} := {v}")
                    env[k] = nm
                    if k == key:
                        touched = True
                continue
            k, v = self.assign_value(s, env)
            nm = self.fresh(k, env)
            lets.append(f"let {nm} := {v}")
            env[k] = nm
            if k == key:
                touched = True
        if not touched:
            return None
        # drop lets after the last assignment of key that key does not depend on: keep it simple — keep all
        # lets up to the last definition of key
        last = max(i for i, l in enumerate(lets) if l.startswith(f"let {env[key]} :="))
        lets = lets[: last + 1]
        if len(lets) == 1:
            return lets[0].split(":=", 1)[1].strip()
        return "(" + "; ".join(lets) + f"; {env[key]})"

    def fresh(self, key, env):
        return key if key != "self" else "self"

    def if_value(self, s, key, env):
        c = self.cond(s.test, env)
        old = env.get(key) if key in env else (self.pnames.get(key))
        if key == "self":
            old = env.get("self", "self")
        a = self.block_value(s.body, key, env)
        b = self.block_value(s.orelse, key, env) if s.orelse else None
        if a is None and b is None:
            raise Unsupported("if_value on an untouched key")
        if a is None:
            a = old
        if b is None:
            b = old
        if a is None or b is None:
            raise Unsupported(f"variable {key} is assigned in one branch only and has no earlier value")
        return f"(if {c} then {a} else {b})"

    def stmts(self, body, env, indent="  "):
        """translate a statement list that ends in return / raise on every path"""
        if not body:
            if self.loop_ctx is not None:
                return indent + self.loop_ctx  # the end of a loop body: next element
            if self.t.kind == "method" and self.t.unit:
                return f"{indent}.ok {env.get('self', 'self')}"
            raise Unsupported("control reaches the end of the function without a return")
        s, rest = body[0], body[1:]
        if isinstance(s, ast.Continue):
            if self.loop_ctx is None:
                raise Unsupported("continue outside a translated loop")
            return indent + self.loop_ctx
        if isinstance(s, ast.For):
            return self.for_loop(s, rest, env, indent)
        if _is_docstring(s) or _is_warn_call(s) or isinstance(s, ast.Pass):
            return self.stmts(rest, env, indent)
        if isinstance(s, ast.Raise):
            return f"{indent}.error {self.err(s)}"
        if isinstance(s, ast.Return):
            return indent + self.ret(s, env)
        if isinstance(s, ast.FunctionDef):
            # an inner function: translated as its own target; from here on it can be called by name
            if self.t.path is None or s.decorator_list:
                raise Unsupported(f"inner function {s.name}")
            ct = PATHS.get((self.t.rel, self.t.path + (s.name,)))
            if ct is None:
                raise Unsupported(f"inner function {s.name} is not a translation target")
            if self.done.get(ct.lean_name) != "ok":
                raise Unsupported(f"inner function {s.name} was not translated")
            if s.name in env or s.name in self.pnames:
                raise Unsupported(f"inner function {s.name} rebinds a variable")
            env2 = dict(env)
            env2[f"def:{s.name}"] = ct.lean_name
            return self.stmts(rest, env2, indent)
        if isinstance(s, ast.Assign) and self.is_fcall(s.value, env):
            e, is_except = self.fcall(s.value, env)
            if is_except:
                if self.t.kind != "except":
                    raise Unsupported("bind of a fuelled call outside an 'except' function")
                if len(s.targets) != 1 or not isinstance(s.targets[0], ast.Name):
                    raise Unsupported("bind target")
                k = s.targets[0].id
                if f"def:{k}" in env:
                    raise Unsupported(f"assignment to the inner function name {k}")
                env2 = dict(env)
                env2[k] = k
                return (f"{indent}match {e} with\n{indent}| .error x => .error x\n{indent}| .ok r' =>\n"
                        f"{indent}  let {k} := r'\n" + self.stmts(rest, env2, indent + "  "))
        if isinstance(s, (ast.Assign, ast.AugAssign)):
            # statement-level bind on a mapped call
            if isinstance(s, ast.Assign) and isinstance(s.value, ast.Call) and ast.unparse(s.value.func) in self.t.calls:
                return self.bind(s, rest, env, indent)
            k, v = self.assign_value(s, env)
            if f"def:{k}" in env:
                raise Unsupported(f"assignment to the inner function name {k}")
            env2 = dict(env)
            env2[k] = k
            return f"{indent}let {k} := {v}\n" + self.stmts(rest, env2, indent)
        if isinstance(s, ast.Expr) and isinstance(s.value, ast.Call) and ast.unparse(s.value.func) in self.t.calls:
            return self.bind(s, rest, env, indent)
        if isinstance(s, ast.If):
            if _only_warns(s.body) and not s.orelse:
                return self.stmts(rest, env, indent)
            od = self.option_default(s, env)
            if od is not None:
                k, v = od
                env2 = dict(env)
                env2[k] = k
                return f"{indent}let {k} := {v}\n" + self.stmts(rest, env2, indent)
            if _has_exit(s.body) or _has_exit(s.orelse):
                c = self.cond(s.test, env)
                if _terminates(s.body):
                    a = self.stmts(s.body, env, indent + "  ")
                    b = self.stmts(list(s.orelse) + rest, env, indent + "  ")
                    return f"{indent}if {c} then\n{a}\n{indent}else\n{b}"
                if s.orelse and _terminates(s.orelse):
                    a = self.stmts(list(s.body) + rest, env, indent + "  ")
                    b = self.stmts(s.orelse, env, indent + "  ")
                    return f"{indent}if {c} then\n{a}\n{indent}else\n{b}"
                raise Unsupported("if with a return/raise on some but not all paths of a branch")
            out = ""
            env2 = dict(env)
            for k in self.live_keys(s, env2):
                v = self.if_value(s, k, env2)
                out += f"{indent}let {k} := {v}\n"
                env2[k] = k
            return out + self.stmts(rest, env2, indent)
        raise Unsupported(f"statement {type(s).__name__}")

    def option_default(self, s, env):
        """`if x is None: x = e` for a parameter `x : Option T` that has not been reassigned: from here
        on `x : T` is `match x with | none => e | some v => v`"""
        t = s.test
        if s.orelse or len(s.body) != 1 or not isinstance(s.body[0], ast.Assign):
            return None
        if not (isinstance(t, ast.Compare) and len(t.ops) == 1 and isinstance(t.ops[0], ast.Is)
                and isinstance(t.left, ast.Name) and isinstance(t.comparators[0], ast.Constant)
                and t.comparators[0].value is None):
            return None
        x = t.left.id
        a = s.body[0]
        if not (len(a.targets) == 1 and isinstance(a.targets[0], ast.Name) and a.targets[0].id == x):
            return None
        if x in env or not self.ptypes.get(x, "").startswith("Option "):
            return None
        e = self.expr(a.value, env)
        return x, f"(match {self.pnames[x]} with | none => {e} | some v' => v')"

    def for_loop(self, s, rest, env, indent):
        """`for x in xs: BODY` followed by REST, where the loop carries no state (BODY assigns nothing that
        is read after the pass) and leaves only by `return` / `raise` / `continue` / its end: an auxiliary
        definition by recursion on the list — `[]` ↦ REST, `x :: rest'` ↦ BODY with `continue` ↦ the call
        on `rest'`"""
        t = self.t
        if self.loop_ctx is not None or self.aux:
            raise Unsupported("more than one loop")
        if t.kind not in ("except", "pure") or t.path is None:
            raise Unsupported("loop in a function of this kind")
        if s.orelse or not isinstance(s.target, ast.Name):
            raise Unsupported("for … else / pattern target")
        x = s.target.id
        if x in env or x in self.pnames or f"def:{x}" in env:
            raise Unsupported(f"loop variable {x} rebinds a name")
        if not (isinstance(s.iter, ast.Name) and s.iter.id in env and self.ltypes.get(s.iter.id) == "List K"):
            raise Unsupported(f"iteration over {ast.unparse(s.iter)} (not a local list literal)")
        stores, loads_after = set(), set()
        for st in s.body:
            for m in ast.walk(st):
                if isinstance(m, (ast.Break, ast.For, ast.While, ast.FunctionDef, ast.Lambda)):
                    raise Unsupported(f"{type(m).__name__} inside the loop")
                if isinstance(m, ast.Name) and not isinstance(m.ctx, ast.Load):
                    stores.add(m.id)
                if isinstance(m, ast.Attribute) and not isinstance(m.ctx, ast.Load):
                    raise Unsupported("attribute assignment inside the loop")
        for st in rest:
            for m in ast.walk(st):
                if isinstance(m, ast.Name) and isinstance(m.ctx, ast.Load):
                    loads_after.add(m.id)
        carried = {k for k in stores if k in env or k in self.pnames} | (stores & loads_after)
        if carried or x in loads_after:
            raise Unsupported(f"the loop carries state: {sorted(carried | ({x} & loads_after))}")
        used = set()
        for st in list(s.body) + list(rest):
            for m in ast.walk(st):
                if isinstance(m, ast.Name) and isinstance(m.ctx, ast.Load):
                    used.add(m.id)
        # the inner functions callable here read their closure variables from this environment
        for k in list(env):
            if k.startswith("def:") and k[4:] in used:
                ct = PATHS.get((t.rel, t.path + (k[4:],)))
                used |= {p[0][1:] for p in (_resolved(ct, self.tree).params if ct else []) if p[0].startswith("^")}
        extra = [k for k in env if not k.startswith("def:") and k in used and k != s.iter.id]
        name = f"{t.lean_name}_loop"
        binders = self.binders() + [f"({env[k]} : {self.ltypes.get(k, 'K')})" for k in extra]
        args = " ".join((["fuel"] if t.fuel else []) + (["self"] if t.self_type else [])
                        + [p[1] for p in t.params if p[2] != "-"] + [env[k] for k in extra])
        nil = self.stmts(list(rest), env, "    ")
        env2 = dict(env)
        env2[x] = x
        self.loop_ctx = f"({name} {args} rest')".replace("  ", " ")
        try:
            cons = self.stmts(list(s.body), env2, "    ")
        finally:
            self.loop_ctx = None
        self.aux.append(f"/-- the `for {x} in {s.iter.id}` loop of {'.'.join(t.path)} -/\n"
                        f"def {name} {' '.join(binders)} : List K → {self.result_type()}\n"
                        f"  | [] =>\n{nil}\n  | {x} :: rest' =>\n{cons}\n")
        return indent + f"({name} {args} {env[s.iter.id]})".replace("  ", " ")

    def err(self, s):
        exc = s.exc
        name = exc.func.id if isinstance(exc, ast.Call) and isinstance(exc.func, ast.Name) else (exc.id if isinstance(exc, ast.Name) else None)
        if name not in self.t.errs:
            raise Unsupported(f"exception {name}")
        return self.t.errs[name]

    def ret(self, s, env):
        if self.t.kind == "pure":
            if s.value is None:
                raise Unsupported("bare return in a pure function")
            return self.bexpr(s.value, env) if self.t.bool_result else self.expr(s.value, env)
        if self.t.kind == "except":
            if s.value is None:
                raise Unsupported("bare return")
            if self.is_fcall(s.value, env):
                e, is_except = self.fcall(s.value, env)
                return e if is_except else f".ok {e}"   # a tail call of a fuelled function is its result
            return f".ok {self.bexpr(s.value, env) if self.t.bool_result else self.expr(s.value, env)}"
        me = env.get("self", "self")
        if self.t.unit:
            return f".ok {me}"
        if s.value is None:
            raise Unsupported("bare return")
        return f".ok ({me}, {self.expr(s.value, env)})"

    def bind(self, s, rest, env, indent):
        call = s.value
        spec = self.t.calls[ast.unparse(call.func)]
        args = " ".join(self.expr(a, env) for a in call.args)
        me = env.get("self", "self")
        callee = spec["lean"].replace("self", me)
        extra = (" " + spec["extra"]) if spec.get("extra") else ""
        env2 = dict(env)
        field = spec["state"]  # field of self that holds the callee's state
        out = f"{indent}match {callee} {args}{extra} with\n{indent}| .error x => .error x\n{indent}| .ok (st', r') =>\n"
        out += f"{indent}  let self := {{ {me} with {field} := st' }}\n"
        env2["self"] = "self"
        if isinstance(s, ast.Assign):
            tg = s.targets[0]
            if not isinstance(tg, ast.Name):
                raise Unsupported("bind target")
            out += f"{indent}  let {tg.id} := r'\n"
            env2[tg.id] = tg.id
        return out + self.stmts(rest, env2, indent + "  ")

    # ------------------------------------------------------------------ whole function
    def function(self):
        t = self.t
        if t.select is not None:
            return t.select(self)
        if t.path is not None:
            return self.path_function()
        fn = _find_func(_find_class(self.tree, t.cls), t.func)
        pyargs = [a.arg for a in fn.args.args if a.arg != "self"]
        want = [p[0] for p in t.params if not p[0].startswith("$")]
        if pyargs != want:
            raise Unsupported(f"signature of {t.cls}.{t.func} is {pyargs}, the tie expects {want}")
        body = self.stmts(list(fn.body), {})
        return body

    def path_fn(self):
        """locate the (nested) function of a path target; check its signature and its closure"""
        t = self.t
        chain = _find_path(self.tree, t.path)
        fn = chain[-1]
        if fn.decorator_list:
            raise Unsupported("decorated function")
        # (signature and closure variables were matched by position in `_resolved`)
        values, funcs = _closure_of(chain)
        if funcs - {fn.name}:
            raise Unsupported(f"{'.'.join(t.path)} refers to the enclosing functions {sorted(funcs - {fn.name})}")
        recursive = fn.name in funcs or (len(chain) == 1 and fn.name in _free_names(fn))
        return fn, recursive

    def path_function(self):
        t = self.t
        fn, recursive = self.path_fn()
        if t.fuel and t.kind != "except":
            raise Unsupported("a fuelled function must be of kind 'except'")
        if recursive and not (t.fuel and t.rec_err):
            raise Unsupported(f"{'.'.join(t.path)} is recursive; the tie expects no recursion")
        if recursive:
            body = self.stmts(list(fn.body), {}, "    ")
            return f"  match fuel with\n  | 0 => .error {t.rec_err}\n  | fuel + 1 =>\n{body}"
        return self.stmts(list(fn.body), {})

    def binders(self):
        t = self.t
        bs = []
        if t.self_type:
            bs.append(f"(self : {t.self_type})")
        for _py, ln, ty in t.params:
            if ty != "-":
                bs.append(f"({ln} : {ty})")
        if t.extra_binders:
            bs.append(t.extra_binders)
        if t.fuel:
            bs.insert(0, "(fuel : Nat)")
        return bs

    def result_type(self):
        t = self.t
        if t.kind == "method":
            return f"Except {t.err_type} ({t.self_type})" if t.unit else f"Except {t.err_type} ({t.self_type} × K)"
        if t.kind == "except":
            return f"Except {t.err_type} ({t.ret})"
        return t.ret

    def header(self):
        return f"def {self.t.lean_name} {' '.join(self.binders())} : {self.result_type()} :="


# --------------------------------------------------------------------------------------- targets

BATT_ATTRS = {
    "_capacity": "self.capacity", "_current_charge": "self.charge", "_init_charge": "self.init",
    "_max_power": "self.maxPower", "_current_charging_power": "self.power",
    "_noise_level": "self.noiseLevel", "_transition_soc": "self.ts",
}
BATT_PROPS = {"_soc": ("Battery", "_soc")}
PVT = [("pilot", "pilot", "K"), ("voltage", "voltage", "K"), ("period", "period", "K")]
BATT = "acnportal/acnsim/models/battery.py"
EVPY = "acnportal/acnsim/models/ev.py"
EVSEPY = "acnportal/acnsim/models/evse.py"


def _sel_reset(tr: Tr):
    """Battery.reset(init_charge=None): the Optional argument becomes `Option K`."""
    fn = _find_func(_find_class(tr.tree, "Battery"), "reset")
    if [a.arg for a in fn.args.args] != ["self", "init_charge"]:
        raise Unsupported("signature of Battery.reset")
    body = [s for s in fn.body if not _is_docstring(s)]
    if not (len(body) == 2 and isinstance(body[0], ast.If)):
        raise Unsupported("shape of Battery.reset")
    iff, tail = body
    t = iff.test
    if not (isinstance(t, ast.Compare) and isinstance(t.ops[0], ast.Is) and ast.unparse(t.left) == "init_charge"
            and isinstance(t.comparators[0], ast.Constant) and t.comparators[0].value is None):
        raise Unsupported("Battery.reset does not start with `if init_charge is None`")
    none_branch = tr.stmts(list(iff.body) + [tail], {}, "    ")
    tr.pnames["init_charge"] = "c"
    some_branch = tr.stmts(list(iff.orelse) + [tail], {}, "    ")
    return f"  match init_charge with\n  | none =>\n{none_branch}\n  | some c =>\n{some_branch}"


def _sel_trigger(tr: Tr):
    """the condition of the `if` in Simulator.run's loop whose body calls `self.scheduler.run()`"""
    fn = _find_func(_find_class(tr.tree, "Simulator"), "run")
    hits = []
    for n in ast.walk(fn):
        if isinstance(n, ast.If) and any(
                isinstance(c, ast.Call) and ast.unparse(c.func) == "self.scheduler.run" for b in n.body for c in ast.walk(b)):
            hits.append(n)
    if len(hits) != 1:
        raise Unsupported("expected exactly one `if …: self.scheduler.run()` in Simulator.run")
    return "  " + tr.trigger(hits[0].test)


def _trigger(self: Tr, n):
    """Boolean over (resolve : Bool) (maxRecompute : Option Nat) (lastUpd : Option Int) (iter : Nat)"""
    if isinstance(n, ast.BoolOp):
        op = " && " if isinstance(n.op, ast.And) else " || "
        return "(" + op.join(self.trigger(v) for v in n.values) + ")"
    if isinstance(n, ast.Attribute) and ast.unparse(n) == "self._resolve":
        return "resolve"
    if isinstance(n, ast.Compare) and len(n.ops) == 1:
        l, r = ast.unparse(n.left), ast.unparse(n.comparators[0])
        if isinstance(n.ops[0], (ast.Is, ast.IsNot)) and r == "None":
            nm = {"self.max_recompute": "maxRecompute", "self._last_schedule_update": "lastUpd"}.get(l)
            if nm is None:
                raise Unsupported(f"trigger: `{l} is None`")
            return f"{nm}.isNone" if isinstance(n.ops[0], ast.Is) else f"{nm}.isSome"
        if l == "self._iteration - self._last_schedule_update" and r == "self.max_recompute":
            rel = {ast.GtE: "≤", ast.Gt: "<"}.get(type(n.ops[0]))
            if rel is None:
                raise Unsupported("trigger comparison")
            # both are `some` on this path (guarded by the `is not None` / `is None or` around it)
            return (f"(match maxRecompute, lastUpd with | some m, some u => decide ((m : Int) {rel} (iter : Int) - u) "
                    f"| _, _ => false)")
    raise Unsupported(f"trigger expression {ast.unparse(n)}")


Tr.trigger = _trigger


def _sel_amp_periods(tr: Tr):
    fn = _find_func(_find_class(tr.tree, "Interface"), "_convert_to_amp_periods")
    body = [s for s in fn.body if not _is_docstring(s)]
    if len(body) != 1 or not isinstance(body[0], ast.Return):
        raise Unsupported("shape of _convert_to_amp_periods")
    return "  " + tr.expr(body[0].value, {})


class _AmpTr(Tr):
    def call(self, n, env):
        if ast.unparse(n.func) == "self.evse_voltage":
            return "voltage"
        return super().call(n, env)



SORTED = "acnportal/algorithms/sorted_algorithms.py"


def _module_func(tree, name):
    for n in tree.body:
        if isinstance(n, ast.FunctionDef) and n.name == name:
            return n
    raise Unsupported(f"function {name} not found")


class _KeyTr(Tr):
    """sort-key helpers of sorted_algorithms.py: `iface.remaining_amp_periods(ev)` and
    `iface.max_pilot_signal(ev.station_id)` are inputs; `ev.estimated_departure - iface.current_time`
    is an integer difference cast to the carrier"""

    def call(self, n, env):
        f = ast.unparse(n.func)
        if f == "iface.remaining_amp_periods" and ast.unparse(n.args[0]) == "ev":
            return "rap"
        if f == "iface.max_pilot_signal" and ast.unparse(n.args[0]) == "ev.station_id":
            return "maxPilot"
        return super().call(n, env)

    def expr(self, n, env):
        if isinstance(n, ast.BinOp) and isinstance(n.op, ast.Sub) and ast.unparse(n.left) == "ev.estimated_departure" \
                and ast.unparse(n.right) == "iface.current_time":
            return "(((estDeparture - time : Int) : K))"
        return super().expr(n, env)


def _sel_inner(outer, inner):
    def sel(tr: Tr):
        fn = _module_func(tr.tree, outer)
        inn = [n for n in fn.body if isinstance(n, ast.FunctionDef) and n.name == inner]
        if len(inn) != 1:
            raise Unsupported(f"{outer} has no inner function {inner}")
        if [a.arg for a in inn[0].args.args] != ["ev"]:
            raise Unsupported(f"signature of {inner}")
        ret = [s for s in fn.body if isinstance(s, ast.Return)]
        if len(ret) != 1:
            raise Unsupported(f"{outer}: expected one return")
        return tr.stmts(list(inn[0].body), {})
    return sel


def _sel_sort_table(tr: Tr):
    """[(function, key, reverse)] for the five sort functions: key is an attribute of the session,
    or the name of the inner key function"""
    rows = []
    for name in ("first_come_first_served", "last_come_first_served", "earliest_deadline_first",
                 "least_laxity_first", "largest_remaining_processing_time"):
        fn = _module_func(tr.tree, name)
        ret = [s for s in fn.body if isinstance(s, ast.Return)]
        if len(ret) != 1 or not (isinstance(ret[0].value, ast.Call) and ast.unparse(ret[0].value.func) == "sorted"):
            raise Unsupported(f"{name}: expected `return sorted(evs, key=…)`")
        call = ret[0].value
        if [ast.unparse(a) for a in call.args] != ["evs"]:
            raise Unsupported(f"{name}: sorted over {ast.unparse(call.args[0])}")
        kw = {k.arg: k.value for k in call.keywords}
        if set(kw) - {"key", "reverse"} or "key" not in kw:
            raise Unsupported(f"{name}: sorted keywords {sorted(kw)}")
        key = kw["key"]
        if isinstance(key, ast.Lambda):
            arg = key.args.args[0].arg
            if not (isinstance(key.body, ast.Attribute) and ast.unparse(key.body.value) == arg):
                raise Unsupported(f"{name}: key lambda {ast.unparse(key)}")
            kname = key.body.attr
        elif isinstance(key, ast.Name):
            kname = key.id
        else:
            raise Unsupported(f"{name}: key {ast.unparse(key)}")
        rev = kw.get("reverse")
        if rev is not None and not (isinstance(rev, ast.Constant) and isinstance(rev.value, bool)):
            raise Unsupported(f"{name}: reverse={ast.unparse(rev)}")
        rows.append(f'("{name}", "{kname}", {"true" if (rev is not None and rev.value) else "false"})')
    return "  [" + ", ".join(rows) + "]"


def _sel_prefix(tr: Tr):
    """the straight-line prefix of a path function: its leading run of plain assignments `x = e` to
    distinct local names.  The result is the tuple of the prefix locals that the REST of the function
    reads, in the order in which the rest first reads them (source order; a body of an inner function is
    read where it is defined) — independent of the locals' names and of the order of the assignments."""
    fn, recursive = tr.path_fn()
    if recursive:
        raise Unsupported("prefix of a recursive function")
    env, lets, names = {}, [], []
    body = [st for st in fn.body if not _is_docstring(st)]
    cut = len(body)
    for i, st in enumerate(body):
        if not (isinstance(st, ast.Assign) and len(st.targets) == 1 and isinstance(st.targets[0], ast.Name)):
            cut = i
            break
        k = st.targets[0].id
        if k in names or k in tr.pnames:
            cut = i
            break
        k, v = tr.assign_value(st, env)
        lets.append(f"  let {k} := {v}")
        env[k] = k
        names.append(k)
    order, dead = [], set()

    class _Reads(ast.NodeVisitor):
        def visit_Name(self, n):
            if n.id in names and n.id not in dead:
                if isinstance(n.ctx, ast.Load):
                    if n.id not in order:
                        order.append(n.id)
                else:
                    dead.add(n.id)  # reassigned: later reads see another value

        def visit_Assign(self, n):
            self.visit(n.value)  # the value is evaluated before the targets are bound
            for tg in n.targets:
                self.visit(tg)

        def visit_AugAssign(self, n):
            self.visit(n.value)
            if isinstance(n.target, ast.Name) and n.target.id in names and n.target.id not in dead \
                    and n.target.id not in order:
                order.append(n.target.id)
            self.visit(n.target)

    for st in body[cut:]:
        _Reads().visit(st)
    if not order:
        raise Unsupported("the rest of the function reads none of the leading assignments")
    return "\n".join(lets) + "\n  (" + ", ".join(order) + ")"


class _NpTr(Tr):
    """SCALAR reading of a numpy broadcast expression: the value at one index (one constraint, one
    period).  Shape operations are the identity on it (`np.tile(x, reps)`, `.T`, `np.all` of a single
    Boolean), `np.maximum`/`np.minimum`/`np.abs` are the elementwise `max`/`min`/`abs`, and `x[j]` for the
    index variable `j` of the enclosing `for j, … in enumerate(…)` is the element itself."""
    index_vars = ()

    def call(self, n, env):
        f = ast.unparse(n.func)
        if f in ("np.all", "numpy.all") and len(n.args) == 1 and not n.keywords:
            return self.bexpr(n.args[0], env)
        if f in ("np.tile", "numpy.tile") and len(n.args) == 2 and not n.keywords:
            return self.expr(n.args[0], env)
        if f in ("np.maximum", "numpy.maximum", "np.minimum", "numpy.minimum") and len(n.args) == 2 and not n.keywords:
            fn = "pyMax" if f.endswith("maximum") else "pyMin"
            return f"({fn} {self.expr(n.args[0], env)} {self.expr(n.args[1], env)})"
        if f in ("np.abs", "numpy.abs", "np.absolute") and len(n.args) == 1 and not n.keywords:
            return f"(absK {self.expr(n.args[0], env)})"
        return super().call(n, env)

    def expr(self, n, env):
        if isinstance(n, ast.Attribute) and n.attr == "T" and not (self.t.inputs and ast.unparse(n) in self.t.inputs):
            return self.expr(n.value, env)
        if isinstance(n, ast.Subscript) and isinstance(n.slice, ast.Name) and n.slice.id in self.index_vars \
                and not (self.t.inputs and ast.unparse(n) in self.t.inputs):
            return self.expr(n.value, env)
        return super().expr(n, env)


def _sel_final_return(tr: Tr):
    """the expression of the final `return` of a path function as a function of the plain top-level
    assignments before it.  Statements in between that are NOT part of this reading: guards
    `if …: return <constant>` (no else), and assignments whose value is outside the subset — such a local
    is then unreadable (a use of it is `Unsupported`) unless the target declares the using expression as
    an input."""
    fn, _rec = tr.path_fn()
    body = [st for st in fn.body if not _is_docstring(st)]
    if not body or not isinstance(body[-1], ast.Return) or body[-1].value is None:
        raise Unsupported("the function does not end in `return <expression>`")
    env, lets = {}, []
    for st in body[:-1]:
        if isinstance(st, ast.If):
            od = tr.option_default(st, env)
            if od is not None:
                lets.append(f"  let {od[0]} := {od[1]}")
                env[od[0]] = od[0]
                continue
            if not st.orelse and len(st.body) == 1 and isinstance(st.body[0], ast.Return) \
                    and isinstance(st.body[0].value, ast.Constant):
                continue  # a guard with a constant answer
            raise Unsupported("an `if` before the final return that is neither an Optional default nor a constant guard")
        if isinstance(st, ast.Assign) and len(st.targets) == 1 and isinstance(st.targets[0], ast.Name):
            k = st.targets[0].id
            try:
                k, v = tr.assign_value(st, env)
            except Unsupported:
                if k in tr.pnames:
                    raise
                env.pop(k, None)  # unreadable from here on
                continue
            lets.append(f"  let {k} := {v}")
            env[k] = k
            continue
        raise Unsupported(f"statement {type(st).__name__} before the final return")
    val = tr.bexpr(body[-1].value, env) if tr.t.bool_result else tr.expr(body[-1].value, env)
    return "\n".join(lets + ["  " + val])


def _sel_while_test(tr: Tr):
    """the test of the only `while` of a path function (it must be a top-level statement), over the plain
    assignments before it; an assignment whose value is outside the subset makes that name unreadable"""
    fn, _rec = tr.path_fn()
    body = [st for st in fn.body if not _is_docstring(st)]
    whiles = [m for m in ast.walk(fn) if isinstance(m, ast.While)]
    if len(whiles) != 1 or whiles[0] not in body:
        raise Unsupported("expected exactly one top-level `while`")
    env, lets = {}, []
    for st in body[:body.index(whiles[0])]:
        if not (isinstance(st, ast.Assign) and len(st.targets) == 1):
            raise Unsupported(f"statement {type(st).__name__} before the loop")
        k = tr.target_key(st.targets[0])
        if k == "self":
            raise Unsupported(f"assignment to {ast.unparse(st.targets[0])} before the loop")
        try:
            k, v = tr.assign_value(st, env)
        except Unsupported:
            if k in tr.pnames:
                raise
            env.pop(k, None)
            continue
        lets.append(f"  let {k} := {v}")
        env[k] = k
    return "\n".join(lets + ["  " + tr.bexpr(whiles[0].test, env)])


def _sel_loop_test(linear: bool):
    """utils.py `infrastructure_constraints_feasible`: the scalar form of the test `C` in
    `for j, v in enumerate(infrastructure.constraint_matrix): …; if not np.all(C): return False`
    of the `linear` / phase-aware branch (the top-level `if not linear: … else: …`), over the top-level
    assignments before that `if`"""
    def sel(tr: Tr):
        fn, _rec = tr.path_fn()
        body = [st for st in fn.body if not _is_docstring(st)]
        env, lets = {}, []
        split = None
        for i, st in enumerate(body):
            if isinstance(st, ast.Assign) and len(st.targets) == 1 and isinstance(st.targets[0], ast.Name):
                k, v = tr.assign_value(st, env)
                lets.append(f"  let {k} := {v}")
                env[k] = k
                continue
            split = i
            break
        if split is None or not isinstance(body[split], ast.If) or not body[split].orelse:
            raise Unsupported("expected `if [not] linear: … else: …` after the leading assignments")
        iff = body[split]
        if [type(x) for x in body[split + 1:]] != [ast.Return] or not (
                isinstance(body[-1].value, ast.Constant) and body[-1].value.value is True):
            raise Unsupported("expected `return True` after the two loops")
        t = iff.test
        if isinstance(t, ast.UnaryOp) and isinstance(t.op, ast.Not) and ast.unparse(t.operand) == "linear":
            branch = iff.orelse if linear else iff.body
        elif ast.unparse(t) == "linear":
            branch = iff.body if linear else iff.orelse
        else:
            raise Unsupported(f"branch condition {ast.unparse(t)}")
        loops = [x for x in branch if isinstance(x, ast.For)]
        if len(loops) != 1 or any(isinstance(x, (ast.Return, ast.Raise, ast.While, ast.If)) for x in branch):
            raise Unsupported("expected exactly one `for` loop (and no other control flow) in the branch")
        loop = loops[0]
        if loop.orelse or not (isinstance(loop.target, ast.Tuple) and len(loop.target.elts) == 2
                               and all(isinstance(e, ast.Name) for e in loop.target.elts)
                               and isinstance(loop.iter, ast.Call) and ast.unparse(loop.iter.func) == "enumerate"
                               and len(loop.iter.args) == 1 and not loop.iter.keywords):
            raise Unsupported("expected `for j, v in enumerate(…)`")
        j = loop.target.elts[0].id
        tests = [x for x in loop.body if isinstance(x, ast.If)]
        if len(tests) != 1 or any(isinstance(m, (ast.Return, ast.Raise, ast.Break, ast.Continue))
                                  for x in loop.body if not isinstance(x, ast.If) for m in ast.walk(x)):
            raise Unsupported("expected exactly one `if` (the only exit) in the loop body")
        test = tests[0]
        if test.orelse or len(test.body) != 1 or not (isinstance(test.body[0], ast.Return)
                and isinstance(test.body[0].value, ast.Constant) and test.body[0].value.value is False):
            raise Unsupported("expected `if not np.all(…): return False`")
        c = test.test
        if not (isinstance(c, ast.UnaryOp) and isinstance(c.op, ast.Not) and isinstance(c.operand, ast.Call)
                and ast.unparse(c.operand.func) in ("np.all", "numpy.all")):
            raise Unsupported("expected `if not np.all(…): return False`")
        # locals assigned in the loop body shadow nothing we translated
        for x in loop.body:
            for m in ast.walk(x):
                if isinstance(m, ast.Name) and isinstance(m.ctx, ast.Store) and m.id in env:
                    raise Unsupported(f"the loop reassigns {m.id}")
        tr.index_vars = (j,)
        return "\n".join(lets + ["  " + tr.bexpr(c.operand, env)])
    return sel


FIT_PATH = ("batt_cap_fn", "_get_init_cap")
FIT_OUTER = [("^requested_energy", "requested_energy", "K"), ("^stay_dur", "stay_dur", "K"),
             ("^voltage", "voltage", "K"), ("^period", "period", "K")]
FIT_OWN = [("battery_cap", "battery_cap", "K"), ("max_rate", "max_rate", "K"),
           ("transition_soc", "transition_soc", "K")]

TARGETS = [
    Target("battery_charge", BATT, "Battery", "charge", self_type="Batt K", params=PVT, kind="method",
           attrs=BATT_ATTRS, props=BATT_PROPS, err_type="Battery.Err", errs={"ValueError": ".valueError"},
           doc="Battery.charge"),
    Target("l2s_charge", BATT, "Linear2StageBattery", "_charge", self_type="Batt K",
           params=PVT + [("$nu", "ν", "K")], kind="method", attrs=BATT_ATTRS, props=BATT_PROPS,
           err_type="Battery.Err", errs={"ValueError": ".valueError"}, noise=("ν", "self.noiseLevel"),
           doc="Linear2StageBattery._charge"),
    Target("l2s_charge_stepwise", BATT, "Linear2StageBattery", "_charge_stepwise", self_type="Batt K",
           params=PVT + [("$nu", "ν", "K")], kind="method", attrs=BATT_ATTRS, props=BATT_PROPS,
           err_type="Battery.Err", errs={"ValueError": ".valueError"}, noise=("ν", "self.noiseLevel"),
           doc="Linear2StageBattery._charge_stepwise"),
    Target("battery_reset", BATT, "Battery", "reset", self_type="Batt K",
           params=[("init_charge", "init_charge", "Option K")], kind="method", unit=True, attrs=BATT_ATTRS,
           props=BATT_PROPS, err_type="Battery.Err", errs={"ValueError": ".valueError"}, select=_sel_reset,
           doc="Battery.reset"),
    Target("ev_charge", EVPY, "EV", "charge", self_type="Evse.Ev K", params=PVT + [("$nu", "ν", "K")], kind="method",
           attrs={"_energy_delivered": "self.delivered", "_current_charging_rate": "self.rate"},
           err_type="Battery.Err", errs={},
           calls={"self._battery.charge": {"lean": "Battery.charge self.batt", "state": "batt", "extra": "ν"}},
           doc="EV.charge"),
    Target("ev_fully_charged", EVPY, "EV", "fully_charged", self_type="Evse.Ev K", params=[], ret="Bool",
           kind="pure", bool_result=True,
           attrs={"requested_energy": "self.requested", "energy_delivered": "self.delivered"},
           props={"remaining_demand": ("EV", "remaining_demand")}, doc="EV.fully_charged", group="Sim"),
    Target("evse_valid_rate", EVSEPY, "EVSE", "_valid_rate", params=[("$mn", "minRate", "K"), ("$mx", "maxRate", "K"),
           ("pilot", "pilot", "K"), ("atol", "atol", "K")], ret="Bool", kind="pure", bool_result=True,
           attrs={"min_rate": "minRate", "max_rate": "maxRate"}, doc="EVSE._valid_rate (finite max_rate)", group="Evse"),
    Target("deadband_valid_rate", EVSEPY, "DeadbandEVSE", "_valid_rate",
           params=[("$db", "dbEnd", "K"), ("$mx", "maxRate", "K"), ("pilot", "pilot", "K"), ("atol", "atol", "K")],
           ret="Bool", kind="pure", bool_result=True,
           attrs={"_deadband_end": "dbEnd", "max_rate": "maxRate"}, doc="DeadbandEVSE._valid_rate (finite max_rate)", group="Evse"),
    Target("finite_valid_rate", EVSEPY, "FiniteRatesEVSE", "_valid_rate",
           params=[("$rates", "rates", "List K"), ("pilot", "pilot", "K"), ("atol", "atol", "K")],
           ret="Bool", kind="pure", bool_result=True, attrs={"allowable_rates": "rates"},
           doc="FiniteRatesEVSE._valid_rate", group="Evse"),
    Target("sim_needs_schedule", "acnportal/acnsim/simulator.py", "Simulator", "run",
           params=[("$r", "resolve", "Bool"), ("$m", "maxRecompute", "Option Nat"), ("$u", "lastUpd", "Option Int"),
                   ("$i", "iter", "Nat")], ret="Bool", kind="pure", select=_sel_trigger,
           doc="the recompute trigger of Simulator.run", group="Sim"),
    Target("amp_periods", "acnportal/acnsim/interface.py", "Interface", "_convert_to_amp_periods",
           params=[("kwh", "kwh", "K"), ("$v", "voltage", "K"), ("$p", "period", "K")], ret="K", kind="pure",
           attrs={"period": "period"}, select=_sel_amp_periods, doc="Interface._convert_to_amp_periods", group="Sorted"),
    Target("laxity_key", SORTED, None, "least_laxity_first",
           params=[("$d", "estDeparture", "Int"), ("$t", "time", "Int"), ("$r", "rap", "K"), ("$m", "maxPilot", "K")],
           ret="K", kind="pure", select=_sel_inner("least_laxity_first", "laxity"), extra_binders="[IntCast K]",
           doc="least_laxity_first.laxity", group="Sorted"),
    Target("rpt_key", SORTED, None, "largest_remaining_processing_time",
           params=[("$r", "rap", "K"), ("$m", "maxPilot", "K")], ret="K", kind="pure",
           select=_sel_inner("largest_remaining_processing_time", "remaining_processing_time"),
           doc="largest_remaining_processing_time.remaining_processing_time", group="Sorted"),
    Target("sort_table", SORTED, None, "sorted", params=[], ret="List (String × String × Bool)", kind="pure",
           select=_sel_sort_table, doc="the five sort functions: (function, key, reverse)", group="SortTable"),
    # ---- group Fit (C15): the two-stage capacity fit of battery.py `batt_cap_fn`.  Inner functions come
    # first: an outer function can only call inner functions that were translated before it.
    Target("fit_delta_soc", BATT, None, "delta_soc_from_init_soc", path=FIT_PATH + ("delta_soc_from_init_soc",),
           params=[("^stay_dur", "stay_dur", "K"), ("^transition_soc", "transition_soc", "K"),
                   ("^max_dsoc", "max_dsoc", "K"), ("init_soc_guess", "init_soc_guess", "K")],
           ret="K", kind="pure", doc="batt_cap_fn._get_init_cap.delta_soc_from_init_soc", group="Fit"),
    Target("fit_binsearch", BATT, None, "binsearch", path=FIT_PATH + ("binsearch",),
           params=[("f", "f", "K → K"), ("lb", "lb", "K"), ("ub", "ub", "K"), ("target", "target", "K"),
                   ("tol", "tol", "K")],
           ret="K", kind="except", fuel=True, rec_err=".recursion", err_type="Sessions.Err",
           doc="batt_cap_fn._get_init_cap.binsearch (Python recursion depth = fuel)", group="Fit"),
    Target("fit_closed_init_soc", BATT, None, "_get_init_cap", path=FIT_PATH, params=FIT_OUTER + FIT_OWN,
           ret="K × K × K", kind="pure", select=_sel_prefix,
           doc="batt_cap_fn._get_init_cap: the closed-form prefix (init_soc, max_dsoc, delta_soc: the order in which the rest reads them)", group="Fit"),
    Target("fit_get_init_cap", BATT, None, "_get_init_cap", path=FIT_PATH, params=FIT_OUTER + FIT_OWN,
           ret="K", kind="except", fuel=True, err_type="Sessions.Err",
           doc="batt_cap_fn._get_init_cap", group="Fit"),
    Target("fit_batt_cap_fn", BATT, None, "batt_cap_fn", path=("batt_cap_fn",),
           params=[("requested_energy", "requested_energy", "K"), ("stay_dur", "stay_dur", "K"),
                   ("voltage", "voltage", "K"), ("period", "period", "K")],
           ret="K × K", kind="except", fuel=True, err_type="Sessions.Err", errs={"ValueError": ".valueError"},
           doc="batt_cap_fn: the ladder of candidate capacities", group="Fit"),
]

TARGETS += [
    # ---- group Net (C06): the scalar limit test of the two feasibility checkers
    Target("net_limit_test", "acnportal/acnsim/network/charging_network.py", None, "is_feasible",
           path=("ChargingNetwork", "is_feasible"),
           params=[("$lim", "lim", "K"), ("$nvt", "net_vt", "K"), ("$nrt", "net_rt", "K"), ("$mag", "mag", "K"),
                   ("schedule_matrix", "_", "-"), ("linear", "_", "-"),
                   ("violation_tolerance", "violation_tolerance", "Option K"),
                   ("relative_tolerance", "relative_tolerance", "Option K")],
           attrs={"magnitudes": "lim", "violation_tolerance": "net_vt", "relative_tolerance": "net_rt"},
           inputs={"np.abs(aggregate_currents)": "mag"}, ret="Bool", kind="pure", bool_result=True,
           select=_sel_final_return,
           doc="ChargingNetwork.is_feasible: scalar form (one constraint `lim`, one period, |aggregate current| = `mag`) "
               "of the final comparison", group="Net"),
    Target("alg_limit_test", "acnportal/algorithms/utils.py", None, "infrastructure_constraints_feasible",
           path=("infrastructure_constraints_feasible",),
           params=[("$lim", "lim", "K"), ("$mag", "mag", "K"), ("rates", "_", "-"), ("infrastructure", "_", "-"),
                   ("linear", "_", "-"), ("violation_tolerance", "violation_tolerance", "K"),
                   ("relative_tolerance", "relative_tolerance", "K")],
           attrs={"infrastructure.constraint_limits": "lim"}, inputs={"line_currents": "mag"},
           ret="Bool", kind="pure", bool_result=True, select=_sel_loop_test(False),
           doc="infrastructure_constraints_feasible: scalar form of the per-constraint test, phase-aware branch",
           group="Net"),
    Target("alg_limit_test_linear", "acnportal/algorithms/utils.py", None, "infrastructure_constraints_feasible",
           path=("infrastructure_constraints_feasible",),
           params=[("$lim", "lim", "K"), ("$mag", "mag", "K"), ("rates", "_", "-"), ("infrastructure", "_", "-"),
                   ("linear", "_", "-"), ("violation_tolerance", "violation_tolerance", "K"),
                   ("relative_tolerance", "relative_tolerance", "K")],
           attrs={"infrastructure.constraint_limits": "lim"}, inputs={"line_currents": "mag"},
           ret="Bool", kind="pure", bool_result=True, select=_sel_loop_test(True),
           doc="infrastructure_constraints_feasible: scalar form of the per-constraint test, linear branch",
           group="Net"),
]
ANPY = "acnportal/acnsim/analysis/__init__.py"
AN_EVS = {"list": "evs", "attrs": {"requested_energy": "requested", "energy_delivered": "delivered"},
          "props": {"remaining_demand": (EVPY, "EV", "remaining_demand")}}
AN_COLLS = {"sim.ev_history.values()": AN_EVS, "sim.ev_history": AN_EVS}
AN_SIM = [("sim", "evs", "List (Analysis.Ev K)")]
TARGETS += [
    # ---- group Analysis (C18): the energy metrics of analysis/__init__.py over `sim.ev_history`
    Target("an_total_delivered", ANPY, None, "total_energy_delivered", path=("total_energy_delivered",),
           params=AN_SIM, colls=AN_COLLS, ret="K", kind="pure", doc="total_energy_delivered", group="Analysis"),
    Target("an_total_requested", ANPY, None, "total_energy_requested", path=("total_energy_requested",),
           params=AN_SIM, colls=AN_COLLS, ret="K", kind="pure", doc="total_energy_requested", group="Analysis"),
    Target("an_proportion_delivered", ANPY, None, "proportion_of_energy_delivered",
           path=("proportion_of_energy_delivered",), params=AN_SIM, colls=AN_COLLS, ret="K", kind="pure",
           doc="proportion_of_energy_delivered (Python raises ZeroDivisionError on a zero total)", group="Analysis"),
    Target("an_demands_met", ANPY, None, "proportion_of_demands_met", path=("proportion_of_demands_met",),
           params=AN_SIM + [("threshold", "threshold", "K")], colls=AN_COLLS, ret="K", kind="pure",
           doc="proportion_of_demands_met (Python raises ZeroDivisionError without sessions)", group="Analysis"),
]
TARGETS += [
    # ---- group Queue (C11, C01): the order of heap entries with equal timestamps, and the loop test of
    # `get_current_events`
    Target("event_lt", "acnportal/acnsim/events/event.py", None, "__lt__", path=("Event", "__lt__"),
           self_type="Event", params=[("other", "other", "Event")],
           attrs={"precedence": "self.kind.prec", "other.precedence": "other.kind.prec"},
           ret="Bool", kind="pure", bool_result=True, doc="Event.__lt__", group="Queue"),
    Target("queue_loop_cond", "acnportal/acnsim/events/event_queue.py", None, "get_current_events",
           path=("EventQueue", "get_current_events"),
           params=[("$n", "qlen", "Nat"), ("$h", "headTs", "Int"), ("timestep", "timestep", "Int")],
           attrs={"_timestep": "@"}, props={"empty": ("EventQueue", "empty")},
           inputs={"len(self._queue)": "qlen", "self._queue[0][0]": "headTs"},
           ret="Bool", kind="pure", bool_result=True, select=_sel_while_test,
           doc="EventQueue.get_current_events: the loop test over (len(_queue), _queue[0][0], timestep)",
           group="Queue"),
]
TARGETS += [
    # ---- group Tariff (C17): which schedules `_get_tariff_schedule` considers valid for a date
    Target("tariff_valid_schedules", "acnportal/signals/tariffs/tou_tariff.py", None, "_get_tariff_schedule",
           path=("TimeOfUseTariff", "_get_tariff_schedule"),
           params=[("$l", "l", "List (Tariff.Schedule K)"), ("$md", "md", "Nat × Nat"), ("$wd", "wd", "Nat"),
                   ("date_time", "_", "-")],
           colls={"self._schedule": {"list": "l", "attrs": {"start": "start", "end": "stop"},
                                     "types": {"start": "Nat × Nat", "end": "Nat × Nat"},
                                     "index": {"dow_mask[date_time.weekday()]": "mask.getD wd false"}}},
           inputs={"(date_time.month, date_time.day)": "md"},
           ret="List (Tariff.Schedule K)", kind="pure", select=_sel_prefix,
           doc="TimeOfUseTariff._get_tariff_schedule: the list of schedules valid on (month, day) = `md`, "
               "weekday `wd` (`dow_mask[wd]` read as `mask.getD wd false`)", group="Tariff"),
]
# ======================================================================================================
# T1c, second part — STATEFUL methods (event queue, EVSE plug/unplug, network plug/unplug, _process_event)
#
# A method is translated as a function of an explicit `self` RECORD (the attributes it reads / writes, declared
# per Lean type in OTYPES) that returns the updated record; `raise` is `.error .<PythonExceptionClass>` in the
# generated enum `PyErr`.  The shape of the result is declared per target by `sig=(mut, exc, ret)`:
#     mut exc ret     Self × Except PyErr ret            mut exc -      Self × Except PyErr Unit
#     mut  -  ret     Self × ret                         mut  -  -      Self
#      -  exc ret     Except PyErr ret                    -   -  ret    ret
# (a method that changes its object returns the object AS IT IS WHEN IT RAISES together with the error: what was
# assigned before a `raise`, or before a callee raised, stays assigned — Python keeps it)
# and the translator REFUSES a body that does more than the declaration allows (assigns an attribute / calls a
# mutating method although `mut` is false; may raise although `exc` is false).
#
#   statements   docstrings, `warnings.warn`, `pass`, declared no-op calls (`self._print("…")`)      skipped
#                `x = e`, `self.a = e`, `d[k] = e` (mapped dict), `xs.append(e)` (local list)
#                `return [e]`, `raise E(...)`
#                `if / elif / else` (any mixture of falling through, returning, raising: the REST of the
#                 function is continued in both branches), nothing is remembered about a test: `x.a` after
#                 `if x is not None` reads `x` again, `AttributeError` if it is None, as Python does
#                `for x in <list>: BODY` and `while c: BODY` (BODY without return / break / continue): an
#                 auxiliary definition by recursion on the list / on `fuel`, carrying `self` and the locals
#                 the body assigns; `.error .fuel` when the fuel of a `while` runs out (not a Python outcome:
#                 the tie theorems show it is not reached for the fuel they name)
#   expressions  evaluated in Python's order; every PARTIAL operation (index into a list, dict lookup, attribute
#                of an Optional that is None, `max` of an empty list, a raising callee) and every MUTATING call
#                is hoisted into a binding in front of the statement (A-normal form); the right operands of
#                `and` / `or` are only evaluated when Python evaluates them (nested `match`), and may not mutate.
#                `len`, `==`/`!=`/`<`/`<=`/`>`/`>=` (typed: Nat / Int / String / K), `in` a mapped dict,
#                `is [not] None`, `not`, `and`, `or`, tuples of a declared entry type `(ts, event)` and their
#                `[0]` / `[1]`, `max(xs, key=lambda x: …)`, list comprehensions over a list / `d.values()`,
#                attribute reads through OTYPES, `@property` reads (inlined from their own single-`return`
#                body), calls of translated methods of `self` / of an attribute / of a dict element / of a
#                Optional attribute (`AttributeError` if it is None; the callee's updated state is written back to where the receiver
#                was read from), declared external calls (`heapq.heappush/heappop` ↦ `Heap.heappush/heappop` of
#                AcnModel/Queue.lean), declared constructors, and methods of an ABSTRACT receiver (`self.network.
#                plugin(..)`) as function PARAMETERS of the definition.
#   added for group StochOps (contrib StochasticNetwork, C19):
#                `self.n += e` on a numeric attribute; `del d[k]`, `d.move_to_end(k)`, `a, b = d.popitem(last=<literal>)`
#                on a mapped (Ordered)dict (KeyError when Python raises it; `dictDel / dictMoveToEnd / dictPopFirst? /
#                dictPopLast?` of CodePreludeStoch); dict keys of type Optional[str] (`None in d` is False, `d[None]` is
#                KeyError, `d[None] = v` is refused); `[… for k, v in d.items() if …]`; `super().m(..)` ↦ the target
#                declared under "super_methods" of the object's type; trailing parameters left to a `= None` default;
#                `random.choice(xs)` ↦ `pyChoice ρ xs` where the draw `ρ` is a declared INPUT (one call per method);
#                method calls on a LOCAL the method owns — an object it has just taken out of a container with
#                `popitem` — until the local's value is stored / passed on; IN-OUT parameters (`inout=("ev",)`: the
#                caller's object is mutated, the translation returns `(self, ev) × Except PyErr _`).
#   semantics    VALUE semantics: an object reachable through two access paths is two copies; none of the targets
#                mutates such an object inside the translated method (the ownership rule above refuses a mutation
#                after the value was handed on).  Nothing is guessed: whatever is not listed
#                raises `Unsupported`, the definition is not emitted and its tie stops compiling.
# ======================================================================================================

import re as _re

PYERRS = ["IndexError", "KeyError", "ValueError", "AttributeError", "TypeError", "ZeroDivisionError",
          "StationOccupiedError", "InvalidRateError"]

PRELUDE = '''/- GENERATED (fixed text) by harness/translate_code.py — do not edit.
   How Python objects are represented in the translations of STATEFUL methods (T1c, DESIGN §17):
   exception classes, heap entries `(timestamp, event)`, `dict` as an insertion-ordered association list,
   `max(xs, key=…)`, and the records standing for `ChargingNetwork` / `Simulator` objects. -/
import AcnModel.Evse
import AcnModel.Queue

namespace Acn.Gen.Code
open Acn

/-- the Python exception classes a translated method can raise.  `fuel` is NOT a Python outcome: the bound
    of a translated `while` loop was reached (the tie theorems name a fuel for which it is not). -/
inductive PyErr
  | IndexError | KeyError | ValueError | AttributeError | TypeError | ZeroDivisionError
  | StationOccupiedError | InvalidRateError | fuel
  deriving DecidableEq, Repr, Inhabited

/-- `heappop` of an empty list -/
def qErrToPy : QErr → PyErr
  | .indexError => .IndexError

/-- what `Battery.charge` raises -/
def battErrToPy : Battery.Err → PyErr
  | .valueError => .ValueError
  | .zeroDivision => .ZeroDivisionError

/-- the heap entry `(ts, event)` of `EventQueue._queue`; the model keeps the entry's timestamp in the event -/
def pyEntry (ts : Int) (e : Event) : Event := { e with ts := ts }
/-- `entry[1]` -/
def entryEvent (e : Event) : Event := e
/-- `entry[0]` -/
def entryTs (e : Event) : Int := e.ts

/-- `d[k]` / `k in d` / `d.get(k)` on a `dict` with `str` keys kept as an association list in insertion order -/
def dictGet? {β : Type} : List (String × β) → String → Option β
  | [], _ => none
  | (k', v) :: r, k => if k' = k then some v else dictGet? r k

/-- `d[k] = v`: a known key keeps its position, a new key is appended -/
def dictSet {β : Type} : List (String × β) → String → β → List (String × β)
  | [], k, v => [(k, v)]
  | (k', v') :: r, k, v => if k' = k then (k, v) :: r else (k', v') :: dictSet r k v

/-- `d.values()` -/
def dictValues {β : Type} (d : List (String × β)) : List β := d.map (·.2)

/-- `max(xs, key=f)`: the FIRST maximal element (`None` stands for the `ValueError` of an empty argument) -/
def pyMaxBy {α β : Type} [LT β] [DecidableLT β] (key : α → β) : List α → Option α
  | [] => none
  | x :: xs => some (xs.foldl (fun best y => if key best < key y then y else best) x)

/-- `[f(x) for x in xs if c(x)]` where `c` / `f` may raise: `f x = .ok none` drops the element -/
def pyComp {α β : Type} (f : α → Except PyErr (Option β)) : List α → Except PyErr (List β)
  | [] => .ok []
  | x :: xs =>
    match f x with
    | .error e => .error e
    | .ok o =>
      match pyComp f xs with
      | .error e => .error e
      | .ok r => .ok (match o with | some y => y :: r | none => r)

/-- `UnplugEvent(timestamp, ev)` -/
def pyUnplugEvent {K : Type} (ts : Int) (ev : Evse.Ev K) : Event := ⟨ts, .unplug, ev.session⟩

/-- a `ChargingNetwork`, as far as plug-in / unplug go: `_EVSEs` -/
structure PyNet (K : Type) where
  evses : List (String × Evse.Evse K)

/-- an event as `_process_event` sees it: the queue's event plus the `ev` attribute of Plugin / Unplug events -/
structure PyEvent (K : Type) where
  base : Event
  ev : Evse.Ev K

/-- a `Simulator`, as far as `_process_event` goes; `σ` is the network object, `τ` the event queue object -/
structure PySim (K σ τ : Type) where
  network : σ
  queue : τ
  evHistory : List (String × Evse.Ev K)
  resolve : Bool
  lastUpd : Option Int

end Acn.Gen.Code
'''

PRELUDE_STOCH = '''/- GENERATED (fixed text) by harness/translate_code.py — do not edit.
   Representation of the objects of contrib/acnsim/network/stochastic_network.py in the translations of group
   StochOps (T1c, DESIGN §17): an EV whose `station_id` may be None, an EVSE holding such an EV, the network with its
   `waiting_queue` (an OrderedDict: association list in insertion order), and the OrderedDict / random operations. -/
import AcnModel.Gen.CodePrelude

namespace Acn.Gen.Code
open Acn

/-- `d.items()` -/
def dictItems {β : Type} (d : List (String × β)) : List (String × β) := d

/-- `del d[k]` (the caller has checked that the key is there) -/
def dictDel {β : Type} : List (String × β) → String → List (String × β)
  | [], _ => []
  | (k', v) :: r, k => if k' = k then r else (k', v) :: dictDel r k

/-- `OrderedDict.move_to_end(k)`: the entry of `k` leaves its position and is appended -/
def dictMoveToEnd {β : Type} (d : List (String × β)) (k : String) : List (String × β) :=
  match dictGet? d k with
  | none => d
  | some v => dictDel d k ++ [(k, v)]

/-- `OrderedDict.popitem(last=False)`: the OLDEST entry and the rest (`none`: KeyError of an empty dict) -/
def dictPopFirst? {β : Type} : List (String × β) → Option ((String × β) × List (String × β))
  | [] => none
  | kv :: r => some (kv, r)

/-- `dict.popitem()` / `OrderedDict.popitem(last=True)`: the NEWEST entry and the rest -/
def dictPopLast? {β : Type} (d : List (String × β)) : Option ((String × β) × List (String × β)) :=
  match d.getLast? with
  | none => none
  | some kv => some (kv, d.dropLast)

/-- `random.choice(xs)` is `xs[randbelow(len(xs))]` (IndexError for an empty sequence); the draw is the INPUT `ρ`,
    any natural number, reduced modulo the length -/
def pyChoice {α : Type} (ρ : Nat) (xs : List α) : Except PyErr α :=
  match xs[ρ % xs.length]? with
  | none => .error .IndexError
  | some x => .ok x

/-- an `EV` as far as the stochastic network goes: `station_id` may be None (waiting) -/
structure PyStEv (K : Type) where
  session : String
  station : Option String
  requested : K
  delivered : K

/-- a `BaseEVSE` holding such an EV -/
structure PyStEvse (K : Type) where
  station : String
  ev : Option (PyStEv K)
  pilot : K

/-- a `StochasticNetwork`: `_EVSEs`, `waiting_queue`, the constructor flag and the three counters -/
structure PyStNet (K : Type) where
  evses : List (String × PyStEvse K)
  waiting : List (String × PyStEv K)
  earlyDeparture : Bool
  swaps : Nat
  neverCharged : Nat
  earlyUnplug : Nat

end Acn.Gen.Code
'''

_KW = {"end", "at", "from", "fun", "match", "with", "then", "else", "if", "do", "in", "let", "have", "show", "by",
       "open", "where", "def", "theorem", "instance", "structure", "class", "deriving", "namespace", "section",
       "variable", "universe", "import", "export", "Type", "Prop", "Sort", "x", "fuel", "rest'"}


def _lname(py):
    return py + "'" if py in _KW else py


def _unparen(s):
    s = s.strip()
    if s.startswith("(") and s.endswith(")"):
        depth = 0
        for i, c in enumerate(s):
            depth += c == "("
            depth -= c == ")"
            if depth == 0 and i < len(s) - 1:
                return s
        return s[1:-1].strip()
    return s


def _targ(ty, head):
    """the argument of a unary type constructor application, e.g. _targ("Option (Evse.Ev K)", "Option")"""
    ty = ty.strip()
    if ty.startswith(head + " "):
        return _unparen(ty[len(head) + 1:])
    return None


def _paren(ty):
    return ty if _re.fullmatch(r"[\w.']+", ty) else f"({ty})"


def _lean_ty(ty):
    """the Lean spelling of a translator-level type"""
    d = _targ(ty, "Dict")
    if d is not None:
        return f"List (String × {_lean_ty(d)})"
    for h in ("Option", "List", "Array"):
        a = _targ(ty, h)
        if a is not None:
            return f"{h} {_paren(_lean_ty(a))}"
    return OTYPES.get(ty, {}).get("repr", ty)


QPY = "acnportal/acnsim/events/event_queue.py"
NETPY = "acnportal/acnsim/network/charging_network.py"
SIMPY = "acnportal/acnsim/simulator.py"

# Lean-side types of Python objects: attributes (python attribute -> (lean field path, type)), properties
# (python @property -> (file, class) in which it is defined; inlined from its single-`return` body), methods
# (python method -> lean name of a translated target, or an external specification)
OTYPES = {
    "Entry": {"repr": "Event", "tuple": ["Int", "Event"], "mk": "(pyEntry {0} {1})",
              "get": ["(entryTs {0})", "(entryEvent {0})"]},
    "Event": {"attrs": {"timestamp": ("ts", "Int"), "event_type": ("kind.name", "String")}},
    "Queue.State": {"attrs": {"_queue": ("heap", "Array Entry"), "_timestep": ("timestep", "Int")},
                    "methods": {"__len__": "queue_len", "empty": "queue_empty", "add_event": "queue_add_event",
                                "add_events": "queue_add_events", "get_event": "queue_get_event",
                                "get_current_events": "queue_get_current_events",
                                "get_last_timestamp": "queue_get_last_timestamp"}},
    "Evse.Ev K": {"attrs": {"_station_id": ("station", "String"), "_session_id": ("session", "String"),
                            "_arrival": ("arrival", "Int"), "_departure": ("departure", "Int"),
                            "_requested_energy": ("requested", "K"), "_energy_delivered": ("delivered", "K")},
                  "props": {"station_id": (EVPY, "EV"), "session_id": (EVPY, "EV"), "arrival": (EVPY, "EV"),
                            "departure": (EVPY, "EV"), "requested_energy": (EVPY, "EV"),
                            "energy_delivered": (EVPY, "EV"), "remaining_demand": (EVPY, "EV"),
                            "fully_charged": (EVPY, "EV")},
                  "methods": {"charge": {"lean": "Evse.Ev.charge {recv}", "args": ["K", "K", "K"], "extra": ["ν"],
                                         "mut": True, "exc": "battErrToPy", "ret": None}}},
    "Evse.Evse K": {"attrs": {"_ev": ("ev", "Option (Evse.Ev K)"), "_current_pilot": ("pilot", "K"),
                              "_station_id": ("station", "String")},
                    "props": {"ev": (EVSEPY, "BaseEVSE"), "station_id": (EVSEPY, "BaseEVSE"),
                              "current_pilot": (EVSEPY, "BaseEVSE")},
                    "methods": {"plugin": "evse_plugin", "unplug": "evse_unplug", "set_pilot": "evse_set_pilot",
                                # the abstract `_valid_rate(pilot)` (subclass dispatch, default `atol`): the model's
                                # `validRate` on the EVSE's class, tied per class in CodeTieEvse
                                "_valid_rate": {"lean": "Evse.validRate atol fixedAtol {recv}.kind", "args": ["K"],
                                                "mut": False, "exc": None, "ret": "Bool"}}},
    "PyNet K": {"attrs": {"_EVSEs": ("evses", "Dict (Evse.Evse K)")},
                "methods": {"plugin": "net_plugin", "unplug": "net_unplug", "get_ev": "net_get_ev"}},
    "PyEvent K": {"attrs": {"timestamp": ("base.ts", "Int"), "event_type": ("base.kind.name", "String"),
                            "ev": ("ev", "Evse.Ev K")}},
    # the network and the queue of a Simulator are ABSTRACT here: their methods are parameters of the translation
    "σ": {"methods": {"plugin": {"lean": "netPlugin {recv}", "args": ["Evse.Ev K"], "mut": True, "exc": "id", "ret": None,
                                 "stateful": True},
                      "unplug": {"lean": "netUnplug {recv}", "args": ["String", "Option String"], "mut": True,
                                 "exc": "id", "ret": None, "stateful": True}}},
    "τ": {"methods": {"add_event": {"lean": "queueAdd {recv}", "args": ["Event"], "mut": True, "exc": None, "ret": None}}},
    # contrib/acnsim/network/stochastic_network.py (group StochOps): an EV whose station may be None, its EVSE, the network
    "PyStEv K": {"attrs": {"_station_id": ("station", "Option String"), "_session_id": ("session", "String"),
                           "_requested_energy": ("requested", "K"), "_energy_delivered": ("delivered", "K")},
                 "props": {"station_id": (EVPY, "EV"), "session_id": (EVPY, "EV"), "requested_energy": (EVPY, "EV"),
                           "energy_delivered": (EVPY, "EV"), "remaining_demand": (EVPY, "EV"),
                           "fully_charged": (EVPY, "EV")},
                 "methods": {"update_station_id": "stev_update_station_id"}},
    "PyStEvse K": {"attrs": {"_ev": ("ev", "Option (PyStEv K)"), "_current_pilot": ("pilot", "K"),
                             "_station_id": ("station", "String")},
                   "props": {"ev": (EVSEPY, "BaseEVSE"), "station_id": (EVSEPY, "BaseEVSE"),
                             "current_pilot": (EVSEPY, "BaseEVSE")},
                   "methods": {"plugin": "stevse_plugin", "unplug": "stevse_unplug"}},
    "PyStNet K": {"attrs": {"_EVSEs": ("evses", "Dict (PyStEvse K)"), "waiting_queue": ("waiting", "Dict (PyStEv K)"),
                            "early_departure": ("earlyDeparture", "Bool"), "swaps": ("swaps", "Nat"),
                            "never_charged": ("neverCharged", "Nat"), "early_unplug": ("earlyUnplug", "Nat")},
                  "methods": {"available_evses": "stnet_available_evses", "plugin": "stnet_plugin",
                              "unplug": "stnet_unplug", "post_charging_update": "stnet_post_charging_update"},
                  # `super().plugin(ev)`: ChargingNetwork.plugin, translated again on this representation
                  "super_methods": {"plugin": "stnet_base_plugin"}},
    "PySim K σ τ": {"attrs": {"network": ("network", "σ"), "event_queue": ("queue", "τ"),
                              "ev_history": ("evHistory", "Dict (Evse.Ev K)"), "_resolve": ("resolve", "Bool"),
                              "_last_schedule_update": ("lastUpd", "Option Int")}},
}

# external functions / constructors by their dotted source name.  `place` arguments are mutated in place by the
# Python function: the Lean function returns the new value, which is written back
EXTCALLS = {
    "heapq.heappush": {"lean": "Heap.heappush Event.keyLt", "args": ["place:Array Entry", "Entry"], "exc": None,
                       "ret": None},
    "heapq.heappop": {"lean": "Heap.heappop Event.keyLt", "args": ["place:Array Entry"], "exc": "qErrToPy",
                      "ret": "Entry", "order": "value_state"},
    # the result of `random.choice` is an input: the draw `ρ` (one call per translated method)
    "random.choice": {"lean": "pyChoice ρ", "args": ["List String"], "exc": "id", "ret": "String", "draw": "ρ"},
    "UnplugEvent": {"lean": "pyUnplugEvent", "args": ["Int", "Evse.Ev K"], "exc": None, "ret": "Event"},
}


class _Env:
    def __init__(self, vars=None):
        self.vars = dict(vars or {})      # python name -> (lean name, type | [type] for a local)

    def copy(self):
        return _Env(self.vars)


class _Place:
    def __init__(self, read, ty, write=None):
        self.read, self.ty, self.write = read, ty, write


class STr:
    """translator of one stateful method (kind 'state')"""

    def __init__(self, target, source, tree, done=None):
        self.t = _resolved(target, tree)
        self.source, self.tree = source, tree
        self.done = done if done is not None else {}
        self.aux = []
        self.n = 0
        self.ltys = {}       # local name -> [type]  (a list so that `List ?` can be refined in place)
        self.mut, self.exc, self.ret = self.t.sig
        self.rd_self = "self"   # what `self` reads as (a property of another object is inlined with it rebound)
        self.fresh = set()      # locals holding a list CREATED here (`[]`, a comprehension) that nobody else can see yet
        # IN-OUT parameters (objects of the caller that the method mutates: `ev.update_station_id(..)` in
        # StochasticNetwork.plugin): they are returned next to `self`, `(self, ev) × Except PyErr _`
        self.inout = [p for p in self.t.params if p[0] in getattr(self.t, "inout", ())]
        # locals / parameters this method may MUTATE under value semantics: in-out parameters, and objects it has just
        # taken OUT of a container (`popitem`), until their value is handed on (stored, passed as an argument)
        self.owned = {p[0] for p in self.inout}
        self.draws = 0          # external random draws used so far (each declared draw parameter stands for ONE call)

    # ------------------------------------------------------------------ small things
    def tmp(self, p="v"):
        self.n += 1
        return f"{p}{self.n}"

    def ERR(self, e):
        """what a raising path returns: the error — and, in a method that changes its object, the object as it is
        at the moment of the raise (Python keeps what was assigned before an exception)"""
        return f"({self.st()}, .error {e})" if self.mut else f".error {e}"

    def st(self):
        """the state a mutating method returns: `self`, or `(self, ev)` with its in-out parameters"""
        if not self.inout:
            return "self"
        return "(" + ", ".join(["self"] + [p[1] for p in self.inout]) + ")"

    def need_exc(self, what):
        if not self.exc:
            raise Unsupported(f"{what} may raise, the tie expects a function that cannot")

    def need_mut(self, what):
        if not self.mut:
            raise Unsupported(f"{what} changes the object, the tie expects a function that does not")

    def otype(self, ty):
        return OTYPES.get(ty)

    def lit(self, node, want):
        v = node.value
        if v is None:
            if want is not None and _targ(want, "Option") is None:
                raise Unsupported(f"None where a {want} is expected")
            return "none", want or "Option ?"
        if isinstance(v, bool):
            return ("true" if v else "false"), "Bool"
        if isinstance(v, str):
            if '"' in v or "\\" in v or "\n" in v:
                raise Unsupported("string literal with quotes / escapes")
            return f'"{v}"', "String"
        if isinstance(v, int):
            w = want if want in ("Nat", "Int", "K") else None
            if w is None and want is not None and _targ(want, "Option") in ("Nat", "Int", "K"):
                w = _targ(want, "Option")
            if w is None:
                raise Unsupported(f"integer literal {v} of unknown type")
            if v < 0:
                raise Unsupported("negative literal")
            if w == "K":
                return ("(0 : K)" if v == 0 else "(1 : K)" if v == 1 else f"(({v} : Nat) : K)"), "K"
            return f"({v} : {w})", w
        if isinstance(v, float):
            text = ast.get_source_segment(self.source, node).replace("_", "")
            fr = Fraction(text)
            if fr.denominator == 1:
                return self.lit(ast.Constant(value=int(fr.numerator)), "K")
            return f"((({fr.numerator} : Nat) : K) / (({fr.denominator} : Nat) : K))", "K"
        raise Unsupported(f"literal {v!r}")

    def coerce(self, s, ty, want, what=""):
        """`s : ty` where a `want` is expected: identical, or `T` into `Option T`"""
        if want is None or ty == want:
            return s
        if ty == "Option ?" and _targ(want, "Option") is not None:
            return s
        if ty == "List ?" and _targ(want, "List") is not None:
            return s
        if _targ(want, "Option") == ty:
            return f"(some {s})"
        raise Unsupported(f"{what or s} has type {ty}, expected {want}")

    # ------------------------------------------------------------------ bindings
    def emit(self, pre, indent):
        """the bindings `pre` as nested `let` / `match`, and the indentation of what follows them"""
        out = ""
        for b in pre:
            if b[0] == "let":
                out += f"{indent}let {b[1]} := {b[2]}\n"
            elif b[0] == "exc":
                self.need_exc(b[2])
                err = self.ERR("x" if b[3] in (None, "id") else f"({b[3]} x)")
                scrut = f"({b[2]} : Except PyErr _)" if b[3] in (None, "id") else b[2]
                out += f"{indent}match {scrut} with\n{indent}| .error x => {err}\n{indent}| .ok {b[1]} =>\n"
                indent += "  "
            elif b[0] == "opt":
                self.need_exc(b[2])
                out += f"{indent}match {b[2]} with\n{indent}| none => {self.ERR('.' + b[3])}\n{indent}| some {b[1]} =>\n"
                indent += "  "
            elif b[0] == "mexc":
                # a callee that may raise AFTER it has changed its object: its state is written back on both paths
                self.need_exc(b[3])
                _k, st, v, expr, conv, writes = b
                wb = "".join(f"{indent}  let {w[1]} := {w[2]}\n" for w in writes)
                err = self.ERR("x" if conv in (None, "id") else f"({conv} x)")
                out += (f"{indent}match {expr} with\n{indent}| ({st}, .error x) =>\n{wb}{indent}  {err}\n"
                        f"{indent}| ({st}, .ok {v}) =>\n{wb}")
                indent += "  "
            else:
                raise Unsupported("internal: binding kind")
        return out, indent

    def inline(self, pre, tail):
        """`pre; tail` as ONE parenthesised expression of type `Except PyErr _` (tail has that type)"""
        for b in reversed(pre):
            if b[0] == "let":
                if b[1] == "self":
                    raise Unsupported("a mutating call inside the right operand of and / or, or in a comprehension")
                tail = f"(let {b[1]} := {b[2]}; {tail})"
            elif b[0] == "exc":
                err = ".error x" if b[3] in (None, "id") else f".error ({b[3]} x)"
                scrut = f"({b[2]} : Except PyErr _)" if b[3] in (None, "id") else b[2]
                tail = f"(match {scrut} with | .error x => {err} | .ok {b[1]} => {tail})"
            elif b[0] == "opt":
                tail = f"(match {b[2]} with | none => .error .{b[3]} | some {b[1]} => {tail})"
            else:
                raise Unsupported("a mutating call inside the right operand of and / or, or in a comprehension")
        return tail

    # ------------------------------------------------------------------ places (things that can be read and, maybe, written)
    def prop_fn(self, rel, cls, name):
        tree = self.tree if rel == self.t.rel else ast.parse(_src(rel))
        c = [n for n in tree.body if isinstance(n, ast.ClassDef) and n.name == cls]
        if len(c) != 1:
            raise Unsupported(f"class {cls}")
        fns = [n for n in c[0].body if isinstance(n, ast.FunctionDef) and n.name == name
               and [ast.unparse(d) for d in n.decorator_list] == ["property"]]
        if len(fns) != 1 or _fn_args(fns[0]) != ["self"]:
            raise Unsupported(f"{cls}.{name} is not a property")
        body = [s for s in fns[0].body if not _is_docstring(s)]
        if len(body) != 1 or not isinstance(body[0], ast.Return) or body[0].value is None:
            raise Unsupported(f"property {cls}.{name} is not a single return")
        return body[0].value, (self.source if rel == self.t.rel else _src(rel))

    def place(self, n, env, pre, for_write=False):
        if isinstance(n, ast.Name):
            if n.id == "self":
                if self.rd_self != "self":
                    return _Place(self.rd_self, self.rd_ty, None)
                return _Place("self", self.t.self_type, lambda nv: [("let", "self", nv)])
            if n.id in env.vars:
                ln, ty = env.vars[n.id]
                # a list that is read (stored somewhere, passed on, returned) may from now on be seen by others:
                # value semantics would no longer be Python's for a later `append`
                self.fresh.discard(n.id)
                w = (lambda nv, ln=ln: [("let", ln, nv)]) if n.id in self.owned else None
                return _Place(ln, ty[0] if isinstance(ty, list) else ty, w)
            raise Unsupported(f"free name {n.id}")
        if isinstance(n, ast.Attribute):
            base = self.place(n.value, env, pre)
            bty = base.ty
            inner = _targ(bty, "Option")
            if inner is not None:
                # attribute of an Optional object: Python raises AttributeError on None
                v = self.tmp()
                pre.append(("opt", v, base.read, "AttributeError"))
                bw = base.write
                base = _Place(v, inner, (lambda nv: bw(f"(some {nv})")) if bw else None)
                bty = inner
            ot = self.otype(bty)
            if ot is None:
                raise Unsupported(f"attribute {n.attr} of a {bty}")
            if n.attr in ot.get("attrs", {}):
                field, fty = ot["attrs"][n.attr]
                w = None
                if base.write is not None and "." not in field:
                    w = lambda nv, b=base, f=field: b.write(f"{{ {b.read} with {f} := {nv} }}")
                return _Place(f"{base.read}.{field}", fty, w)
            if n.attr in ot.get("props", {}):
                rel, cls = ot["props"][n.attr]
                e, src = self.prop_fn(rel, cls, n.attr)
                sub = STr.__new__(STr)
                sub.__dict__.update(self.__dict__)
                sub.rd_self, sub.rd_ty, sub.source = base.read, bty, src
                sub.prop_write = base.write
                if rel != self.t.rel:
                    sub.tree = ast.parse(src)
                # a property that just returns an attribute is a writable place; anything else is a value
                if isinstance(e, ast.Attribute) and isinstance(e.value, ast.Name) and e.value.id == "self" \
                        and e.attr in ot.get("attrs", {}):
                    field, fty = ot["attrs"][e.attr]
                    w = None
                    if base.write is not None and "." not in field:
                        w = lambda nv, b=base, f=field: b.write(f"{{ {b.read} with {f} := {nv} }}")
                    return _Place(f"{base.read}.{field}", fty, w)
                s, ty = sub.tex(e, _Env(), pre)
                self.n = sub.n
                return _Place(s, ty, None)
            raise Unsupported(f"attribute {n.attr} of a {bty}")
        if isinstance(n, ast.Subscript):
            base = self.place(n.value, env, pre)
            d = _targ(base.ty, "Dict")
            if d is not None:
                k = self.dict_key(n.slice, env, pre, for_write)
                w = (lambda nv, b=base, k=k: b.write(f"(dictSet {b.read} {k} {nv})")) if base.write else None
                if for_write:
                    return _Place(None, d, w)
                v = self.tmp()
                pre.append(("opt", v, f"dictGet? {base.read} {k}", "KeyError"))
                return _Place(v, d, w)
            idx = n.slice
            if not (isinstance(idx, ast.Constant) and isinstance(idx.value, int) and not isinstance(idx.value, bool)
                    and idx.value >= 0):
                raise Unsupported(f"subscript {ast.unparse(n)}")
            ot = self.otype(base.ty)
            if ot is not None and "tuple" in ot:
                if idx.value >= len(ot["tuple"]):
                    raise Unsupported(f"subscript {ast.unparse(n)}")
                return _Place(ot["get"][idx.value].format(base.read), ot["tuple"][idx.value], None)
            for h, acc in (("Array", "{0}[{1}]?"), ("List", "{0}[{1}]?")):
                el = _targ(base.ty, h)
                if el is not None:
                    v = self.tmp()
                    pre.append(("opt", v, acc.format(base.read, idx.value), "IndexError"))
                    return _Place(v, el, None)
            raise Unsupported(f"subscript of a {base.ty}")
        # any other expression is a value that can only be read
        s_, ty = self.tex(n, env, pre)
        return _Place(s_, ty, None)

    def dict_key(self, n, env, pre, for_write=False):
        """the key of `d[k]` / `del d[k]` / `d.move_to_end(k)` on a dict with `str` keys.  A key of type
        Optional[str] that is None is in no such dict: reading raises KeyError (writing would ADD the key None, which
        the association list cannot hold: refused)"""
        if isinstance(n, ast.Constant):
            return self.tex(n, env, pre, "String")[0]
        k, kty = self.tex(n, env, pre)
        if kty == "String":
            return k
        if kty == "Option String" and not for_write:
            v = self.tmp("k")
            pre.append(("opt", v, k, "KeyError"))
            return v
        raise Unsupported(f"dict key {ast.unparse(n)} of type {kty}")

    # ------------------------------------------------------------------ expressions
    def tex(self, n, env, pre, want=None):
        """(lean expression, type); partial / mutating sub-expressions are appended to `pre` in evaluation order"""
        s, ty = self.tex0(n, env, pre, want)
        return self.coerce(s, ty, want, ast.unparse(n)), (want if want is not None else ty)

    def tex0(self, n, env, pre, want):
        if isinstance(n, ast.Constant):
            return self.lit(n, want)
        if isinstance(n, (ast.Name, ast.Attribute, ast.Subscript)):
            p = self.place(n, env, pre)
            if isinstance(n, ast.Name) and n.id in self.owned:
                # the object is stored / passed on: another access path exists from now on
                self.owned.discard(n.id)
            return p.read, p.ty
        if isinstance(n, ast.Tuple):
            ot = self.otype(want) if want else None
            if ot is None or "tuple" not in ot or len(n.elts) != len(ot["tuple"]):
                raise Unsupported(f"tuple {ast.unparse(n)}")
            parts = [self.tex(e, env, pre, ty)[0] for e, ty in zip(n.elts, ot["tuple"])]
            return ot["mk"].format(*parts), want
        if isinstance(n, ast.List):
            if n.elts:
                raise Unsupported("list literal with elements")
            return "[]", (want if want and _targ(want, "List") else "List ?")
        if isinstance(n, (ast.Compare, ast.BoolOp)) or (isinstance(n, ast.UnaryOp) and isinstance(n.op, ast.Not)):
            return self.tbool(n, env, pre), "Bool"
        if isinstance(n, ast.BinOp):
            op = {ast.Add: "+", ast.Sub: "-", ast.Mult: "*", ast.Div: "/"}.get(type(n.op))
            if op is None:
                raise Unsupported(f"operator {type(n.op).__name__}")
            l, lt = self.tex(n.left, env, pre, want if isinstance(n.left, ast.Constant) else None)
            r, rt = self.tex(n.right, env, pre, lt if isinstance(n.right, ast.Constant) else None)
            if lt != rt or lt not in ("K", "Int", "Nat") or (op == "/" and lt != "K") or (op == "-" and lt == "Nat"):
                raise Unsupported(f"arithmetic on {lt} and {rt}")
            return f"({l} {op} {r})", lt
        if isinstance(n, ast.ListComp):
            return self.comp(n, env, pre)
        if isinstance(n, ast.Call):
            return self.call(n, env, pre, want)
        raise Unsupported(f"expression {type(n).__name__}")

    def typed_pair(self, a, b, env, pre):
        """two operands of a comparison; a literal takes the type of the other side"""
        if isinstance(a, ast.Constant) and not isinstance(b, ast.Constant):
            r, rt = self.tex(b, env, pre)   # (a literal has no effects, the order does not matter)
            l, lt = self.tex(a, env, pre, _targ(rt, "Option") or rt)
        else:
            l, lt = self.tex(a, env, pre)
            r, rt = self.tex(b, env, pre, (_targ(lt, "Option") or lt) if isinstance(b, ast.Constant) else None)
        return l, lt, r, rt

    def cmp(self, left, op, right, env, pre):
        if isinstance(op, (ast.Is, ast.IsNot)):
            if not (isinstance(right, ast.Constant) and right.value is None):
                raise Unsupported("`is` with something other than None")
            l, lt = self.tex(left, env, pre)
            if _targ(lt, "Option") is None:
                raise Unsupported(f"`is None` of a {lt}")
            return f"({l}).isNone" if isinstance(op, ast.Is) else f"({l}).isSome"
        if isinstance(op, (ast.In, ast.NotIn)):
            if isinstance(left, ast.Constant):
                l, lt = self.tex(left, env, pre, "String")
            else:
                l, lt = self.tex(left, env, pre)
            r, rt = self.tex(right, env, pre)
            if _targ(rt, "Dict") is None:
                raise Unsupported(f"`in` a {rt}")
            if lt == "Option String":
                # `None in d` is False for a dict with `str` keys
                b = f"(match {l} with | none => false | some k' => (dictGet? {r} k').isSome)"
            elif lt == "String":
                b = f"(dictGet? {r} {l}).isSome"
            else:
                raise Unsupported(f"`in` with a key of type {lt}")
            return b if isinstance(op, ast.In) else f"(!{b})"
        l, lt, r, rt = self.typed_pair(left, right, env, pre)
        if isinstance(op, (ast.Eq, ast.NotEq)):
            if lt != rt:
                # a value against an Optional value: `None == v` is False
                if _targ(lt, "Option") == rt:
                    r, rt = f"(some {r})", lt
                elif _targ(rt, "Option") == lt:
                    l, lt = f"(some {l})", rt
                else:
                    raise Unsupported(f"equality of a {lt} and a {rt}")
            if (_targ(lt, "Option") or lt) not in ("Nat", "Int", "String", "Bool"):
                raise Unsupported(f"equality on {lt}")
            b = f"decide ({l} = {r})"
            return b if isinstance(op, ast.Eq) else f"(!{b})"
        if lt != rt or lt not in ("Nat", "Int", "K"):
            raise Unsupported(f"comparison of a {lt} with a {rt}")
        rel = {ast.Lt: f"{l} < {r}", ast.LtE: f"{l} ≤ {r}", ast.Gt: f"{r} < {l}", ast.GtE: f"{r} ≤ {l}"}.get(type(op))
        if rel is None:
            raise Unsupported(f"comparison {type(op).__name__}")
        return f"decide ({rel})"

    def tbool(self, n, env, pre):
        """a pure Bool over the bindings appended to `pre`"""
        if isinstance(n, ast.BoolOp):
            first = self.tbool(n.values[0], env, pre)
            subs, partial = [], False
            for v in n.values[1:]:
                p2 = []
                subs.append((p2, self.tbool(v, env, p2)))
                partial = partial or bool(p2)
            is_and = isinstance(n.op, ast.And)
            if not partial:
                return "(" + (" && " if is_and else " || ").join([first] + [s for _p, s in subs]) + ")"
            # Python evaluates an operand only if the ones before it did not decide
            acc = None
            for p2, s in reversed(subs):
                if acc is None:
                    cur = f".ok ({s})"
                elif is_and:
                    cur = f"(match {s} with | true => {acc} | false => .ok false)"
                else:
                    cur = f"(match {s} with | true => .ok true | false => {acc})"
                acc = self.inline(p2, cur)
            whole = (f"(match {first} with | true => {acc} | false => .ok false)" if is_and
                     else f"(match {first} with | true => .ok true | false => {acc})")
            v = self.tmp("c")
            pre.append(("exc", v, whole, None))
            return v
        if isinstance(n, ast.UnaryOp) and isinstance(n.op, ast.Not):
            return f"(!{self.tbool(n.operand, env, pre)})"
        if isinstance(n, ast.Compare):
            if len(n.ops) != 1:
                raise Unsupported("comparison chain")
            return self.cmp(n.left, n.ops[0], n.comparators[0], env, pre)
        s, ty = self.tex(n, env, pre)
        if ty != "Bool":
            raise Unsupported(f"truth value of a {ty}")
        return s

    def comp(self, n, env, pre):
        """`[elt for v in xs if c]` over a list / `d.values()`; `c` and `elt` may be partial"""
        if len(n.generators) != 1 or n.generators[0].is_async:
            raise Unsupported("comprehension with several clauses")
        g = n.generators[0]
        it = g.iter
        if isinstance(g.target, ast.Tuple):
            # `for k, v in d.items()`
            if not (len(g.target.elts) == 2 and all(isinstance(e, ast.Name) for e in g.target.elts)
                    and isinstance(it, ast.Call) and isinstance(it.func, ast.Attribute) and it.func.attr == "items"
                    and not it.args and not it.keywords):
                raise Unsupported("comprehension with a pattern target")
            kv, vv = (e.id for e in g.target.elts)
            if kv == vv or any(v in env.vars or v == "self" for v in (kv, vv)):
                raise Unsupported("comprehension variables shadow another name")
            d, dty = self.tex(it.func.value, env, pre)
            el = _targ(dty, "Dict")
            if el is None:
                raise Unsupported(f".items() of a {dty}")
            env2 = env.copy()
            env2.vars[kv] = (_lname(kv), "String")
            env2.vars[vv] = (_lname(vv), el)
            return self.comp_body(n, g, f"(dictItems {d})", f"({_lname(kv)}, {_lname(vv)})", env2, pre)
        if not isinstance(g.target, ast.Name):
            raise Unsupported("comprehension with a pattern target")
        var = g.target.id
        if var in env.vars or var == "self":
            raise Unsupported(f"comprehension variable {var} shadows another name")
        if isinstance(it, ast.Call) and isinstance(it.func, ast.Attribute) and it.func.attr == "values" and not it.args \
                and not it.keywords:
            d, dty = self.tex(it.func.value, env, pre)
            el = _targ(dty, "Dict")
            if el is None:
                raise Unsupported(f".values() of a {dty}")
            xs = f"(dictValues {d})"
        else:
            xs, xty = self.tex(it, env, pre)
            el = _targ(xty, "List")
            if el is None:
                raise Unsupported(f"iteration over a {xty}")
        lv = _lname(var)
        env2 = env.copy()
        env2.vars[var] = (lv, el)
        return self.comp_body(n, g, xs, lv, env2, pre)

    def comp_body(self, n, g, xs, lv, env2, pre):
        p2 = []
        conds = [self.tbool(c, env2, p2) for c in g.ifs]
        c = " && ".join(conds) if conds else None
        if c is not None and len(conds) > 1:
            # several `if` clauses are evaluated like `and`
            raise Unsupported("several if clauses")
        p3 = []
        e, ety = self.tex(n.elt, env2, p3)
        inner = self.inline(p3, f".ok (some {e})")
        if c is not None:
            inner = f"(match {c} with | true => {inner} | false => .ok none)"
        body = self.inline(p2, inner)
        if not p2 and not p3:
            # total: an ordinary filterMap
            f = f"(fun {lv} => if {c} then some {e} else none)" if c is not None else f"(fun {lv} => some {e})"
            return f"({xs}.filterMap {f})", f"List {_paren(ety)}"
        v = self.tmp()
        pre.append(("exc", v, f"pyComp (fun {lv} => {body}) {xs}", None))
        return v, f"List {_paren(ety)}"

    # ------------------------------------------------------------------ calls
    def sig_of(self, lean_name):
        ct = next((t for t in TARGETS if t.lean_name == lean_name), None)
        if ct is None or ct.kind != "state":
            raise Unsupported(f"{lean_name} is not a translation target")
        if ct.group != self.t.group:
            # a target of another group (another generated file, imported by this one)
            if ct.group not in _STATUS:
                gen_code(ct.group)
            if _STATUS[ct.group].get(lean_name) != "ok":
                raise Unsupported(f"{lean_name} (group {ct.group}) was not translated")
        elif ct.lean_name != self.t.lean_name and self.done.get(lean_name) != "ok":
            raise Unsupported(f"{lean_name} was not translated")
        return ct

    def args_of(self, n, types, env, pre, what):
        if n.keywords or any(isinstance(a, ast.Starred) for a in n.args):
            raise Unsupported(f"keyword / starred arguments of {what}")
        if len(n.args) != len(types):
            raise Unsupported(f"{what} is called with {len(n.args)} arguments, the tie expects {len(types)}")
        return [self.tex(a, env, pre, ty)[0] for a, ty in zip(n.args, types)]

    def apply(self, expr, recv, mut, exc, ret, pre, order="state_value", stateful=False):
        """bind the result of a call `expr` whose receiver is the place `recv`; `stateful`: the callee returns
        `State × Except PyErr _` (its object as it is when it raises), not `Except _ (State × _)`"""
        if mut:
            self.need_mut(expr)
            if recv.write is None:
                raise Unsupported(f"{expr} mutates an object the method cannot write back")
        s, v = self.tmp("s"), self.tmp()
        if mut and ret is not None:
            pat = f"({s}, {v})" if order == "state_value" else f"({v}, {s})"
        elif mut:
            pat = s
        else:
            pat = v
        if mut and exc is not None and stateful:
            pre.append(("mexc", s, (v if ret is not None else "_"), expr, exc, recv.write(s)))
            return (v if ret is not None else None), ret
        if exc is not None:
            pre.append(("exc", pat, expr, exc))
        elif mut or ret is not None:
            pre.append(("let", pat, expr))
        if mut:
            pre.extend(recv.write(s))
        return (v if ret is not None else None), ret

    def call(self, n, env, pre, want):
        f = n.func
        fname = ast.unparse(f)
        if fname == "len" and len(n.args) == 1 and not n.keywords:
            x, ty = self.tex(n.args[0], env, pre)
            if _targ(ty, "Array") is not None:
                return f"{x}.size", "Nat"
            if _targ(ty, "List") is not None or _targ(ty, "Dict") is not None:
                return f"{x}.length", "Nat"
            raise Unsupported(f"len of a {ty}")
        if fname == "max" and len(n.args) == 1 and [k.arg for k in n.keywords] == ["key"] \
                and isinstance(n.keywords[0].value, ast.Lambda):
            x, ty = self.tex(n.args[0], env, pre)
            el = _targ(ty, "Array") or _targ(ty, "List")
            if el is None:
                raise Unsupported(f"max of a {ty}")
            lam = n.keywords[0].value
            if len(lam.args.args) != 1 or lam.args.defaults or lam.args.vararg or lam.args.kwarg:
                raise Unsupported("key function")
            a = lam.args.args[0].arg
            if a in env.vars or a == "self":
                raise Unsupported(f"lambda parameter {a} shadows another name")
            env2 = env.copy()
            env2.vars[a] = (_lname(a), el)
            p2 = []
            k, kty = self.tex(lam.body, env2, p2)
            if p2 or kty not in ("Int", "Nat"):
                raise Unsupported("key function is partial / not integer-valued")
            lst = f"{x}.toList" if _targ(ty, "Array") is not None else x
            v = self.tmp()
            pre.append(("opt", v, f"pyMaxBy (fun {_lname(a)} => {k}) {lst}", "ValueError"))
            return v, el
        if fname in EXTCALLS and not (isinstance(f, ast.Name) and f.id in env.vars):
            spec = EXTCALLS[fname]
            if n.keywords or len(n.args) != len(spec["args"]):
                raise Unsupported(f"arguments of {fname}")
            if spec.get("draw"):
                # a random draw is an INPUT of the translation: one declared parameter per call
                self.draws += 1
                if self.draws > 1 or spec["draw"] not in [p[1] for p in self.t.params if p[0].startswith("$")]:
                    raise Unsupported(f"{fname}: a draw the tie has no input for")
            args, recv = [], None
            for a, ty in zip(n.args, spec["args"]):
                if ty.startswith("place:"):
                    p = self.place(a, env, pre)
                    if p.ty != ty[6:]:
                        raise Unsupported(f"{fname} on a {p.ty}")
                    recv = p
                    args.append(p.read)
                else:
                    args.append(self.tex(a, env, pre, ty)[0])
            expr = f"{spec['lean']} {' '.join(args)}"
            if recv is None:
                if spec["exc"] is not None:
                    v = self.tmp()
                    pre.append(("exc", v, expr, spec["exc"]))
                    return v, spec["ret"]
                return f"({expr})", spec["ret"]
            v, ty = self.apply(expr, recv, True, spec["exc"], spec["ret"], pre, spec.get("order", "state_value"))
            return (v or "()"), (ty or "Unit")
        if isinstance(f, ast.Attribute):
            # xs.append(e) on a local list
            if f.attr == "append" and isinstance(f.value, ast.Name) and f.value.id in env.vars and len(n.args) == 1 \
                    and not n.keywords:
                ln, tyb = env.vars[f.value.id]
                ty = tyb[0] if isinstance(tyb, list) else tyb
                el = _targ(ty, "List")
                if el is None or not isinstance(tyb, list) or f.value.id not in self.fresh:
                    raise Unsupported(f"append to {f.value.id} : {ty} (not a list created in this method, or one it has handed on)")
                e, ety = self.tex(n.args[0], env, pre, None if el == "?" else el)
                if el == "?":
                    tyb[0] = f"List {_paren(ety)}"
                pre.append(("let", ln, f"({ln} ++ [{e}])"))
                return "()", "Unit"
            is_super = isinstance(f.value, ast.Call) and ast.unparse(f.value) == "super()"
            if is_super:
                # `super().m(..)`: the base class's method on this object (declared per type in OTYPES)
                if self.rd_self != "self":
                    raise Unsupported("super() inside an inlined property")
                recv = self.place(ast.Name(id="self", ctx=ast.Load()), env, pre)
            else:
                recv = self.place(f.value, env, pre)
            rty = recv.ty
            if _targ(rty, "Dict") is not None and f.attr in ("popitem", "move_to_end"):
                return self.odict_call(n, f.attr, recv, env, pre)
            if _targ(rty, "Option") is not None:
                v = self.tmp()
                pre.append(("opt", v, recv.read, "AttributeError"))
                w = recv.write
                recv = _Place(v, _targ(rty, "Option"), (lambda nv: w(f"(some {nv})")) if w else None)
                rty = recv.ty
            ot = self.otype(rty)
            table = "super_methods" if is_super else "methods"
            if ot is None or f.attr not in ot.get(table, {}):
                raise Unsupported(f"method {f.attr} of a {rty}" + (" (super)" if is_super else ""))
            m = ot[table][f.attr]
            if isinstance(m, dict):
                args = self.args_of(n, m["args"], env, pre, fname)
                expr = " ".join([m["lean"].format(recv=recv.read)] + args + list(m.get("extra", [])))
                if not m["mut"] and m["exc"] is None:
                    return f"({expr})", m["ret"]
                v, ty = self.apply(expr, recv, m["mut"], m["exc"], m["ret"], pre, stateful=m.get("stateful", False))
                return (v or "()"), (ty or "Unit")
            ct = self.sig_of(m)
            cmut, cexc, cret = ct.sig
            ctree = self.tree if ct.rel == self.t.rel else ast.parse(_src(ct.rel))
            own = [p for p in _resolved(ct, ctree).params if not p[0].startswith("$")]
            if getattr(ct, "inout", ()):
                raise Unsupported(f"{m} has in-out parameters")
            missing = len(own) - len(n.args)
            if 0 < missing and not n.keywords:
                # trailing parameters left to their defaults: only `= None` of an Optional parameter
                cfn = _find_path(ctree, ct.path)[-1]
                dfl = cfn.args.defaults[len(cfn.args.defaults) - missing:] if missing <= len(cfn.args.defaults) else None
                if dfl is None or len(dfl) != missing or cfn.args.kwonlyargs or cfn.args.vararg or cfn.args.kwarg:
                    raise Unsupported(f"{fname} is called with {len(n.args)} arguments")
                for dv, p_ in zip(dfl, own[len(n.args):]):
                    if not (isinstance(dv, ast.Constant) and dv.value is None and _targ(p_[2], "Option") is not None):
                        raise Unsupported(f"default of parameter {p_[0]} of {fname}")
                args = self.args_of(n, [p[2] for p in own[:len(n.args)]], env, pre, fname) + ["none"] * missing
            else:
                args = self.args_of(n, [p[2] for p in own], env, pre, fname)
            extra = [p[1] for p in ct.params if p[0].startswith("$")]
            if ct.fuel and not self.t.fuel:
                raise Unsupported(f"call of the fuelled {m} from a function without fuel")
            expr = " ".join([ct.lean_name] + extra + (["fuel"] if ct.fuel else []) + [recv.read] + args)
            if not cmut and not cexc:
                return f"({expr})", cret
            v, ty = self.apply(expr, recv, cmut, None if not cexc else "id", cret, pre, stateful=True)
            return (v or "()"), (ty or "Unit")
        raise Unsupported(f"call {fname}")

    def odict_call(self, n, attr, recv, env, pre):
        """`d.popitem(last=..)` / `d.move_to_end(k)` of an OrderedDict attribute (an association list in insertion order)"""
        if recv.write is None:
            raise Unsupported(f"{attr} on a dict the method cannot write back")
        self.need_mut(attr)
        el = _targ(recv.ty, "Dict")
        if any(isinstance(a, ast.Starred) for a in n.args):
            raise Unsupported(f"arguments of {attr}")
        if attr == "popitem":
            last = True
            if n.args or [k.arg for k in n.keywords] not in ([], ["last"]):
                raise Unsupported("arguments of popitem")
            if n.keywords:
                kv = n.keywords[0].value
                if not (isinstance(kv, ast.Constant) and isinstance(kv.value, bool)):
                    raise Unsupported("popitem(last=<not a literal>)")
                last = kv.value
            v, r = self.tmp(), self.tmp("s")
            pre.append(("opt", f"({v}, {r})", f"{'dictPopLast?' if last else 'dictPopFirst?'} {recv.read}", "KeyError"))
            pre.extend(recv.write(r))
            return v, f"Pair String {_paren(el)}"
        # move_to_end(k) (last=True): KeyError for an unknown key
        if len(n.args) != 1 or n.keywords:
            raise Unsupported("arguments of move_to_end")
        k = self.dict_key(n.args[0], env, pre)
        pre.append(("opt", "_", f"dictGet? {recv.read} {k}", "KeyError"))
        pre.extend(recv.write(f"(dictMoveToEnd {recv.read} {k})"))
        return "()", "Unit"

    # ------------------------------------------------------------------ statements
    def mkret(self, v):
        if self.ret is None and v is not None:
            raise Unsupported("the method returns a value, the tie expects none")
        if self.ret is not None and v is None:
            raise Unsupported("the method returns nothing, the tie expects a value")
        if self.mut and self.exc:
            return f"({self.st()}, .ok {v if v is not None else '()'})"
        val = (f"({self.st()}, " + v + ")" if v is not None else self.st()) if self.mut else v
        return f".ok {val}" if self.exc else val

    def skip(self, s):
        if _is_docstring(s) or _is_warn_call(s) or isinstance(s, ast.Pass):
            return True
        if isinstance(s, ast.Expr) and isinstance(s.value, ast.Call) and ast.unparse(s.value.func) in self.t.noops:
            c = s.value
            if c.keywords or not all(isinstance(a, (ast.Constant, ast.JoinedStr)) for a in c.args):
                raise Unsupported(f"arguments of {ast.unparse(c.func)}")
            for a in c.args:
                if isinstance(a, ast.JoinedStr):
                    raise Unsupported("f-string argument")
            return True
        return False

    def block(self, body, env, indent, tail):
        """`body` (a statement list) followed by `tail(env, indent)` where control falls off its end"""
        body = list(body)
        while body and self.skip(body[0]):
            body.pop(0)
        if not body:
            return tail(env, indent)
        s, rest = body[0], body[1:]
        if isinstance(s, ast.Return):
            pre = []
            if s.value is None or (isinstance(s.value, ast.Constant) and s.value.value is None
                                   and self.ret is None):
                v = None
            else:
                v = self.tex(s.value, env, pre, self.ret)[0]
            out, ind = self.emit(pre, indent)
            return out + ind + self.mkret(v)
        if isinstance(s, ast.Raise):
            self.need_exc("raise")
            exc = s.exc
            name = exc.func.id if isinstance(exc, ast.Call) and isinstance(exc.func, ast.Name) else (
                exc.id if isinstance(exc, ast.Name) else None)
            if name not in PYERRS or s.cause is not None:
                raise Unsupported(f"exception {name}")
            p2 = []
            if isinstance(exc, ast.Call):
                for a in list(exc.args) + [k.value for k in exc.keywords]:
                    self.msg(a, env, p2)
            out, ind = self.emit(p2, indent)
            return f"{out}{ind}{self.ERR('.' + name)}"
        if isinstance(s, ast.Expr):
            if not isinstance(s.value, ast.Call):
                raise Unsupported("expression statement")
            pre = []
            self.tex(s.value, env, pre)
            env2 = self.after(pre, env)
            out, ind = self.emit(pre, indent)
            return out + self.block(rest, env2, ind, tail)
        if isinstance(s, ast.Assign):
            if len(s.targets) != 1:
                raise Unsupported("multiple assignment targets")
            tg = s.targets[0]
            pre = []
            env2 = env
            if isinstance(tg, ast.Tuple):
                # `a, b = <pair>` (only `d.popitem(..)` produces a pair)
                if not (len(tg.elts) == 2 and all(isinstance(e, ast.Name) for e in tg.elts)):
                    raise Unsupported("assignment to a pattern")
                e, ty = self.tex(s.value, env, pre)
                m_ = _re.fullmatch(r"Pair (\S+) (.+)", ty)
                if m_ is None:
                    raise Unsupported(f"unpacking a {ty}")
                tys = [m_.group(1), _unparen(m_.group(2))]
                names = [t_.id for t_ in tg.elts]
                params = [p[0].lstrip("^$") for p in self.t.params]
                if names[0] == names[1] != "_" or any(nm == "self" or nm in params for nm in names):
                    raise Unsupported(f"assignment to {names}")
                pre.append(("let", "(" + ", ".join("_" if nm == "_" else _lname(nm) for nm in names) + ")", e))
                env2 = self.after(pre, env)
                taken_out = isinstance(s.value, ast.Call) and isinstance(s.value.func, ast.Attribute) \
                    and s.value.func.attr == "popitem"
                for nm, ty_ in zip(names, tys):
                    if nm == "_":
                        continue
                    if nm in env.vars:
                        raise Unsupported(f"unpacking into the existing name {nm}")
                    env2.vars[nm] = (_lname(nm), [ty_])
                    self.fresh.discard(nm)
                    if taken_out:
                        self.owned.add(nm)     # removed from the dict: this local is its only access path here
            elif isinstance(tg, ast.Name):
                if tg.id == "self" or tg.id in [p[0].lstrip("^$") for p in self.t.params if p[2] == "-"]:
                    raise Unsupported(f"assignment to {tg.id}")
                e, ty = self.tex(s.value, env, pre)
                old = env.vars.get(tg.id)
                if old is not None:
                    oty = old[1][0] if isinstance(old[1], list) else old[1]
                    e = self.coerce(e, ty, oty, ast.unparse(s.value))
                    tyb = old[1]
                else:
                    tyb = [ty]
                ln = _lname(tg.id)
                if old is None and isinstance(tyb, list) and tyb[0] in ("List ?", "Option ?"):
                    pre.append(("let", f"{ln} : ⟦{id(tyb)}⟧", e))
                    self.ltys[id(tyb)] = tyb
                else:
                    pre.append(("let", ln, e))
                env2 = self.after(pre, env)
                env2.vars[tg.id] = (ln, tyb)
                self.owned.discard(tg.id)
                if isinstance(s.value, (ast.List, ast.ListComp)):
                    self.fresh.add(tg.id)
                else:
                    self.fresh.discard(tg.id)
            else:
                p = self.place(tg, env, pre, for_write=True)
                if p.write is None:
                    raise Unsupported(f"assignment to {ast.unparse(tg)}")
                self.need_mut(f"assignment to {ast.unparse(tg)}")
                e, _ = self.tex(s.value, env, pre, p.ty)
                pre.extend(p.write(e))
                env2 = self.after(pre, env)
            out, ind = self.emit(pre, indent)
            return out + self.block(rest, env2, ind, tail)
        if isinstance(s, ast.AugAssign):
            # `self.n += e` on a numeric attribute
            op = {ast.Add: "+", ast.Sub: "-", ast.Mult: "*"}.get(type(s.op))
            if op is None or not isinstance(s.target, ast.Attribute):
                raise Unsupported(f"augmented assignment {ast.unparse(s)}")
            pre = []
            p = self.place(s.target, env, pre)
            if p.write is None or p.ty not in ("Nat", "Int", "K") or (op == "-" and p.ty == "Nat"):
                raise Unsupported(f"augmented assignment to {ast.unparse(s.target)} : {p.ty}")
            self.need_mut(f"assignment to {ast.unparse(s.target)}")
            e, _ = self.tex(s.value, env, pre, p.ty)
            pre.extend(p.write(f"({p.read} {op} {e})"))
            out, ind = self.emit(pre, indent)
            return out + self.block(rest, self.after(pre, env), ind, tail)
        if isinstance(s, ast.Delete):
            # `del d[k]`: KeyError for an unknown key
            if len(s.targets) != 1 or not isinstance(s.targets[0], ast.Subscript):
                raise Unsupported(f"statement {ast.unparse(s)}")
            pre = []
            base = self.place(s.targets[0].value, env, pre)
            if _targ(base.ty, "Dict") is None or base.write is None:
                raise Unsupported(f"del of an element of a {base.ty}")
            self.need_mut(ast.unparse(s))
            k = self.dict_key(s.targets[0].slice, env, pre)
            pre.append(("opt", "_", f"dictGet? {base.read} {k}", "KeyError"))
            pre.extend(base.write(f"(dictDel {base.read} {k})"))
            out, ind = self.emit(pre, indent)
            return out + self.block(rest, self.after(pre, env), ind, tail)
        if isinstance(s, ast.If):
            return self.if_(s, rest, env, indent, tail)
        if isinstance(s, ast.For):
            return self.for_(s, rest, env, indent, tail)
        if isinstance(s, ast.While):
            return self.while_(s, rest, env, indent, tail)
        raise Unsupported(f"statement {type(s).__name__}")

    def msg(self, a, env, pre):
        """an argument of an exception constructor: only its evaluation matters — what it reads is read (and raises
        what that raises) before the exception itself; it may not mutate.  String formatting is accepted."""
        if isinstance(a, ast.Constant):
            return
        if isinstance(a, ast.JoinedStr):
            for v in a.values:
                if isinstance(v, ast.FormattedValue):
                    self.msg(v.value, env, pre)
            return
        if isinstance(a, ast.Call) and isinstance(a.func, ast.Attribute) and a.func.attr == "format" \
                and isinstance(a.func.value, ast.Constant):
            for x in a.args:
                self.msg(x, env, pre)
            return
        p2 = []
        self.tex(a, env, p2)
        if any(b[0] == "let" for b in p2):
            raise Unsupported("exception message with a call")
        pre.extend(p2)

    def after(self, pre, env):
        return env.copy()

    def if_(self, s, rest, env, indent, tail):
        if _only_warns(s.body) and not s.orelse:
            p0 = []
            self.tbool(s.test, env, p0)
            if not p0:
                return self.block(rest, env, indent, tail)   # the test has no effect and cannot raise
        t = s.test
        pre = []
        c = self.tbool(t, env, pre)
        env1 = self.after(pre, env)
        out, ind = self.emit(pre, indent)
        own0 = set(self.owned)
        a = self.block(list(s.body) + rest, env1.copy(), ind + "  ", tail)
        own_a, self.owned = self.owned, set(own0)
        b = self.block(list(s.orelse) + rest, env1.copy(), ind + "  ", tail)
        self.owned &= own_a
        return f"{out}{ind}if {c} then\n{a}\n{ind}else\n{b}"

    # ------------------------------------------------------------------ loops
    def loop_vars(self, body, test, rest, env, loopvar=None):
        """(carried locals, read-only locals) of a loop; refuses exits other than the end of the body"""
        stores, loads = [], set()
        for st in body:
            for m in ast.walk(st):
                if isinstance(m, (ast.Break, ast.Continue, ast.Return, ast.For, ast.While, ast.FunctionDef, ast.Lambda,
                                  ast.Raise)):
                    raise Unsupported(f"{type(m).__name__} inside a loop body")
                if isinstance(m, ast.Name):
                    if isinstance(m.ctx, ast.Load):
                        loads.add(m.id)
                    elif m.id not in stores:
                        stores.append(m.id)
                if isinstance(m, ast.Call) and isinstance(m.func, ast.Attribute) and m.func.attr == "append" \
                        and isinstance(m.func.value, ast.Name) and m.func.value.id not in stores:
                    stores.append(m.func.value.id)
        if test is not None:
            for m in ast.walk(test):
                if isinstance(m, ast.Name) and isinstance(m.ctx, ast.Load):
                    loads.add(m.id)
        after = set()
        for st in rest:
            for m in ast.walk(st):
                if isinstance(m, ast.Name) and isinstance(m.ctx, ast.Load):
                    after.add(m.id)
        fresh = [k for k in stores if k not in env.vars] + ([loopvar] if loopvar else [])
        if set(fresh) & after:
            raise Unsupported(f"{sorted(set(fresh) & after)} assigned in the loop are read after it")
        if loopvar and (loopvar in env.vars or loopvar == "self"):
            raise Unsupported(f"loop variable {loopvar} rebinds a name")
        params = [p[0].lstrip("^$") for p in self.t.params]
        carried = [k for k in stores if k in env.vars]
        if any(k in params for k in carried):
            raise Unsupported(f"the loop assigns the parameter(s) {[k for k in carried if k in params]}")
        ro = [k for k in env.vars if k in loads and k not in carried and k not in params]
        return carried, ro

    def loop_sig(self, carried, env):
        tys = ([_lean_ty(self.t.self_type)] if self.mut else []) + [f"⟦{id(env.vars[k][1])}⟧" if isinstance(env.vars[k][1], list)
                                                                       else _lean_ty(env.vars[k][1]) for k in carried]
        for k in carried:
            if isinstance(env.vars[k][1], list):
                self.ltys[id(env.vars[k][1])] = env.vars[k][1]
        names = (["self"] if self.mut else []) + [env.vars[k][0] for k in carried]
        if self.inout:
            raise Unsupported("a loop in a method with in-out parameters")
        if not names:
            raise Unsupported("a loop that changes nothing")
        par = lambda ts: " × ".join(_paren(t) if " " in t and not t.startswith("⟦") else t for t in ts)
        tup = lambda ns: "()" if not ns else ns[0] if len(ns) == 1 else "(" + ", ".join(ns) + ")"
        if self.mut and self.exc:
            # the object as it is when the loop raises, or the locals the loop has assigned
            res = f"{par(tys[:1])} × Except PyErr ({par(tys[1:]) or 'Unit'})"
            ok, okpat, errpat = f"(self, .ok {tup(names[1:])})", f"(self, .ok {tup(names[1:])})", "(self, .error x)"
        elif self.exc:
            res, ok, okpat, errpat = f"Except PyErr ({par(tys)})", f".ok {tup(names)}", f".ok {tup(names)}", ".error x"
        else:
            res, ok, okpat, errpat = par(tys), tup(names), tup(names), None
        return tys, names, res, (ok, okpat, errpat)

    def fixed_binders(self, ro, env, with_fuel):
        bs, args = [], []
        for p in self.t.params:
            if p[2] != "-":
                bs.append(f"({p[1]} : {_lean_ty(p[2])})")
                args.append(p[1])
        if with_fuel and self.t.fuel:
            bs.insert(0, "(fuel : Nat)")
            args.insert(0, "fuel")
        if not self.mut:
            bs.append(f"(self : {_lean_ty(self.t.self_type)})")
            args.append("self")
        for k in ro:
            ty = env.vars[k][1]
            bs.append(f"({env.vars[k][0]} : {_lean_ty(ty[0] if isinstance(ty, list) else ty)})")
            args.append(env.vars[k][0])
        return bs, args

    def after_loop(self, name, call, names, tup, rest, env, indent, tail):
        env2 = env.copy()
        ok, okpat, errpat = tup
        if self.exc:
            out = f"{indent}match {call} with\n{indent}| {errpat} => {errpat}\n{indent}| {okpat} =>\n"
            return out + self.block(rest, env2, indent + "  ", tail)
        return f"{indent}let {okpat} := {call}\n" + self.block(rest, env2, indent, tail)

    def for_(self, s, rest, env, indent, tail):
        if s.orelse or not isinstance(s.target, ast.Name):
            raise Unsupported("for … else / pattern target")
        x = s.target.id
        if self.mut and any(isinstance(m, ast.Name) and m.id == "self" for m in ast.walk(s.iter)):
            # Python iterates the LIVE list; the translation iterates a snapshot
            raise Unsupported("iteration over a part of self in a method that changes self")
        pre = []
        fresh0 = set(self.fresh)
        xs, xty = self.tex(s.iter, env, pre)
        self.fresh = fresh0   # (iterating a list does not hand it on)
        el = _targ(xty, "List")
        if el is None:
            raise Unsupported(f"iteration over a {xty}")
        out0, indent = self.emit(pre, indent)
        env = self.after(pre, env)
        carried, ro = self.loop_vars(s.body, None, rest, env, x)
        tys, names, res, tup = self.loop_sig(carried, env)
        self.nloops = getattr(self, "nloops", 0) + 1
        name = f"{self.t.lean_name}_loop" + ("" if self.nloops == 1 else str(self.nloops))
        bs, args = self.fixed_binders(ro, env, True)
        env2 = env.copy()
        env2.vars[x] = (_lname(x), el)
        call_again = " ".join([name] + args + ["rest'"] + names)
        fresh1 = set(self.fresh)
        body = self.block(list(s.body), env2, "    ", lambda e, i: i + call_again)
        if (fresh1 - self.fresh) & set(carried):
            raise Unsupported(f"the loop body hands on the list(s) {sorted((fresh1 - self.fresh) & set(carried))} it appends to")
        done = tup[0]
        self.aux.append(f"/-- the `for {x} in {ast.unparse(s.iter)}` loop of {'.'.join(self.t.path)} -/\n"
                        f"def {name} {' '.join(bs)} : List {_paren(_lean_ty(el))} → {' → '.join(tys)} → {res}\n"
                        f"  | [], {', '.join(names)} => {done}\n"
                        f"  | {_lname(x)} :: rest', {', '.join(names)} =>\n{body}\n")
        call = " ".join([name] + args + [xs] + names)
        return out0 + self.after_loop(name, call, names, tup, rest, env, indent, tail)

    def while_(self, s, rest, env, indent, tail):
        if s.orelse:
            raise Unsupported("while … else")
        if not self.t.fuel:
            raise Unsupported("a while loop in a function without fuel")
        self.need_exc("a while loop (its fuel may run out)")
        carried, ro = self.loop_vars(s.body, s.test, rest, env)
        tys, names, res, tup = self.loop_sig(carried, env)
        self.nloops = getattr(self, "nloops", 0) + 1
        name = f"{self.t.lean_name}_loop" + ("" if self.nloops == 1 else str(self.nloops))
        bs, args = self.fixed_binders(ro, env, False)
        env2 = env.copy()
        pre = []
        c = self.tbool(s.test, env2, pre)
        env3 = self.after(pre, env2)
        out, ind = self.emit(pre, "    ")
        call_again = " ".join([name] + args + ["fuel"] + names)
        fresh1 = set(self.fresh)
        body = self.block(list(s.body), env3.copy(), ind + "  ", lambda e, i: i + call_again)
        if (fresh1 - self.fresh) & set(carried):
            raise Unsupported(f"the loop body hands on the list(s) {sorted((fresh1 - self.fresh) & set(carried))} it appends to")
        self.aux.append(f"/-- the `while {ast.unparse(s.test)}` loop of {'.'.join(self.t.path)} -/\n"
                        f"def {name} {' '.join(bs)} : Nat → {' → '.join(tys)} → {res}\n"
                        f"  | 0, {', '.join(nm if nm == 'self' else '_' for nm in names)} => {self.ERR('.fuel')}\n"
                        f"  | fuel + 1, {', '.join(names)} =>\n{out}{ind}if {c} then\n{body}\n{ind}else\n{ind}  {tup[0]}\n")
        call = " ".join([name] + args + ["fuel"] + names)
        return self.after_loop(name, call, names, tup, rest, env, indent, tail)

    # ------------------------------------------------------------------ whole function
    def function(self):
        t = self.t
        chain = _find_path(self.tree, t.path)
        fn = chain[-1]
        if fn.decorator_list and [ast.unparse(d) for d in fn.decorator_list] != ["property"]:
            raise Unsupported("decorated function")
        if len(chain) < 2 or not isinstance(chain[-2], ast.ClassDef) or _fn_args(fn)[:1] != ["self"]:
            raise Unsupported("not a method")
        env = _Env({p[0].lstrip("^$"): (p[1], p[2]) for p in t.params if p[2] != "-" and not p[0].startswith("$")})

        def fall_off(e, i):
            # control reaches the end of the function: `return None`
            if self.ret is not None and _targ(self.ret, "Option") is None:
                raise Unsupported("control reaches the end of the function without a return")
            return i + self.mkret(None if self.ret is None else "none")
        body = self.block(list(fn.body), env, "  ", fall_off)
        return self.fill(body)

    def fill(self, text):
        for k, tyb in self.ltys.items():
            if "?" in tyb[0]:
                if f"⟦{k}⟧" in text or any(f"⟦{k}⟧" in a for a in self.aux):
                    raise Unsupported("a local whose element type is never determined")
            text = text.replace(f"⟦{k}⟧", _lean_ty(tyb[0]))
            self.aux = [a.replace(f"⟦{k}⟧", _lean_ty(tyb[0])) for a in self.aux]
        return text

    def binders(self):
        t = self.t
        bs = [f"({p[1]} : {_lean_ty(p[2])})" for p in t.params if p[0].startswith("$")]
        if t.fuel:
            bs.append("(fuel : Nat)")
        bs.append(f"(self : {_lean_ty(t.self_type)})")
        bs += [f"({p[1]} : {_lean_ty(p[2])})" for p in t.params if not p[0].startswith("$") and p[2] != "-"]
        return bs

    def result_type(self):
        st = _lean_ty(self.t.self_type)
        if self.inout:
            if not self.mut:
                raise Unsupported("in-out parameters of a method that does not change its object")
            st = " × ".join([_paren(st)] + [_paren(_lean_ty(p[2])) for p in self.inout])
        r = _lean_ty(self.ret) if self.ret is not None else None
        if self.mut and self.exc:
            return f"{_paren(st)} × Except PyErr ({r or 'Unit'})"
        val = (f"{_paren(st)} × {_paren(r)}" if r else st) if self.mut else r
        if val is None:
            raise Unsupported("a method that neither changes the object nor returns a value")
        return f"Except PyErr ({val})" if self.exc else val

    def header(self):
        tb = (" " + self.t.extra_binders) if self.t.extra_binders else ""
        return f"def {self.t.lean_name}{tb} {' '.join(self.binders())} : {self.result_type()} :="


# ---- stateful methods (kind 'state'): each group has its own generated file and its own tie module
def _st(lean_name, rel, path, self_type, params, sig, group, doc, inout=(), **kw):
    t = Target(lean_name, rel, None, path[-1], path=path, self_type=self_type, params=params, sig=sig,
               kind="state", group=group, doc=doc, **kw)
    t.inout = tuple(inout)    # python names of parameters whose object the method mutates (returned next to `self`)
    return t


STOCHPY = "acnportal/contrib/acnsim/network/stochastic_network.py"


TARGETS += [
    # group QueueOps (C11, C01): events/event_queue.py on `Queue.State` of AcnModel/Queue.lean
    _st("queue_len", QPY, ("EventQueue", "__len__"), "Queue.State", [], (False, False, "Nat"), "QueueOps",
        "EventQueue.__len__"),
    _st("queue_empty", QPY, ("EventQueue", "empty"), "Queue.State", [], (False, False, "Bool"), "QueueOps",
        "EventQueue.empty"),
    _st("queue_add_event", QPY, ("EventQueue", "add_event"), "Queue.State", [("event", "event", "Event")],
        (True, False, None), "QueueOps", "EventQueue.add_event (heapq.heappush ↦ Heap.heappush)"),
    _st("queue_add_events", QPY, ("EventQueue", "add_events"), "Queue.State", [("events", "events", "List Event")],
        (True, False, None), "QueueOps", "EventQueue.add_events"),
    _st("queue_get_event", QPY, ("EventQueue", "get_event"), "Queue.State", [], (True, True, "Event"), "QueueOps",
        "EventQueue.get_event (heapq.heappop ↦ Heap.heappop)"),
    _st("queue_get_current_events", QPY, ("EventQueue", "get_current_events"), "Queue.State",
        [("timestep", "timestep", "Int")], (True, True, "List Event"), "QueueOps",
        "EventQueue.get_current_events (the `while` loop by recursion on `fuel`)", fuel=True),
    _st("queue_get_last_timestamp", QPY, ("EventQueue", "get_last_timestamp"), "Queue.State", [],
        (False, True, "Option Int"), "QueueOps", "EventQueue.get_last_timestamp"),
    # group EvseOps (C13, C01): models/evse.py BaseEVSE on `Evse.Evse K` of AcnModel/Evse.lean
    _st("evse_plugin", EVSEPY, ("BaseEVSE", "plugin"), "Evse.Evse K", [("ev", "ev", "Evse.Ev K")], (True, True, None),
        "EvseOps", "BaseEVSE.plugin"),
    _st("evse_unplug", EVSEPY, ("BaseEVSE", "unplug"), "Evse.Evse K", [], (True, False, None), "EvseOps",
        "BaseEVSE.unplug"),
    _st("evse_set_pilot", EVSEPY, ("BaseEVSE", "set_pilot"), "Evse.Evse K",
        [("$atol", "atol", "K"), ("$fixedAtol", "fixedAtol", "K"), ("$nu", "ν", "K"), ("pilot", "pilot", "K"),
         ("voltage", "voltage", "K"), ("period", "period", "K")], (True, True, None), "EvseOps",
        "BaseEVSE.set_pilot (`_valid_rate` ↦ Evse.validRate on the EVSE's class, `EV.charge` ↦ Evse.Ev.charge with the draw ν)"),
    # group NetOps (C01, C13, C19): network/charging_network.py on `PyNet K` (`_EVSEs` as an association list)
    _st("net_plugin", NETPY, ("ChargingNetwork", "plugin"), "PyNet K",
        [("ev", "ev", "Evse.Ev K"), ("station_id", "station_id", "Option String")], (True, True, None), "NetOps",
        "ChargingNetwork.plugin"),
    _st("net_unplug", NETPY, ("ChargingNetwork", "unplug"), "PyNet K",
        [("station_id", "station_id", "String"), ("session_id", "session_id", "Option String")], (True, True, None),
        "NetOps", "ChargingNetwork.unplug"),
    _st("net_get_ev", NETPY, ("ChargingNetwork", "get_ev"), "PyNet K", [("station_id", "station_id", "String")],
        (False, True, "Option (Evse.Ev K)"), "NetOps", "ChargingNetwork.get_ev"),
    _st("net_active_evs", NETPY, ("ChargingNetwork", "active_evs"), "PyNet K", [],
        (False, True, "List (Option (Evse.Ev K))"), "NetOps", "ChargingNetwork.active_evs"),
    # group SimEvent (C01, C05, C19): Simulator._process_event, parametric in the network and the queue object
    _st("sim_process_event", SIMPY, ("Simulator", "_process_event"), "PySim K σ τ",
        [("$np", "netPlugin", "σ → Evse.Ev K → σ × Except PyErr Unit"),
         ("$nu", "netUnplug", "σ → String → Option String → σ × Except PyErr Unit"), ("$qa", "queueAdd", "τ → Event → τ"),
         ("event", "event", "PyEvent K")], (True, True, None), "SimEvent",
        "Simulator._process_event (network.plugin / network.unplug / event_queue.add_event are parameters)",
        extra_binders="{σ τ : Type}", noops=("self._print",)),
    # group StochOps (C19): contrib/acnsim/network/stochastic_network.py on `PyStNet K`, with the methods of EV / BaseEVSE /
    # ChargingNetwork it calls translated again on the representation whose `station_id` may be None
    _st("stev_update_station_id", EVPY, ("EV", "update_station_id"), "PyStEv K",
        [("station_id", "station_id", "Option String")], (True, False, None), "StochOps", "EV.update_station_id"),
    _st("stevse_plugin", EVSEPY, ("BaseEVSE", "plugin"), "PyStEvse K", [("ev", "ev", "PyStEv K")], (True, True, None),
        "StochOps", "BaseEVSE.plugin (on an EV whose station may be None)"),
    _st("stevse_unplug", EVSEPY, ("BaseEVSE", "unplug"), "PyStEvse K", [], (True, False, None), "StochOps",
        "BaseEVSE.unplug"),
    _st("stnet_base_plugin", NETPY, ("ChargingNetwork", "plugin"), "PyStNet K",
        [("ev", "ev", "PyStEv K"), ("station_id", "station_id", "Option String")], (True, True, None), "StochOps",
        "ChargingNetwork.plugin (the `super().plugin` of StochasticNetwork)"),
    _st("stnet_available_evses", STOCHPY, ("StochasticNetwork", "available_evses"), "PyStNet K", [],
        (False, False, "List String"), "StochOps", "StochasticNetwork.available_evses"),
    _st("stnet_plugin", STOCHPY, ("StochasticNetwork", "plugin"), "PyStNet K",
        [("$rho", "ρ", "Nat"), ("ev", "ev", "PyStEv K"), ("station_id", "station_id", "Option String")],
        (True, True, None), "StochOps",
        "StochasticNetwork.plugin (the result of `random.choice` is the input ρ; `ev` is mutated: returned next to self)",
        inout=("ev",)),
    _st("stnet_unplug", STOCHPY, ("StochasticNetwork", "unplug"), "PyStNet K",
        [("station_id", "station_id", "Option String"), ("session_id", "session_id", "Option String")],
        (True, True, None), "StochOps", "StochasticNetwork.unplug (station_id as the Simulator passes it: ev.station_id, maybe None)"),
    _st("stnet_post_charging_update", STOCHPY, ("StochasticNetwork", "post_charging_update"), "PyStNet K", [],
        (True, True, None), "StochOps", "StochasticNetwork.post_charging_update"),
]

TR_CLASS = {"net_limit_test": _NpTr, "alg_limit_test": _NpTr, "alg_limit_test_linear": _NpTr}

PATHS = {(t.rel, t.path): t for t in TARGETS if t.path is not None and t.select is None}
GROUP_IMPORTS = {"Fit": ["AcnModel.Sessions"], "Analysis": ["AcnModel.Analysis"], "Queue": ["AcnModel.Event"],
                 "Tariff": ["AcnModel.Tariff"], "QueueOps": ["AcnModel.Gen.CodePrelude"],
                 "EvseOps": ["AcnModel.Gen.CodePrelude"], "NetOps": ["AcnModel.Gen.CodePrelude", "AcnModel.Gen.CodeEvseOps"],
                 "SimEvent": ["AcnModel.Gen.CodePrelude"],
                 "StochOps": ["AcnModel.Gen.CodePrelude", "AcnModel.Gen.CodePreludeStoch"]}


GROUPS = ["Battery", "Evse", "Sim", "Sorted", "Fit", "Net", "Analysis", "Queue", "Tariff",
          "Prelude", "QueueOps", "EvseOps", "NetOps", "SimEvent", "PreludeStoch", "StochOps"]  # "SortTable" targets are emitted outside the K-section of Sorted


_STATUS = {}   # group -> {lean name: "ok" | "untranslated: …"} of the last gen_code(group) of this process


def gen_code(group: str) -> str:
    if group == "Prelude":
        return PRELUDE
    if group == "PreludeStoch":
        return PRELUDE_STOCH
    out = ["/- GENERATED by harness/translate_code.py from /repo's working tree — do not edit.",
           "   Mechanical translation of the bodies of small numeric methods (T1c); the tie theorems",
           f"   `Gen.Code.<f> = <hand model>` are in AcnProofs/Lemmas/CodeTie{group}.lean. -/",
           "import AcnModel.Evse"] + [f"import {m}" for m in GROUP_IMPORTS.get(group, [])] + [
           ""] + (["set_option linter.unusedVariables false", ""] if any(t.kind == "state" for t in TARGETS if t.group == group) else []) + [
           "namespace Acn.Gen.Code", "open Acn Acn.Battery Acn.Evse", "",
           "section",
           "variable {K : Type} [Add K] [Sub K] [Mul K] [Div K] [Neg K] [LT K] [LE K]",
           "  [DecidableLT K] [DecidableLE K] [OfNat K 0] [OfNat K 1] [NatCast K] [HasExp K]", ""]
    cache = {}
    status = []
    done = {}
    for t in [t for t in TARGETS if t.group == group]:
        try:
            if t.rel not in cache:
                s = _src(t.rel)
                cache[t.rel] = (s, ast.parse(s))
            s, tree = cache[t.rel]
            cls = _AmpTr if t.lean_name == "amp_periods" else (_KeyTr if t.lean_name in ("laxity_key", "rpt_key") else Tr)
            cls = TR_CLASS.get(t.lean_name, cls)
            if t.kind == "state":
                cls = STr
            tr = cls(t, s, tree, done)
            body = tr.function()
            out.extend(tr.aux)
            out.append(f"/-- {t.rel}: {t.doc} (translated) -/")
            out.append(tr.header())
            out.append(body)
            out.append("")
            status.append((t.lean_name, "ok"))
            done[t.lean_name] = "ok"
        except Exception as e:  # whatever goes wrong, the definition is simply not emitted
            # the definition is NOT emitted: the tie theorem that names it no longer compiles
            msg = str(e).replace("-/", "- /")
            out.append(f"/- {t.rel}: {t.doc}: NOT TRANSLATED — {type(e).__name__}: {msg} -/")
            out.append("")
            status.append((t.lean_name, f"untranslated: {msg}"))
    out.append("end")
    out.append("")
    if group == "Sorted":
        for t in [t for t in TARGETS if t.group == "SortTable"]:
            try:
                if t.rel not in cache:
                    s = _src(t.rel)
                    cache[t.rel] = (s, ast.parse(s))
                s, tree = cache[t.rel]
                tr = Tr(t, s, tree)
                body = tr.function()
                out.append(f"/-- {t.rel}: {t.doc} (translated) -/")
                out.append(tr.header())
                out.append(body)
                out.append("")
                status.append((t.lean_name, "ok"))
            except Exception as e:  # whatever goes wrong, the definition is simply not emitted
                msg = str(e).replace("-/", "- /")
                out.append(f"/- {t.rel}: {t.doc}: NOT TRANSLATED — {type(e).__name__}: {msg} -/")
                out.append("")
                status.append((t.lean_name, f"untranslated: {msg}"))
    _STATUS[group] = dict(status)
    out.append("/-- which targets were translated in this run -/")
    out.append(f"def translated{group} : List String := [" + ", ".join(f'"{n}"' for n, st in status if st == "ok") + "]")
    out.append("end Acn.Gen.Code")
    return "\n".join(out) + "\n"


if __name__ == "__main__":
    for g in GROUPS:
        print(gen_code(g))
