#!/venv/bin/python
"""T1c — translate the BODIES of small numeric methods of /repo's current working tree into Lean.

`translate.py` (T1) regenerates data and constants; the algorithmic code is hand-modelled and tied by
the correspondence harness (T2).  This module adds a third tie for the straight-line numeric kernels
(battery laws, `EV.charge`, the EVSE validity predicates, `fully_charged`, amp-period conversion, the
recompute trigger of `Simulator.run`): their Python ASTs are translated MECHANICALLY into Lean
definitions in `lean/AcnModel/Gen/Code.lean` (shallow embedding, polymorphic in the carrier `K` exactly
like the hand-written models), and `lean/AcnProofs/Lemmas/CodeTie*.lean` prove, for every input,
`Gen.Code.<f> = <hand model>` — so a change of a comparison, a clamp, an operand order, a tolerance or
an assignment in one of these functions breaks a kernel-checked proof obligation even if no generated
test input happens to land on the affected edge.

Python subset (anything else raises `Unsupported`, which makes the generated file carry a
`#eval`-free error stub so that the tie theorem no longer compiles and the check runs its
failing-input search):

  statements   docstrings / `warnings.warn(...)` / `if …: warnings.warn(...)`      skipped
               `if c: raise E(...)`  (guards), `raise E(...)`                        `.error .<e>`
               `x = e`, `x += e`, `self.a = e`, `self.a += e`                        `let` (SSA by shadowing)
               `if / elif / else` whose branches only assign                         `let v := if c then … else …`
               `if / elif / else` whose taken branch returns / raises                `if c then … else <rest>`
               `return e`                                                            `.ok (self, e)` / `e`
  expressions  + - * /, unary -, comparisons (chains of two), and / or / not, `x is None`,
               `x is not None`, int and decimal literals (exact), `min([..])`, `min(a,b,..)`,
               `max(a,b)`, `abs`, `np.exp`, `np.random.normal(0, σ)` (the draw is the input `ν`),
               `np.isclose(a, b, atol=t, rtol=0)`, `np.any(np.isclose(p, xs, atol=t, rtol=0))`,
               attribute reads through a per-target NAME MAP (`self._capacity` ↦ `self.capacity`),
               `@property` reads (inlined from their own translated bodies), and calls listed in the
               target's CALL MAP (e.g. `self._battery.charge(..)` ↦ a bind on `Battery.charge`).

Python semantics that are NOT translated (recorded in the trusted base): `ZeroDivisionError` of float
division (the tie theorems are stated for the inputs on which the hand model does not report
`zeroDivision`), NaN/inf corner cases of comparisons, exceptions' messages.
"""
from __future__ import annotations

import ast
import os
from fractions import Fraction

REPO = os.environ.get("ACN_REPO", "/repo")


class Unsupported(Exception):
    pass


# --------------------------------------------------------------------------------------- helpers


def _src(rel):
    return open(os.path.join(REPO, rel)).read()


def _find_class(tree, name):
    for n in ast.walk(tree):
        if isinstance(n, ast.ClassDef) and n.name == name:
            return n
    raise Unsupported(f"class {name} not found")


def _find_func(node, name):
    for n in node.body:
        if isinstance(n, (ast.FunctionDef,)) and n.name == name:
            return n
    raise Unsupported(f"function {name} not found in {getattr(node, 'name', '<module>')}")


def _is_docstring(st):
    return isinstance(st, ast.Expr) and isinstance(st.value, ast.Constant) and isinstance(st.value.value, str)


def _is_warn_call(st):
    if not (isinstance(st, ast.Expr) and isinstance(st.value, ast.Call)):
        return False
    f = st.value.func
    return (isinstance(f, ast.Attribute) and f.attr == "warn") or (isinstance(f, ast.Name) and f.id == "warn")


def _only_warns(stmts):
    return all(_is_warn_call(s) or _is_docstring(s) or isinstance(s, ast.Pass) for s in stmts)


def _terminates(stmts):
    """every path through `stmts` ends in return / raise"""
    if not stmts:
        return False
    last = stmts[-1]
    if isinstance(last, (ast.Return, ast.Raise)):
        return True
    if isinstance(last, ast.If):
        return _terminates(last.body) and _terminates(last.orelse)
    return False


def _has_exit(stmts):
    for s in stmts:
        for n in ast.walk(s):
            if isinstance(n, (ast.Return, ast.Raise)):
                return True
    return False


class Target:
    """One function to translate.

    kind      'method'  state-passing: returns `Except Err (Self × K)` (or `Except Err Self` if `unit`)
              'pure'    returns the value of the `return` expression (type `ret`)
    """

    def __init__(self, lean_name, rel, cls, func, *, self_type=None, params=(), ret="K", kind="pure",
                 attrs=None, props=None, err_type=None, errs=None, calls=None, noise=None, unit=False,
                 extra_binders="", select=None, doc="", bool_result=False, locals_types=None, group="Battery"):
        self.lean_name = lean_name
        self.rel = rel
        self.cls = cls
        self.func = func
        self.self_type = self_type
        self.params = list(params)  # [(python name, lean binder name, lean type)]
        self.ret = ret
        self.kind = kind
        self.attrs = attrs or {}  # python attribute of self -> lean field expr (with `self`)
        self.props = props or {}  # python property name -> (cls, func) to inline
        self.err_type = err_type
        self.errs = errs or {}
        self.calls = calls or {}
        self.noise = noise
        self.unit = unit
        self.extra_binders = extra_binders
        self.select = select  # optional: function picking the AST node to translate
        self.doc = doc
        self.bool_result = bool_result
        self.locals_types = locals_types or {}
        self.group = group


class Tr:
    def __init__(self, target: Target, source: str, tree: ast.AST):
        self.t = target
        self.source = source
        self.tree = tree
        self.pnames = {p[0]: p[1] for p in target.params}

    # ------------------------------------------------------------------ literals
    def lit(self, node):
        v = node.value
        if isinstance(v, bool):
            return "true" if v else "false"
        if isinstance(v, int):
            if v == 0:
                return "(0 : K)"
            if v == 1:
                return "(1 : K)"
            if v < 0:
                raise Unsupported("negative literal")
            return f"(({v} : Nat) : K)"
        if isinstance(v, float):
            text = ast.get_source_segment(self.source, node).replace("_", "")
            fr = Fraction(text)
            if fr.denominator == 1:
                return self.lit(ast.Constant(value=int(fr.numerator)))
            return f"((({fr.numerator} : Nat) : K) / (({fr.denominator} : Nat) : K))"
        raise Unsupported(f"literal {v!r}")

    # ------------------------------------------------------------------ expressions (numeric)
    def expr(self, n, env):
        if isinstance(n, ast.Constant):
            return self.lit(n)
        if isinstance(n, ast.Name):
            if n.id in env:
                return env[n.id]
            if n.id in self.pnames:
                return self.pnames[n.id]
            raise Unsupported(f"free name {n.id}")
        if isinstance(n, ast.Attribute):
            return self.attr(n, env)
        if isinstance(n, ast.BinOp):
            op = {ast.Add: "+", ast.Sub: "-", ast.Mult: "*", ast.Div: "/"}.get(type(n.op))
            if op is None:
                raise Unsupported(f"operator {type(n.op).__name__}")
            return f"({self.expr(n.left, env)} {op} {self.expr(n.right, env)})"
        if isinstance(n, ast.UnaryOp):
            if isinstance(n.op, ast.USub):
                return f"(-{self.expr(n.operand, env)})"
            if isinstance(n.op, ast.Not):
                return f"(!{self.bexpr(n.operand, env)})"
            raise Unsupported("unary op")
        if isinstance(n, ast.IfExp):
            return f"(if {self.cond(n.test, env)} then {self.expr(n.body, env)} else {self.expr(n.orelse, env)})"
        if isinstance(n, ast.Call):
            return self.call(n, env)
        if isinstance(n, (ast.Compare, ast.BoolOp)):
            return self.bexpr(n, env)
        raise Unsupported(f"expression {type(n).__name__}")

    def attr(self, n, env):
        # self.<a>
        if isinstance(n.value, ast.Name) and n.value.id == "self":
            if n.attr in self.t.attrs:
                return self.t.attrs[n.attr].replace("self", env.get("self", "self"))
            if n.attr in self.t.props:
                return self.inline_prop(n.attr, env)
            raise Unsupported(f"attribute self.{n.attr}")
        # <param>.<a>  via attrs key "param.attr"
        if isinstance(n.value, ast.Name):
            key = f"{n.value.id}.{n.attr}"
            if key in self.t.attrs:
                return self.t.attrs[key]
            if key in self.t.props:
                return self.inline_prop(key, env)
        raise Unsupported(f"attribute {ast.unparse(n)}")

    def inline_prop(self, name, env):
        cls, func = self.t.props[name]
        fn = _find_func(_find_class(self.tree, cls), func)
        body = [s for s in fn.body if not _is_docstring(s)]
        if len(body) != 1 or not isinstance(body[0], ast.Return):
            raise Unsupported(f"property {name} is not a single return")
        # a property of another object: rebind `self.` attribute keys with the prefix
        if "." in name:
            prefix = name.split(".")[0]
            sub = Tr(self.t, self.source, self.tree)
            sub_attrs = {}
            for k, v in self.t.attrs.items():
                if k.startswith(prefix + "."):
                    sub_attrs[k.split(".", 1)[1]] = v
            sub_props = {}
            for k, v in self.t.props.items():
                if k.startswith(prefix + "."):
                    sub_props[k.split(".", 1)[1]] = v
            t2 = Target(self.t.lean_name, self.t.rel, cls, func, attrs=sub_attrs, props=sub_props, params=self.t.params)
            sub = Tr(t2, self.source, self.tree)
            return sub.expr(body[0].value, {})
        return self.expr(body[0].value, env)

    def call(self, n, env):
        f = n.func
        fname = ast.unparse(f)
        if fname in ("min", "max"):
            args = n.args
            if len(args) == 1 and isinstance(args[0], (ast.List, ast.Tuple)):
                args = args[0].elts
            xs = [self.expr(a, env) for a in args]
            if fname == "max":
                if len(xs) != 2:
                    raise Unsupported("max arity")
                return f"(pyMax {xs[0]} {xs[1]})"
            if len(xs) == 2:
                return f"(pyMin {xs[0]} {xs[1]})"
            if len(xs) == 3:
                return f"(pyMin3 {xs[0]} {xs[1]} {xs[2]})"
            if len(xs) == 4:
                return f"(pyMin4 {xs[0]} {xs[1]} {xs[2]} {xs[3]})"
            raise Unsupported("min arity")
        if fname == "abs":
            return f"(absK {self.expr(n.args[0], env)})"
        if fname in ("np.exp", "numpy.exp", "math.exp"):
            return f"(HasExp.exp {self.expr(n.args[0], env)})"
        if fname in ("np.random.normal", "numpy.random.normal"):
            if self.t.noise is None:
                raise Unsupported("random draw without a noise input")
            if not (len(n.args) == 2 and isinstance(n.args[0], ast.Constant) and n.args[0].value == 0):
                raise Unsupported("normal() with a non-zero mean")
            exp_sigma = self.t.noise[1]
            got = self.expr(n.args[1], env)
            if got != exp_sigma.replace("self", env.get("self", "self")) and got != exp_sigma:
                raise Unsupported(f"normal() sigma is {got}, the model draws for {exp_sigma}")
            return self.t.noise[0]
        if fname in ("np.isclose", "numpy.isclose"):
            return self.isclose(n, env)
        if fname in ("np.any", "numpy.any") and len(n.args) == 1 and isinstance(n.args[0], ast.Call) \
                and ast.unparse(n.args[0].func) in ("np.isclose", "numpy.isclose"):
            inner = n.args[0]
            a = self.expr(inner.args[0], env)
            xs = self.expr(inner.args[1], env)
            atol = self._isclose_tols(inner, env)
            return f"({xs}.any (fun a => isclose0 {a} a {atol}))"
        if fname in self.t.calls:
            raise Unsupported(f"call {fname} is only supported as a statement-level bind")
        raise Unsupported(f"call {fname}")

    def _isclose_tols(self, n, env):
        kw = {k.arg: k.value for k in n.keywords}
        if "rtol" not in kw or not (isinstance(kw["rtol"], ast.Constant) and kw["rtol"].value == 0):
            raise Unsupported("isclose with rtol != 0")
        if "atol" not in kw:
            raise Unsupported("isclose without atol")
        return self.expr(kw["atol"], env)

    def isclose(self, n, env):
        a = self.expr(n.args[0], env)
        b = self.expr(n.args[1], env)
        return f"(isclose0 {a} {b} {self._isclose_tols(n, env)})"

    # ------------------------------------------------------------------ conditions
    def cmp_prop(self, left, op, right, env):
        l, r = self.expr(left, env), self.expr(right, env)
        if isinstance(op, ast.Lt):
            return f"{l} < {r}"
        if isinstance(op, ast.LtE):
            return f"{l} ≤ {r}"
        if isinstance(op, ast.Gt):
            return f"{r} < {l}"
        if isinstance(op, ast.GtE):
            return f"{r} ≤ {l}"
        if isinstance(op, ast.Eq):
            # Python float equality through the order (so that it unfolds at every carrier)
            return None
        raise Unsupported(f"comparison {type(op).__name__}")

    def cond(self, n, env):
        """a condition of `if`: a Prop for a plain comparison, otherwise `<bool> = true`"""
        if isinstance(n, ast.Compare) and len(n.ops) == 1 and not isinstance(n.ops[0], (ast.Eq, ast.Is, ast.IsNot, ast.NotEq)):
            return self.cmp_prop(n.left, n.ops[0], n.comparators[0], env)
        return self.bexpr(n, env)

    def bexpr(self, n, env):
        """a Bool"""
        if isinstance(n, ast.Compare):
            parts = []
            left = n.left
            for op, right in zip(n.ops, n.comparators):
                if isinstance(op, (ast.Is, ast.IsNot)):
                    if not (isinstance(right, ast.Constant) and right.value is None):
                        raise Unsupported("`is` with something other than None")
                    e = self.expr(left, env)
                    parts.append(f"({e}).isNone" if isinstance(op, ast.Is) else f"({e}).isSome")
                elif isinstance(op, ast.Eq):
                    l, r = self.expr(left, env), self.expr(right, env)
                    parts.append(f"(decide ({r} ≤ {l}) && decide ({l} ≤ {r}))")
                else:
                    parts.append(f"decide ({self.cmp_prop(left, op, right, env)})")
                left = right
            return parts[0] if len(parts) == 1 else "(" + " && ".join(parts) + ")"
        if isinstance(n, ast.BoolOp):
            op = " && " if isinstance(n.op, ast.And) else " || "
            return "(" + op.join(self.bexpr(v, env) for v in n.values) + ")"
        if isinstance(n, ast.UnaryOp) and isinstance(n.op, ast.Not):
            return f"(!{self.bexpr(n.operand, env)})"
        if isinstance(n, ast.Call):
            return self.call(n, env)
        if isinstance(n, ast.Constant) and isinstance(n.value, bool):
            return "true" if n.value else "false"
        if isinstance(n, (ast.Name, ast.Attribute)):
            return self.expr(n, env)
        raise Unsupported(f"boolean expression {type(n).__name__}")

    # ------------------------------------------------------------------ statements
    def assigned(self, stmts, acc=None):
        """targets assigned anywhere in an assignment-only block, in order of first assignment"""
        acc = [] if acc is None else acc
        for s in stmts:
            if isinstance(s, (ast.Assign, ast.AugAssign)):
                tg = s.targets[0] if isinstance(s, ast.Assign) else s.target
                key = self.target_key(tg)
                if key not in acc:
                    acc.append(key)
            elif isinstance(s, ast.If):
                self.assigned(s.body, acc)
                self.assigned(s.orelse, acc)
            elif _is_docstring(s) or _is_warn_call(s) or isinstance(s, ast.Pass):
                pass
            else:
                raise Unsupported(f"statement {type(s).__name__} inside an assignment block")
        return acc

    def always_assigned(self, stmts):
        """keys assigned on EVERY path through an assignment-only block"""
        acc = set()
        for s in stmts:
            if isinstance(s, (ast.Assign, ast.AugAssign)):
                acc.add(self.target_key(s.targets[0] if isinstance(s, ast.Assign) else s.target))
            elif isinstance(s, ast.If) and s.orelse:
                acc |= self.always_assigned(s.body) & self.always_assigned(s.orelse)
        return acc

    def live_keys(self, s, env):
        """variables an assignment-style `if` defines for the code after it: those that had a value
        before, or get one on every path; a name assigned in one branch only is a branch-local temporary"""
        both = self.always_assigned([s])
        return [k for k in self.assigned([s]) if k == "self" or k in env or k in self.pnames or k in both]

    def target_key(self, tg):
        if isinstance(tg, ast.Name):
            return tg.id
        if isinstance(tg, ast.Attribute) and isinstance(tg.value, ast.Name) and tg.value.id == "self":
            return "self"
        raise Unsupported(f"assignment target {ast.unparse(tg)}")

    def assign_value(self, s, env):
        """(key, lean value) of one assignment under env"""
        tg = s.targets[0] if isinstance(s, ast.Assign) else s.target
        if isinstance(s, ast.Assign) and len(s.targets) != 1:
            raise Unsupported("multiple assignment targets")
        val = self.expr(s.value, env)
        if isinstance(s, ast.AugAssign):
            op = {ast.Add: "+", ast.Sub: "-", ast.Mult: "*", ast.Div: "/"}.get(type(s.op))
            if op is None:
                raise Unsupported("augmented operator")
            cur = self.expr(tg, env)
            val = f"({cur} {op} {val})"
        if isinstance(tg, ast.Name):
            return tg.id, val
        # self.attr = val
        if tg.attr not in self.t.attrs:
            raise Unsupported(f"assignment to unmapped attribute self.{tg.attr}")
        field = self.t.attrs[tg.attr]
        if not field.startswith("self."):
            raise Unsupported(f"assignment to a computed attribute self.{tg.attr}")
        me = env.get("self", "self")
        return "self", f"{{ {me} with {field[5:]} := {val} }}"

    def block_value(self, stmts, key, env):
        """value of `key` after running an assignment-only block from env (None if untouched)"""
        env = dict(env)
        lets = []
        touched = False
        for s in stmts:
            if _is_docstring(s) or _is_warn_call(s) or isinstance(s, ast.Pass):
                continue
            if isinstance(s, ast.If):
                if _only_warns(s.body) and not s.orelse:
                    continue
                for k in self.live_keys(s, env):
                    v = self.if_value(s, k, env)
                    nm = self.fresh(k, env)
                    lets.append(f"let {nm} := {v}")
                    env[k] = nm
                    if k == key:
                        touched = True
                continue
            k, v = self.assign_value(s, env)
            nm = self.fresh(k, env)
            lets.append(f"let {nm} := {v}")
            env[k] = nm
            if k == key:
                touched = True
        if not touched:
            return None
        # drop lets after the last assignment of key that key does not depend on: keep it simple — keep all
        # lets up to the last definition of key
        last = max(i for i, l in enumerate(lets) if l.startswith(f"let {env[key]} :="))
        lets = lets[: last + 1]
        if len(lets) == 1:
            return lets[0].split(":=", 1)[1].strip()
        return "(" + "; ".join(lets) + f"; {env[key]})"

    def fresh(self, key, env):
        return key if key != "self" else "self"

    def if_value(self, s, key, env):
        c = self.cond(s.test, env)
        old = env.get(key) if key in env else (self.pnames.get(key))
        if key == "self":
            old = env.get("self", "self")
        a = self.block_value(s.body, key, env)
        b = self.block_value(s.orelse, key, env) if s.orelse else None
        if a is None and b is None:
            raise Unsupported("if_value on an untouched key")
        if a is None:
            a = old
        if b is None:
            b = old
        if a is None or b is None:
            raise Unsupported(f"variable {key} is assigned in one branch only and has no earlier value")
        return f"(if {c} then {a} else {b})"

    def stmts(self, body, env, indent="  "):
        """translate a statement list that ends in return / raise on every path"""
        if not body:
            if self.t.kind == "method" and self.t.unit:
                return f"{indent}.ok {env.get('self', 'self')}"
            raise Unsupported("control reaches the end of the function without a return")
        s, rest = body[0], body[1:]
        if _is_docstring(s) or _is_warn_call(s) or isinstance(s, ast.Pass):
            return self.stmts(rest, env, indent)
        if isinstance(s, ast.Raise):
            return f"{indent}.error {self.err(s)}"
        if isinstance(s, ast.Return):
            return indent + self.ret(s, env)
        if isinstance(s, (ast.Assign, ast.AugAssign)):
            # statement-level bind on a mapped call
            if isinstance(s, ast.Assign) and isinstance(s.value, ast.Call) and ast.unparse(s.value.func) in self.t.calls:
                return self.bind(s, rest, env, indent)
            k, v = self.assign_value(s, env)
            env2 = dict(env)
            env2[k] = k
            return f"{indent}let {k} := {v}\n" + self.stmts(rest, env2, indent)
        if isinstance(s, ast.Expr) and isinstance(s.value, ast.Call) and ast.unparse(s.value.func) in self.t.calls:
            return self.bind(s, rest, env, indent)
        if isinstance(s, ast.If):
            if _only_warns(s.body) and not s.orelse:
                return self.stmts(rest, env, indent)
            if _has_exit(s.body) or _has_exit(s.orelse):
                c = self.cond(s.test, env)
                if _terminates(s.body):
                    a = self.stmts(s.body, env, indent + "  ")
                    b = self.stmts(list(s.orelse) + rest, env, indent + "  ")
                    return f"{indent}if {c} then\n{a}\n{indent}else\n{b}"
                if s.orelse and _terminates(s.orelse):
                    a = self.stmts(list(s.body) + rest, env, indent + "  ")
                    b = self.stmts(s.orelse, env, indent + "  ")
                    return f"{indent}if {c} then\n{a}\n{indent}else\n{b}"
                raise Unsupported("if with a return/raise on some but not all paths of a branch")
            out = ""
            env2 = dict(env)
            for k in self.live_keys(s, env2):
                v = self.if_value(s, k, env2)
                out += f"{indent}let {k} := {v}\n"
                env2[k] = k
            return out + self.stmts(rest, env2, indent)
        raise Unsupported(f"statement {type(s).__name__}")

    def err(self, s):
        exc = s.exc
        name = exc.func.id if isinstance(exc, ast.Call) and isinstance(exc.func, ast.Name) else (exc.id if isinstance(exc, ast.Name) else None)
        if name not in self.t.errs:
            raise Unsupported(f"exception {name}")
        return self.t.errs[name]

    def ret(self, s, env):
        if self.t.kind == "pure":
            if s.value is None:
                raise Unsupported("bare return in a pure function")
            return self.bexpr(s.value, env) if self.t.bool_result else self.expr(s.value, env)
        me = env.get("self", "self")
        if self.t.unit:
            return f".ok {me}"
        if s.value is None:
            raise Unsupported("bare return")
        return f".ok ({me}, {self.expr(s.value, env)})"

    def bind(self, s, rest, env, indent):
        call = s.value
        spec = self.t.calls[ast.unparse(call.func)]
        args = " ".join(self.expr(a, env) for a in call.args)
        me = env.get("self", "self")
        callee = spec["lean"].replace("self", me)
        extra = (" " + spec["extra"]) if spec.get("extra") else ""
        env2 = dict(env)
        field = spec["state"]  # field of self that holds the callee's state
        out = f"{indent}match {callee} {args}{extra} with\n{indent}| .error x => .error x\n{indent}| .ok (st', r') =>\n"
        out += f"{indent}  let self := {{ {me} with {field} := st' }}\n"
        env2["self"] = "self"
        if isinstance(s, ast.Assign):
            tg = s.targets[0]
            if not isinstance(tg, ast.Name):
                raise Unsupported("bind target")
            out += f"{indent}  let {tg.id} := r'\n"
            env2[tg.id] = tg.id
        return out + self.stmts(rest, env2, indent + "  ")

    # ------------------------------------------------------------------ whole function
    def function(self):
        t = self.t
        if t.select is not None:
            return t.select(self)
        fn = _find_func(_find_class(self.tree, t.cls), t.func)
        pyargs = [a.arg for a in fn.args.args if a.arg != "self"]
        want = [p[0] for p in t.params if not p[0].startswith("$")]
        if pyargs != want:
            raise Unsupported(f"signature of {t.cls}.{t.func} is {pyargs}, the tie expects {want}")
        body = self.stmts(list(fn.body), {})
        return body

    def header(self):
        t = self.t
        bs = []
        if t.self_type:
            bs.append(f"(self : {t.self_type})")
        for _py, ln, ty in t.params:
            bs.append(f"({ln} : {ty})")
        if t.extra_binders:
            bs.append(t.extra_binders)
        if t.kind == "method":
            rt = f"Except {t.err_type} ({t.self_type})" if t.unit else f"Except {t.err_type} ({t.self_type} × K)"
        else:
            rt = t.ret
        return f"def {t.lean_name} {' '.join(bs)} : {rt} :="


# --------------------------------------------------------------------------------------- targets

BATT_ATTRS = {
    "_capacity": "self.capacity", "_current_charge": "self.charge", "_init_charge": "self.init",
    "_max_power": "self.maxPower", "_current_charging_power": "self.power",
    "_noise_level": "self.noiseLevel", "_transition_soc": "self.ts",
}
BATT_PROPS = {"_soc": ("Battery", "_soc")}
PVT = [("pilot", "pilot", "K"), ("voltage", "voltage", "K"), ("period", "period", "K")]
BATT = "acnportal/acnsim/models/battery.py"
EVPY = "acnportal/acnsim/models/ev.py"
EVSEPY = "acnportal/acnsim/models/evse.py"


def _sel_reset(tr: Tr):
    """Battery.reset(init_charge=None): the Optional argument becomes `Option K`."""
    fn = _find_func(_find_class(tr.tree, "Battery"), "reset")
    if [a.arg for a in fn.args.args] != ["self", "init_charge"]:
        raise Unsupported("signature of Battery.reset")
    body = [s for s in fn.body if not _is_docstring(s)]
    if not (len(body) == 2 and isinstance(body[0], ast.If)):
        raise Unsupported("shape of Battery.reset")
    iff, tail = body
    t = iff.test
    if not (isinstance(t, ast.Compare) and isinstance(t.ops[0], ast.Is) and ast.unparse(t.left) == "init_charge"
            and isinstance(t.comparators[0], ast.Constant) and t.comparators[0].value is None):
        raise Unsupported("Battery.reset does not start with `if init_charge is None`")
    none_branch = tr.stmts(list(iff.body) + [tail], {}, "    ")
    tr.pnames["init_charge"] = "c"
    some_branch = tr.stmts(list(iff.orelse) + [tail], {}, "    ")
    return f"  match init_charge with\n  | none =>\n{none_branch}\n  | some c =>\n{some_branch}"


def _sel_trigger(tr: Tr):
    """the condition of the `if` in Simulator.run's loop whose body calls `self.scheduler.run()`"""
    fn = _find_func(_find_class(tr.tree, "Simulator"), "run")
    hits = []
    for n in ast.walk(fn):
        if isinstance(n, ast.If) and any(
                isinstance(c, ast.Call) and ast.unparse(c.func) == "self.scheduler.run" for b in n.body for c in ast.walk(b)):
            hits.append(n)
    if len(hits) != 1:
        raise Unsupported("expected exactly one `if …: self.scheduler.run()` in Simulator.run")
    return "  " + tr.trigger(hits[0].test)


def _trigger(self: Tr, n):
    """Boolean over (resolve : Bool) (maxRecompute : Option Nat) (lastUpd : Option Int) (iter : Nat)"""
    if isinstance(n, ast.BoolOp):
        op = " && " if isinstance(n.op, ast.And) else " || "
        return "(" + op.join(self.trigger(v) for v in n.values) + ")"
    if isinstance(n, ast.Attribute) and ast.unparse(n) == "self._resolve":
        return "resolve"
    if isinstance(n, ast.Compare) and len(n.ops) == 1:
        l, r = ast.unparse(n.left), ast.unparse(n.comparators[0])
        if isinstance(n.ops[0], (ast.Is, ast.IsNot)) and r == "None":
            nm = {"self.max_recompute": "maxRecompute", "self._last_schedule_update": "lastUpd"}.get(l)
            if nm is None:
                raise Unsupported(f"trigger: `{l} is None`")
            return f"{nm}.isNone" if isinstance(n.ops[0], ast.Is) else f"{nm}.isSome"
        if l == "self._iteration - self._last_schedule_update" and r == "self.max_recompute":
            rel = {ast.GtE: "≤", ast.Gt: "<"}.get(type(n.ops[0]))
            if rel is None:
                raise Unsupported("trigger comparison")
            # both are `some` on this path (guarded by the `is not None` / `is None or` around it)
            return (f"(match maxRecompute, lastUpd with | some m, some u => decide ((m : Int) {rel} (iter : Int) - u) "
                    f"| _, _ => false)")
    raise Unsupported(f"trigger expression {ast.unparse(n)}")


Tr.trigger = _trigger


def _sel_amp_periods(tr: Tr):
    fn = _find_func(_find_class(tr.tree, "Interface"), "_convert_to_amp_periods")
    body = [s for s in fn.body if not _is_docstring(s)]
    if len(body) != 1 or not isinstance(body[0], ast.Return):
        raise Unsupported("shape of _convert_to_amp_periods")
    return "  " + tr.expr(body[0].value, {})


class _AmpTr(Tr):
    def call(self, n, env):
        if ast.unparse(n.func) == "self.evse_voltage":
            return "voltage"
        return super().call(n, env)



SORTED = "acnportal/algorithms/sorted_algorithms.py"


def _module_func(tree, name):
    for n in tree.body:
        if isinstance(n, ast.FunctionDef) and n.name == name:
            return n
    raise Unsupported(f"function {name} not found")


class _KeyTr(Tr):
    """sort-key helpers of sorted_algorithms.py: `iface.remaining_amp_periods(ev)` and
    `iface.max_pilot_signal(ev.station_id)` are inputs; `ev.estimated_departure - iface.current_time`
    is an integer difference cast to the carrier"""

    def call(self, n, env):
        f = ast.unparse(n.func)
        if f == "iface.remaining_amp_periods" and ast.unparse(n.args[0]) == "ev":
            return "rap"
        if f == "iface.max_pilot_signal" and ast.unparse(n.args[0]) == "ev.station_id":
            return "maxPilot"
        return super().call(n, env)

    def expr(self, n, env):
        if isinstance(n, ast.BinOp) and isinstance(n.op, ast.Sub) and ast.unparse(n.left) == "ev.estimated_departure" \
                and ast.unparse(n.right) == "iface.current_time":
            return "(((estDeparture - time : Int) : K))"
        return super().expr(n, env)


def _sel_inner(outer, inner):
    def sel(tr: Tr):
        fn = _module_func(tr.tree, outer)
        inn = [n for n in fn.body if isinstance(n, ast.FunctionDef) and n.name == inner]
        if len(inn) != 1:
            raise Unsupported(f"{outer} has no inner function {inner}")
        if [a.arg for a in inn[0].args.args] != ["ev"]:
            raise Unsupported(f"signature of {inner}")
        ret = [s for s in fn.body if isinstance(s, ast.Return)]
        if len(ret) != 1:
            raise Unsupported(f"{outer}: expected one return")
        return tr.stmts(list(inn[0].body), {})
    return sel


def _sel_sort_table(tr: Tr):
    """[(function, key, reverse)] for the five sort functions: key is an attribute of the session,
    or the name of the inner key function"""
    rows = []
    for name in ("first_come_first_served", "last_come_first_served", "earliest_deadline_first",
                 "least_laxity_first", "largest_remaining_processing_time"):
        fn = _module_func(tr.tree, name)
        ret = [s for s in fn.body if isinstance(s, ast.Return)]
        if len(ret) != 1 or not (isinstance(ret[0].value, ast.Call) and ast.unparse(ret[0].value.func) == "sorted"):
            raise Unsupported(f"{name}: expected `return sorted(evs, key=…)`")
        call = ret[0].value
        if [ast.unparse(a) for a in call.args] != ["evs"]:
            raise Unsupported(f"{name}: sorted over {ast.unparse(call.args[0])}")
        kw = {k.arg: k.value for k in call.keywords}
        if set(kw) - {"key", "reverse"} or "key" not in kw:
            raise Unsupported(f"{name}: sorted keywords {sorted(kw)}")
        key = kw["key"]
        if isinstance(key, ast.Lambda):
            arg = key.args.args[0].arg
            if not (isinstance(key.body, ast.Attribute) and ast.unparse(key.body.value) == arg):
                raise Unsupported(f"{name}: key lambda {ast.unparse(key)}")
            kname = key.body.attr
        elif isinstance(key, ast.Name):
            kname = key.id
        else:
            raise Unsupported(f"{name}: key {ast.unparse(key)}")
        rev = kw.get("reverse")
        if rev is not None and not (isinstance(rev, ast.Constant) and isinstance(rev.value, bool)):
            raise Unsupported(f"{name}: reverse={ast.unparse(rev)}")
        rows.append(f'("{name}", "{kname}", {"true" if (rev is not None and rev.value) else "false"})')
    return "  [" + ", ".join(rows) + "]"


TARGETS = [
    Target("battery_charge", BATT, "Battery", "charge", self_type="Batt K", params=PVT, kind="method",
           attrs=BATT_ATTRS, props=BATT_PROPS, err_type="Battery.Err", errs={"ValueError": ".valueError"},
           doc="Battery.charge"),
    Target("l2s_charge", BATT, "Linear2StageBattery", "_charge", self_type="Batt K",
           params=PVT + [("$nu", "ν", "K")], kind="method", attrs=BATT_ATTRS, props=BATT_PROPS,
           err_type="Battery.Err", errs={"ValueError": ".valueError"}, noise=("ν", "self.noiseLevel"),
           doc="Linear2StageBattery._charge"),
    Target("l2s_charge_stepwise", BATT, "Linear2StageBattery", "_charge_stepwise", self_type="Batt K",
           params=PVT + [("$nu", "ν", "K")], kind="method", attrs=BATT_ATTRS, props=BATT_PROPS,
           err_type="Battery.Err", errs={"ValueError": ".valueError"}, noise=("ν", "self.noiseLevel"),
           doc="Linear2StageBattery._charge_stepwise"),
    Target("battery_reset", BATT, "Battery", "reset", self_type="Batt K",
           params=[("init_charge", "init_charge", "Option K")], kind="method", unit=True, attrs=BATT_ATTRS,
           props=BATT_PROPS, err_type="Battery.Err", errs={"ValueError": ".valueError"}, select=_sel_reset,
           doc="Battery.reset"),
    Target("ev_charge", EVPY, "EV", "charge", self_type="Evse.Ev K", params=PVT + [("$nu", "ν", "K")], kind="method",
           attrs={"_energy_delivered": "self.delivered", "_current_charging_rate": "self.rate"},
           err_type="Battery.Err", errs={},
           calls={"self._battery.charge": {"lean": "Battery.charge self.batt", "state": "batt", "extra": "ν"}},
           doc="EV.charge"),
    Target("ev_fully_charged", EVPY, "EV", "fully_charged", self_type="Evse.Ev K", params=[], ret="Bool",
           kind="pure", bool_result=True,
           attrs={"requested_energy": "self.requested", "energy_delivered": "self.delivered"},
           props={"remaining_demand": ("EV", "remaining_demand")}, doc="EV.fully_charged", group="Sim"),
    Target("evse_valid_rate", EVSEPY, "EVSE", "_valid_rate", params=[("$mn", "minRate", "K"), ("$mx", "maxRate", "K"),
           ("pilot", "pilot", "K"), ("atol", "atol", "K")], ret="Bool", kind="pure", bool_result=True,
           attrs={"min_rate": "minRate", "max_rate": "maxRate"}, doc="EVSE._valid_rate (finite max_rate)", group="Evse"),
    Target("deadband_valid_rate", EVSEPY, "DeadbandEVSE", "_valid_rate",
           params=[("$db", "dbEnd", "K"), ("$mx", "maxRate", "K"), ("pilot", "pilot", "K"), ("atol", "atol", "K")],
           ret="Bool", kind="pure", bool_result=True,
           attrs={"_deadband_end": "dbEnd", "max_rate": "maxRate"}, doc="DeadbandEVSE._valid_rate (finite max_rate)", group="Evse"),
    Target("finite_valid_rate", EVSEPY, "FiniteRatesEVSE", "_valid_rate",
           params=[("$rates", "rates", "List K"), ("pilot", "pilot", "K"), ("atol", "atol", "K")],
           ret="Bool", kind="pure", bool_result=True, attrs={"allowable_rates": "rates"},
           doc="FiniteRatesEVSE._valid_rate", group="Evse"),
    Target("sim_needs_schedule", "acnportal/acnsim/simulator.py", "Simulator", "run",
           params=[("$r", "resolve", "Bool"), ("$m", "maxRecompute", "Option Nat"), ("$u", "lastUpd", "Option Int"),
                   ("$i", "iter", "Nat")], ret="Bool", kind="pure", select=_sel_trigger,
           doc="the recompute trigger of Simulator.run", group="Sim"),
    Target("amp_periods", "acnportal/acnsim/interface.py", "Interface", "_convert_to_amp_periods",
           params=[("kwh", "kwh", "K"), ("$v", "voltage", "K"), ("$p", "period", "K")], ret="K", kind="pure",
           attrs={"period": "period"}, select=_sel_amp_periods, doc="Interface._convert_to_amp_periods", group="Sorted"),
    Target("laxity_key", SORTED, None, "least_laxity_first",
           params=[("$d", "estDeparture", "Int"), ("$t", "time", "Int"), ("$r", "rap", "K"), ("$m", "maxPilot", "K")],
           ret="K", kind="pure", select=_sel_inner("least_laxity_first", "laxity"), extra_binders="[IntCast K]",
           doc="least_laxity_first.laxity", group="Sorted"),
    Target("rpt_key", SORTED, None, "largest_remaining_processing_time",
           params=[("$r", "rap", "K"), ("$m", "maxPilot", "K")], ret="K", kind="pure",
           select=_sel_inner("largest_remaining_processing_time", "remaining_processing_time"),
           doc="largest_remaining_processing_time.remaining_processing_time", group="Sorted"),
    Target("sort_table", SORTED, None, "sorted", params=[], ret="List (String × String × Bool)", kind="pure",
           select=_sel_sort_table, doc="the five sort functions: (function, key, reverse)", group="SortTable"),
]


GROUPS = ["Battery", "Evse", "Sim", "Sorted"]  # "SortTable" targets are emitted outside the K-section of Sorted


def gen_code(group: str) -> str:
    out = ["/- GENERATED by harness/translate_code.py from /repo's working tree — do not edit.",
           "   Mechanical translation of the bodies of small numeric methods (T1c); the tie theorems",
           f"   `Gen.Code.<f> = <hand model>` are in AcnProofs/Lemmas/CodeTie{group}.lean. -/",
           "import AcnModel.Evse", "", "namespace Acn.Gen.Code", "open Acn Acn.Battery Acn.Evse", "",
           "section",
           "variable {K : Type} [Add K] [Sub K] [Mul K] [Div K] [Neg K] [LT K] [LE K]",
           "  [DecidableLT K] [DecidableLE K] [OfNat K 0] [OfNat K 1] [NatCast K] [HasExp K]", ""]
    cache = {}
    status = []
    for t in [t for t in TARGETS if t.group == group]:
        try:
            if t.rel not in cache:
                s = _src(t.rel)
                cache[t.rel] = (s, ast.parse(s))
            s, tree = cache[t.rel]
            cls = _AmpTr if t.lean_name == "amp_periods" else (_KeyTr if t.lean_name in ("laxity_key", "rpt_key") else Tr)
            tr = cls(t, s, tree)
            body = tr.function()
            out.append(f"/-- {t.rel}: {t.doc} (translated) -/")
            out.append(tr.header())
            out.append(body)
            out.append("")
            status.append((t.lean_name, "ok"))
        except (Unsupported, SyntaxError, KeyError, AttributeError, IndexError, TypeError, ValueError) as e:
            # the definition is NOT emitted: the tie theorem that names it no longer compiles
            msg = str(e).replace("-/", "- /")
            out.append(f"/- {t.rel}: {t.doc}: NOT TRANSLATED — {type(e).__name__}: {msg} -/")
            out.append("")
            status.append((t.lean_name, f"untranslated: {msg}"))
    out.append("end")
    out.append("")
    if group == "Sorted":
        for t in [t for t in TARGETS if t.group == "SortTable"]:
            try:
                if t.rel not in cache:
                    s = _src(t.rel)
                    cache[t.rel] = (s, ast.parse(s))
                s, tree = cache[t.rel]
                tr = Tr(t, s, tree)
                body = tr.function()
                out.append(f"/-- {t.rel}: {t.doc} (translated) -/")
                out.append(tr.header())
                out.append(body)
                out.append("")
                status.append((t.lean_name, "ok"))
            except (Unsupported, SyntaxError, KeyError, AttributeError, IndexError, TypeError, ValueError) as e:
                msg = str(e).replace("-/", "- /")
                out.append(f"/- {t.rel}: {t.doc}: NOT TRANSLATED — {type(e).__name__}: {msg} -/")
                out.append("")
                status.append((t.lean_name, f"untranslated: {msg}"))
    out.append("/-- which targets were translated in this run -/")
    out.append(f"def translated{group} : List String := [" + ", ".join(f'"{n}"' for n, st in status if st == "ok") + "]")
    out.append("end Acn.Gen.Code")
    return "\n".join(out) + "\n"


if __name__ == "__main__":
    for g in GROUPS:
        print(gen_code(g))
