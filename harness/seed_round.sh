#!/bin/bash
# Maintainer tool (never part of a registered check): take every delivered candidate under <root> into seeded/_pending
# and confirm it (demo clean / apply / suite / demo patched / own property's quick check).  usage: seed_round.sh <root> <parallelism> [Cxx ...]
cd "$(dirname "$0")/.."
ROOT=${1:?root}; P=${2:-3}; shift 2
/venv/bin/python harness/seed_intake.py "$ROOT" "$@" | xargs -r -P "$P" -I{} sh -c 'p=$(echo {} | sed "s/-.*//"); /venv/bin/python harness/seedtool.py confirm {} --checks $p 2>&1 | grep -E "^check|^\{|patch does" | sed "s/^/{}: /"'
