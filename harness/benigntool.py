#!/venv/bin/python
"""Maintainer tool (never part of a registered check): run the checks against a BEHAVIOUR-PRESERVING refactor of /repo and
record whether any of them raises an alarm (a false alarm: the property still holds).

  benigntool.py <dir with patch.diff, diffcheck.py, notes.md> <name> [--checks C01,C02 | related] [--tier quick]
In a scratch worktree of /repo (outside /repo and /verif, removed afterwards):
  1. diffcheck.py on the clean tree -> digest;  2. git apply patch.diff;  3. the unedited suite -> must give the baseline;
  4. diffcheck.py on the patched tree -> the SAME digest;  5. every requested check with ACN_REPO=<worktree>: must exit 0.
Copies the refactor to benign/<name>/ and writes benign/<name>/meta.json.
"""
import argparse
import json
import os
import re
import shutil
import subprocess
import sys
import time

VERIF = os.path.dirname(os.path.dirname(os.path.abspath(__file__)))
PY = "/venv/bin/python"


def sh(cmd, cwd=None, env=None, timeout=7200):
    p = subprocess.run(cmd, cwd=cwd, env=env, capture_output=True, text=True, timeout=timeout)
    return p.returncode, p.stdout + p.stderr


def related(patch):
    files = set(re.findall(r"^\+\+\+ b/(\S+)", open(patch).read(), re.M))
    rel = []
    for l in open(os.path.join(VERIF, "properties.jsonl")):
        pr = json.loads(l)
        anch = set(pr["anchors"].get("files", []))
        if files & anch or any(f.startswith("acnportal/signals/tariffs/tariff_schedules") for f in files) and pr["id"] == "C17":
            rel.append(pr["id"])
    return rel


def main():
    ap = argparse.ArgumentParser()
    ap.add_argument("src")
    ap.add_argument("name")
    ap.add_argument("--checks", default="related")
    ap.add_argument("--tier", default="quick")
    ap.add_argument("--seed", default="0")
    a = ap.parse_args()
    dst = os.path.join(VERIF, "benign", a.name)
    os.makedirs(dst, exist_ok=True)
    for f in ("patch.diff", "diffcheck.py", "notes.md"):
        if os.path.exists(os.path.join(a.src, f)) and os.path.abspath(a.src) != os.path.abspath(dst):
            shutil.copy(os.path.join(a.src, f), dst)
    patch = os.path.join(dst, "patch.diff")
    checks = related(patch) if a.checks == "related" else [c for c in a.checks.split(",") if c]
    wt = f"/tmp/benignrun_{a.name}_{os.getpid()}"
    rc, out = sh(["git", "-C", "/repo", "worktree", "add", "--detach", wt, "HEAD"])
    if rc:
        print(out)
        return 2
    mp = os.path.join(dst, "meta.json")
    meta = json.load(open(mp)) if os.path.exists(mp) else {}
    try:
        dc = os.path.join(dst, "diffcheck.py")
        d0 = sh([PY, dc], cwd=wt)[1].strip().splitlines()[-1:] if os.path.exists(dc) else None
        rc_apply, out_apply = sh(["git", "apply", patch], cwd=wt)
        if rc_apply:
            print("patch does not apply:", out_apply)
            return 2
        rc_s, out_s = sh([PY, "-m", "pytest", "-q", "-p", "no:cacheprovider", "--timeout=900", "--continue-on-collection-errors"], cwd=wt)
        m = re.search(r"(\d+) passed", out_s)
        mf = re.search(r"(\d+) failed", out_s)
        d1 = sh([PY, dc], cwd=wt)[1].strip().splitlines()[-1:] if os.path.exists(dc) else None
        meta.update({"repo_head": sh(["git", "-C", "/repo", "rev-parse", "--short", "HEAD"])[1].strip(),
                     "suite_with_patch": {"passed": int(m.group(1)) if m else -1, "failed": int(mf.group(1)) if mf else 0},
                     "digest_clean": d0, "digest_patched": d1, "behaviour_preserved_by_diffcheck": d0 == d1 and d0 is not None,
                     "files": sorted(set(re.findall(r"^\+\+\+ b/(\S+)", open(patch).read(), re.M)))})
        res = meta.get("checks", {})
        for c in checks:
            env = dict(os.environ, ACN_REPO=wt, VERIF_SEED=a.seed)
            t0 = time.time()
            rc, out = sh([PY, "harness/check.py", c, "--tier", a.tier], cwd=VERIF, env=env)
            vio = [l for l in out.splitlines() if l.startswith("VIOLATION")]
            note = None
            ev = os.path.join(VERIF, "evidence_scratch", f"{c}.json")
            if os.path.exists(ev):
                try:
                    cov = json.load(open(ev))["coverage"]
                    note = {"code_tie_lost": bool(cov.get("code_tie_lost")), "notes": cov.get("notes")}
                except Exception:
                    pass
            res[c] = {"tier": a.tier, "exit": rc, "violation_lines": vio[:3], "quiet": rc == 0 and not vio,
                      "wall_s": round(time.time() - t0, 1), "evidence_notes": note}
            if rc not in (0, 1):
                res[c]["tail"] = out[-600:]
            print(f"check {c}: exit={rc} quiet={res[c]['quiet']} {vio[:1]} tie_lost={(note or {}).get('code_tie_lost')}")
        meta["checks"] = res
    finally:
        sh(["git", "-C", "/repo", "worktree", "remove", "--force", wt])
        sh([PY, os.path.join(VERIF, "harness", "translate.py")])
    json.dump(meta, open(mp, "w"), indent=1)
    print(json.dumps({k: meta.get(k) for k in ("suite_with_patch", "behaviour_preserved_by_diffcheck")}))
    return 0


if __name__ == "__main__":
    sys.exit(main())
