"""C09 — a run interrupted by a scheduler exception at ANY period, optionally written to JSON and
loaded back, then resumed, equals the uninterrupted run; the loaded object graph preserves sharing.

A case is {"scn": <scenario of core/simcase.py>, "k": crash period}.  `generate` emits, for every
generated scenario, one case for EVERY period in which the scheduler is invoked (plus one period in
which it is not: there the failure cannot fire and the run must be untouched).

Four implementation runs per case (REAL Simulator / ChargingNetwork / EVSE / EV / Battery / EventQueue):
  a  uninterrupted (memoised per scenario)
  b  the scheduler raises in period k; `run()` is called again on the same object
  c  … raises in period k; `to_json()` -> `Simulator.from_json()` -> `update_scheduler(new algorithm)`
     -> `run()`         (plain ChargingNetwork, schedule history off)
  d  the same with `store_schedule_history=True` (and a ChargingNetwork subclass without extra
     attributes whose `post_charging_update` logs the occupancy of every period)
For a scenario whose scheduler is a REAL algorithm of the package (every sort order of the greedy algorithm, round
robin, uncontrolled; with / without the SimpleRampdown estimator, whose per-session bounds are hidden state of the
algorithm object) there are three more:
  b2 the failure strikes AFTER the algorithm computed its schedule; `run()` again
  c2 as c, but `update_scheduler(the ORIGINAL algorithm object)` (with an estimator, d re-attaches the original too)
  c3 TWO interruptions (period k and a later invoked period), JSON round trip + the original object each time
`numpy.random.normal` is replaced by a fixed stream for the whole case, so the draws continue across
the crash and the round trip exactly as the process-global RNG would.

ORACLE (implementation only): b, c, d equal a in pilot_signals, charging_rates, per-EV energy /
rate / battery charge / power, event_history, ev_history, iteration, peak, _resolve,
_last_schedule_update, final occupancy, EVSE pilots, number of noise draws; after the load every EV
is ONE object (station, ev_history, pending UnplugEvent, event_history, pending PluginEvent);
`to_json` of the restored simulator equals the original under the structural id bijection.
CORRESPONDENCE: one model run (fail at k, then resume; drv_C09 "sim") against run b incl. the failed
state, and the registry walk (`dump` order, `load ∘ dump`, key uniqueness; drv_C09 "reg") against the
`context_dict` that `to_json` wrote at the crash point (handed to the model in scrambled order); the model's own
codec (`RegistrySim.encode` of the failed model state, "crash_store") against that same `context_dict`: class of
every object, attribute key sets, every tracked scalar, and the reference graph up to id renaming (tree
unfolding from the root + number of objects per class, i.e. the same sharing); the model's DECODER both ways:
`decode (encode s)` reproduces the model's crash-point state ("codec_inverse"), and the implementation's own
`context_dict` (ids renumbered into the model's layout, scalars tagged: `_canon_impl`) is decoded into a model
state from which the MODEL run is continued and compared with the implementation's resumed run c.
THE TEXT LAYER (drv_C09 "json"): `AcnModel/JsonText.lean` models CPython's `json.dumps` / `json.loads` (the theorems
`json_string_roundtrip`, `json_int_roundtrip`, `json_value_roundtrip`, `scalar_codec_lawful` are about that model).  On
every case the WHOLE document that `to_json()` wrote at the crash point is parsed and rendered again by the model and
compared byte for byte with `json.dumps(json.loads(text))`; every id of the scenario and the case's probe strings /
ints are rendered by the model, compared with `json.dumps`, and parsed back.
EVERY JSON run additionally checks, after the first load AND after a second save/load (through the file-like entry
points `to_json(buf)` / `from_json(buf)`): sharing for every occupied station, the live VALUES of every serialised
attribute against the crashed simulator's (`_live_state`), integer fields still integers (`_type_diffs`), and the
document against the first one with types compared exactly (`_bijection`: references are found by SCHEMA, so a
session id that equals a registry id is a leaf); run d is resumed from the twice-loaded simulator.
The EXOTIC stream / corpus: ids that need escaping or look like something else, numpy scalars as EV fields, inf /
nan, session ids that are registry ids, several stations occupied at the crash (see RULE).
For the real algorithms the model is C07's composition (drv_C09 "sorted": `WireSortedRd` — the modelled sorted algorithm
inside the simulator model, the SimpleRampdown object threaded through `SimSortedRd.runSt`), run UNINTERRUPTED and
compared with a, b, c2, c3 (and c, d when the algorithm object the run was resumed with carries the same state).
"""
from __future__ import annotations

import copy
import io
import json
import os
import warnings

from core import common as C
from core import simcase as S
from core import impl as I

import numpy as np

from acnportal.acnsim.simulator import Simulator
from acnportal.acnsim.network.charging_network import ChargingNetwork
from acnportal.acnsim.network.current import Current
from acnportal.acnsim.events import EventQueue, PluginEvent, RecomputeEvent
from acnportal.acnsim.models.battery import Battery, Linear2StageBattery
from acnportal.acnsim.models.ev import EV

ID = "C09"
LEAN_MODULES = ["AcnProofs.C09"]
DRIVER = "drv_C09"
REQUIRED_THEOREMS = [
    "Acn.C09.failed_body_idempotent_prefix", "Acn.C09.resume_eq", "Acn.C09.resume_eq_complete",
    "Acn.C09.dump_each_object_once", "Acn.C09.roundtrip_store", "Acn.C09.sharing_preserved",
    "Acn.C09.roundtrip_resume_eq_partial", "Acn.C09.attrs_complete",
    "Acn.C09.encode_roundtrip", "Acn.C09.roundtrip_resume_eq_codec_partial", "Acn.C09.roundtrip_evs_decoded_partial",
    "Acn.C09.decode_encode", "Acn.C09.decode_encode_iff", "Acn.C09.decode_encode_amb",
    "Acn.C09.roundtrip_resume_eq", "Acn.C09.roundtrip_iff",
    "Acn.C09.body_preserves_wf", "Acn.C09.reachable_wf", "Acn.C09.crash_json_resume_eq",
    "Acn.C09.resume_eq_stateful", "Acn.C09.reachable_wf_stateful", "Acn.C09.crash_json_resume_eq_stateful",
    "Acn.C09.json_string_roundtrip", "Acn.C09.json_int_roundtrip", "Acn.C09.json_value_roundtrip",
    "Acn.C09.scalar_codec_lawful", "Acn.C09.json_leaf_types", "Acn.C09.registry_text_roundtrip",
    "Acn.C09.roundtrip_resume_eq_concrete", "Acn.C09.crash_json_resume_eq_concrete",
    "Acn.C09.crash_json_resume_eq_stateful_concrete",
]
BUDGET = {"quick": 40, "thorough": 450, "search": 120}
TRUSTED = ["CPython's json module behaves as AcnModel/JsonText.lean models it (escapes, separators, int / float scanner): "
           "compared byte for byte on the to_json() document of every fired crash point and on probe strings / ints, each run; "
           "float.__repr__ / float() round-trip every double (IEEE-754 shortest round-trip printing) - the one assumption "
           "the Lean statements keep (RegistryJson.DoubleText.RoundTrip); dict order is insertion order",
           "id(obj) is unique among live objects; pydoc.locate finds the class named in the registry",
           "CPython heapq: a list that satisfies the heap invariant still does after being copied element by element",
           "numpy.random.normal is a process-global stream (the harness replaces it by a fixed stream that "
           "continues across the crash and the JSON round trip)"]
ASSUMPTIONS = ["the scheduler is a function of the Interface view (no hidden state): the resumed run gets an "
               "algorithm that returns the same schedules; `signals`, the scheduler object and tzinfo of `start` "
               "are not part of the serialised state by design (DESIGN §8)",
               "an algorithm WITH hidden state (SortedSchedulingAlgo / RoundRobin with the SimpleRampdown estimator: "
               "per-session upper bounds live in the estimator object) is covered when that object survives: crash + "
               "run() again, and JSON round trip + update_scheduler(the ORIGINAL algorithm object) must equal the "
               "uninterrupted run — pilots, rates, energies, event history, schedule history — also after a second "
               "interruption; a FRESH estimator after the load has lost its bounds — the property's 'given its "
               "scheduler again' does not promise equality there (measured: features estimator_fresh_algo_after_json); "
               "a failure AFTER the algorithm updated its estimator, then run() again, lets the estimator take the same "
               "step twice: not promised either (measured: estimator_retry_after_it_ran); the estimator's dict itself is "
               "not an observable of the property (only what the simulation does is compared)",
               "real algorithms: the model side is C07's composition model (sorted algorithm + SimpleRampdown inside the "
               "simulator model), run uninterrupted (this comparison is what exposed finding F20, the truncated fractional "
               "minimum pilot, repaired in /repo fcfc030)",
               "sessions are well formed (0 <= arrival < departure, distinct ids): with departure <= arrival the "
               "unplug event is already due when the run is resumed and is processed one period earlier",
               "numpy scalars as EV fields / period (np.int64, int32, int16, uint8, uint32; np.float16 / float32 / float64 "
               "requested energy) are written as Python numbers of the same VALUE; their dtype is not part of the document. "
               "For EV fields the resumed arithmetic is the same (every operation they enter is promoted to float64); "
               "np.float32 BATTERY fields are not: the uninterrupted run keeps rounding to float32 inside the battery, the "
               "loaded one computes in doubles, and the runs drift apart by ~1e-8 relative (measured: feature "
               "float32_battery_resume=differs) - equality of VALUES is not promised for such inputs, sharing / types / "
               "document equality still are",
               "a string with a lone UTF-16 surrogate is not an id (it has no UTF-8 form; the model's strings are Unicode "
               "scalar sequences)",
               "StochasticNetwork (contrib) defines no _to_dict: its waiting queue is documented as not restorable "
               "(base.py:295-305, UserWarning); it is in scope for crash+resume, not for the JSON round trip"]
RULE = ("scenario = 1-4 stations of mixed EVSE classes (continuous / deadband / finite), 0-8 sessions with ideal and "
        "two-stage batteries (continuous / stepwise, noise 0 / 0.5 / 2.0), back-to-back reuse, extra recompute "
        "events (also after the last departure), period in {0.5,1,5,15}, max_recompute in {None,1,2}, scripted "
        "multi-period schedules / empty scheduler; every 5th scenario runs on the contrib StochasticNetwork (seeded "
        "random space assignment, waiting queue, early departure; crash+resume only, implementation oracle only); "
        "every 5th scenario uses a REAL algorithm (uncontrolled, greedy fcfs/lcfs/edf/llf/lrpt, round robin over any "
        "sort order; with/without the SimpleRampdown estimator — default or drawn thresholds / increment — and the "
        "minimum-rate option; two-stage batteries) with three extra runs: failure AFTER "
        "the algorithm ran, JSON round trip with the original algorithm object re-attached, and TWO interruptions "
        "(period k and a later invoked period) with a JSON round trip + the original object each time; "
        "on top, n/5 scenarios of the RAMPDOWN stream: 2-4 stations (continuous 16/32/48 A, AV / 8-A-step / random "
        "finite rate sets, unequal voltages), 1-2 sessions of 3-7 periods per station whose car draws clearly less than "
        "the pilot (ideal battery with max_power 25-80 % of the EVSE's top, two-stage battery in / entering its taper, "
        "nearly full battery) next to sessions that take what they are offered, aggregate limit 45-80 % of the sum of "
        "the tops (or slack), max_recompute mostly 1 (also None with a recompute event in most periods, 2, 3), every "
        "sorted algorithm + round robin, 85 % with the estimator: its bounds bind and SETTLE (pilot - rate <= threshold, "
        "so they cannot be re-derived from the last period) before most crash points — measured by the features "
        "estimator_bound_below_max_at_crash / estimator_settled_bound_at_crash / estimator_fresh_algo_after_json=differs; "
        "corpus: the five-station FCFS+rampdown site of seed C09-7's demonstration, a round-robin and an LLF variant; "
        "thorough adds EVERY "
        "valid layout of <=3 sessions on <=2 stations within horizon 3 x every crash period; "
        "80% of the scenarios get station ids whose registration order is not their sorted order (PS-9, PS-10, "
        "PS-11, …) with differing voltages; 2 of 5 are tie-heavy (several sessions per arrival / departure time in "
        "shuffled queue order, duplicate recompute events: >= 2 pending events with equal (timestamp, precedence) at "
        "the crash); event_history is compared as a SEQUENCE, pilots / rates per station BY ID; "
        "n/5 (>= 3) scenarios of the EXOTIC stream: stations, sessions and the constraint named from a pool of ids that "
        "need JSON escaping (quote, backslash, control characters, DEL, non-ASCII, astral), are empty / blank-padded / 3000 "
        "characters long, look like numbers, JSON literals or fragments, the model's own tags, or ARE registry ids (the "
        "EV's session id is the id() string of itself / its battery / the network / the simulator / the queue - oracle "
        "only); numpy integer and float16/32/64 scalars as EV fields and period; inf as requested energy, battery "
        "capacity, constraint limit (nan requested energy: oracle only); tie-heavy layout so that several stations are "
        "occupied at the crash; EVERY JSON run checks sharing (station / ev_history / pending unplug one object, for every "
        "occupied station), integer types and document equality after the first AND after a second save/load, run d is "
        "resumed from the twice-loaded simulator; every case carries probe strings / ints for the text-layer tie; "
        "one case per scheduler-invoked period k of the scenario + one "
        "non-invoked period; non-trivial = the failure fired with at least one EV connected or an event pending; "
        "distinct by hash of (scenario, k)")

import random as _random

from acnportal.contrib.acnsim.network.stochastic_network import StochasticNetwork

_A_CACHE = {}
_OCC = []


class _Stoch(StochasticNetwork):
    def __init__(self):
        super().__init__(early_departure=False)


class _StochEarly(StochasticNetwork):
    def __init__(self):
        super().__init__(early_departure=True)


class LogNetwork(ChargingNetwork):
    """ChargingNetwork whose public extension point records the occupancy of every period in a
    module-level list: no instance attribute is added, so `to_json`/`from_json` treat it exactly like
    the plain class (an attribute that `__init__` sets and `_to_dict` does not know is dumped by the
    generic fallback of `_to_registry` but never restored — documented for extension classes,
    base.py:594-605 — and would be an artefact of the harness, not of the code under test)."""

    def post_charging_update(self):
        _OCC.append([(e.ev.session_id if e.ev is not None else None) for e in self._EVSEs.values()])


# ------------------------------------------------------------------ scenarios


def _b(cap=40, init=5):
    return {"two": False, "cap": cap, "init": init, "maxp": 7}


def _s(sid, st, a, d, req=10.0, batt=None):
    return {"session": sid, "station": st, "arrival": a, "departure": d, "requested": req, "batt": batt or _b(), "est": None}


def _basic(i):
    return {"id": f"S{i}", "kind": {"t": "cont", "min": 0, "max": 32}, "V": 208, "phase": 0}


def _f7_scn(mr=None):
    """DESIGN §7 F7 / F2: two sessions, scripted 3-period schedules; the last period is 6."""
    return {"stations": [_basic(0), _basic(1)], "constraint": None,
            "sessions": [_s("a", "S0", 0, 6), _s("b", "S1", 2, 5)], "recomputes": [], "period": 5,
            "max_recompute": mr, "noise": [],
            "sched": {"type": "scripted", "default": [["S1", [13.0]]],
                      "script": [{"t": 0, "sched": [["S0", [8.0, 9.0, 10.0]]]},
                                 {"t": 2, "sched": [["S0", [6.0, 7.0, 8.0]], ["S1", [16.0, 15.0, 14.0]]]},
                                 {"t": 6, "sched": [["S0", [5.0, 5.0, 5.0]]]}]}}


def corpus():
    out = []
    for mr in (None, 1, 2):
        scn = _f7_scn(mr)
        for k in _crash_points(scn, every=True):
            out.append({"scn": scn, "k": k})
    # all three event kinds pending at the crash point, noisy two-stage batteries, finite + deadband EVSEs
    two = {"two": True, "cap": 60.5, "init": 30.0, "maxp": 6.6, "noise": 0.5, "ts": 0.8, "calc": "continuous"}
    stp = {"two": True, "cap": 40, "init": 33.0, "maxp": 7, "noise": 2.0, "ts": 0.8, "calc": "stepwise"}
    scn = {"stations": [{"id": "S0", "kind": {"t": "finite", "rates": [0, 8, 16, 24, 32]}, "V": 208, "phase": 0},
                        {"id": "S1", "kind": {"t": "deadband", "db": 6, "max": 32}, "V": 240, "phase": 0},
                        _basic(2)],
           "constraint": {"limit": 64.0},
           "sessions": [_s("x0", "S0", 0, 3, 4.0, two), _s("x1", "S1", 1, 5, 9.0, stp), _s("x2", "S0", 3, 6, 2.0, two),
                        _s("x3", "S2", 4, 7, 0.3)],
           "recomputes": [2, 8], "period": 5, "max_recompute": 2, "noise": [0.3, -0.2, 1.1, -0.7, 0.05],
           "sched": {"type": "scripted", "default": [["S0", [16.0]], ["S1", [8.0]], ["S2", [12.5]]],
                     "script": [{"t": 1, "sched": [["S0", [24.0, 8.0]], ["S1", [6.0, 32.0]]]},
                                {"t": 3, "sched": [["S1", [10.0, 0.0, 20.0]]]}]}}
    for k in _crash_points(scn, every=True):
        out.append({"scn": scn, "k": k})
    out.extend(_rampdown_corpus())
    out.extend(_exotic_corpus())
    return out


def _exotic_corpus():
    """fixed scenarios of the exotic stream: (1) three stations whose ids need every kind of JSON escape / are empty,
    sessions whose ids look like a number, a JSON object, `null`, the model's own tags; numpy scalars as EV
    fields; inf requested energy / battery capacity / constraint limit; TWO or THREE stations occupied at the crash
    points (sharing must hold for every one of them, also after the second save/load); (2) the same layout with
    session ids that ARE registry ids (the EV's own id(), its battery's, the network's) — oracle only"""
    def st(i, kind, v=208):
        return {"id": i, "kind": kind, "V": v, "phase": 0}
    cont = {"t": "cont", "min": 0, "max": 32}
    two = {"two": True, "cap": 60.5, "init": 30.0, "maxp": 6.6, "noise": 0.5, "ts": 0.8, "calc": "continuous"}
    ids = ['a"b\\c\n', '', '\u65e5\u672c\U0001F600\x00\x7f']
    scn = {"stations": [st(ids[0], {"t": "finite", "rates": [0, 8, 16, 24, 32]}), st(ids[1], {"t": "deadband", "db": 6, "max": 32}, 240),
                        st(ids[2], dict(cont, max="inf"), 277.5)],
           "constraint": {"limit": "inf", "name": 'lim "\u00e9"\t'},
           "sessions": [dict(_s("123", ids[0], 0, 5, 4.0, two), np={"arrival": "int64", "departure": "uint8", "requested": "float32"}),
                        dict(_s('{"k": 1}', ids[1], 1, 6, "inf"), est=7, np={"arrival": "int32", "est": "int16"}),
                        dict(_s("null", ids[2], 1, 4, 7.300000190734863, {"two": False, "cap": "inf", "init": 5, "maxp": 7}),
                             np={"requested": "float32", "departure": "int64"}),
                        dict(_s("s:i:5", ids[2], 4, 7, 0.5), np={"arrival": "uint32"}),
                        _s("-", ids[0], 5, 8, 2.0)],
           "recomputes": [2, 2, 9], "period": 5, "period_np": "int64", "max_recompute": 2, "noise": [0.3, -0.2, 1.1],
           "sched": {"type": "scripted", "default": [[ids[0], [16.0]], [ids[1], [8.0]], [ids[2], [12.5]]],
                     "script": [{"t": 1, "sched": [[ids[0], [24.0, 8.0]], [ids[1], [6.0, 32.0]], [ids[2], [40.0, 3.0]]]},
                                {"t": 4, "sched": [[ids[1], [10.0, 0.0, 20.0]]]}]},
           "exotic": True}
    out = [{"scn": scn, "k": k} for k in _crash_points(scn, every=True)]
    al = copy.deepcopy(scn)
    for s_, a_ in zip(al["sessions"], ("self", "battery", "network", None, "sim")):
        if a_:
            s_["alias"] = a_
    al["no_model"] = True
    out += [{"scn": al, "k": k} for k in (1, 2, 4, 5)]
    return out


def _rampdown_corpus():
    """settled estimator bounds at the crash (the scenario class of the seeded change C09-7): (1) the five-station
    site of its demonstration — stock FCFS + SimpleRampdown, a 3.3 kW car on the 16 A step of a FiniteRatesEVSE
    (pilot 32 -> rate 15.9 -> bound 16.9 -> pilot 16: settled), two-stage batteries in their taper, an aggregate
    limit that binds; (2) two cars with a small max_power on a continuous EVSE and on the AV rate set next to a
    car that takes everything it is offered, limit binding, under round robin / LLF with max_recompute None / 2"""
    def st(i, kind, v=208):
        return {"id": i, "kind": kind, "V": v, "phase": 0}
    cont = {"t": "cont", "min": 0, "max": 32}
    l2 = lambda cap, init: {"two": True, "cap": cap, "init": init, "maxp": 6.6, "noise": 0, "ts": 0.8, "calc": "continuous"}  # noqa: E731
    demo = {"stations": [st("D", {"t": "deadband", "db": 6, "max": 32}), st("A", cont), st("B", cont),
                         st("C", {"t": "finite", "rates": [0, 8, 16, 24, 32]}), st("E", cont)],
            "constraint": {"limit": 90.0},
            "sessions": [_s("s4", "D", 0, 17, 9.0, {"two": False, "cap": 40, "init": 5, "maxp": 6.6}),
                         _s("s0", "A", 1, 14, 6.0, l2(10, 7.5)), _s("s1", "B", 2, 16, 4.0, l2(12, 9.5)),
                         _s("s2", "C", 3, 11, 5.0, {"two": False, "cap": 30, "init": 2, "maxp": 3.3}),
                         _s("s5", "E", 4, 13, 6.0, {"two": False, "cap": 40, "init": 5, "maxp": 6.6}),
                         _s("s3", "A", 15, 19, 3.0, {"two": False, "cap": 20, "init": 2, "maxp": 6.6})],
            "recomputes": [5], "period": 5, "max_recompute": 1, "noise": [],
            "sched": {"type": "fcfs", "estimator": True, "uninterrupted": False}, "rampdown_stream": True}
    out = [{"scn": demo, "k": k} for k in (0, 4, 8, 9, 10, 12, 15)]
    small = {"stations": [st("PS-9", cont), st("PS-10", {"t": "finite", "rates": list(S.AV_RATES)}, 240), st("PS-2", cont)],
             "constraint": {"limit": 50.0},
             "sessions": [_s("lo", "PS-9", 0, 8, 20.0, {"two": False, "cap": 100, "init": 10, "maxp": 2.2}),
                          _s("av", "PS-10", 1, 7, 20.0, {"two": False, "cap": 100, "init": 10, "maxp": 3.3}),
                          _s("hungry", "PS-2", 1, 9, 30.0, {"two": False, "cap": 100, "init": 5, "maxp": 50})],
             "recomputes": [3, 4, 6], "period": 5, "max_recompute": None, "noise": [],
             "sched": {"type": "rr", "sort": "edf", "inc": 1, "estimator": True, "uninterrupted": False},
             "rampdown_stream": True}
    out += [{"scn": small, "k": k} for k in (3, 4, 6, 7)]
    llf = copy.deepcopy(small)
    llf["max_recompute"] = 1
    llf["recomputes"] = [5]
    llf["sched"] = {"type": "llf", "estimator": True, "uninterrupted": True}
    out += [{"scn": llf, "k": k} for k in (3, 5, 7, 8)]
    return out


def _gen_scn(rng):
    scn = S.gen_case(rng, max_sessions=8, max_stations=4)
    scn["max_recompute"] = rng.choice([None, None, 1, 2])
    last = max([s["departure"] for s in scn["sessions"]] + list(scn["recomputes"]) + [0])
    if rng.random() < 0.4:
        scn["recomputes"].append(last + rng.choice([1, 2]))     # a recompute event pending to the very end
    if scn["sessions"] and rng.random() < 0.5:                    # make the noisy two-stage battery common
        s = rng.choice(scn["sessions"])
        s["batt"] = {"two": True, "cap": s["batt"]["cap"], "init": s["batt"]["init"], "maxp": s["batt"]["maxp"],
                     "noise": rng.choice([0.5, 2.0]), "ts": rng.choice([0.8, 0.5]),
                     "calc": rng.choice(["continuous", "stepwise"])}
    return scn


ID_SCHEMES = [["PS-9", "PS-10", "PS-11", "PS-2"], ["z", "m", "a", "k"], ["CA-322", "CA-49", "CA-5", "CA-1000"],
              ["S0", "S1", "S2", "S3"]]


def _rename_stations(scn, names):
    """station ids whose registration order is NOT their sorted order (PS-9, PS-10, PS-11, …): everything that
    is keyed by station id (sessions, schedules) follows; rows of the matrices stay in registration order"""
    m = {st["id"]: names[i] for i, st in enumerate(scn["stations"])}
    for st in scn["stations"]:
        st["id"] = m[st["id"]]
    for s_ in scn["sessions"]:
        s_["station"] = m.get(s_["station"], s_["station"])
    sc = scn["sched"]
    if "default" in sc:
        sc["default"] = [[m.get(k, k), v] for k, v in sc["default"]]
    for e in sc.get("script", []):
        if "sched" in e:
            e["sched"] = [[m.get(k, k), v] for k, v in e["sched"]]
    return scn


def _diversify(rng, scn):
    """make the stations differ (voltage, EVSE class / max rate) so that a row mix-up is visible"""
    volts = [208, 240, 120, 277.5]
    for i, st in enumerate(scn["stations"]):
        st["V"] = volts[(i + rng.randint(0, 3)) % 4] if rng.random() < 0.7 else st["V"]
    return scn


def _crash_points(scn, every=False):
    a = _run_a(scn)
    inv = sorted(set(a["invoked"]))
    if every:
        return list(range(0, a["iter"] + 1))
    other = [t for t in range(a["iter"]) if t not in inv]
    return inv + other[:1]


def _gen_stochastic(rng):
    """StochasticNetwork (contrib): more simultaneous sessions than stations, random space assignment,
    optional early departure.  Crash + resume only (no JSON round trip, see ASSUMPTIONS)."""
    ns = rng.randint(1, 3)
    stations = [{"id": f"S{i}", "kind": {"t": "cont", "min": 0, "max": 32}, "V": 208, "phase": 0} for i in range(ns)]
    H = rng.choice([3, 5, 8])
    sessions = []
    for i in range(rng.randint(2, 7)):
        a = rng.randint(0, H - 1)
        d = rng.randint(a + 1, H)
        sessions.append(_s(f"x{i}", rng.choice(stations)["id"], a, d, rng.choice([0.05, 0.4, 1.5, 30.0])))
    rng.shuffle(sessions)
    default = [[st["id"], [rng.choice([8.0, 16.0, 32.0])]] for st in stations]
    script = [{"t": t, "sched": [[st["id"], [rng.choice([0.0, 6.0, 32.0]), 16.0]] for st in stations]}
              for t in range(H + 1) if rng.random() < 0.3]
    return {"stations": stations, "constraint": None, "sessions": sessions, "recomputes": [], "period": 5,
            "max_recompute": rng.choice([None, 1, 2]), "noise": [],
            "sched": {"type": "scripted", "default": default, "script": script},
            "stochastic": {"seed": rng.randint(0, 10 ** 6), "early": rng.random() < 0.6}}


def _tie_heavy(rng, scn):
    """many pending events with equal (timestamp, precedence): several sessions per arrival / departure time
    (queue insertion order shuffled), duplicate recompute events — the restored heap must pop ties in the
    order the original heap would"""
    ss = scn["sessions"]
    if len(ss) < 2:
        return scn
    by_st = {}
    for s_ in ss:
        by_st.setdefault(s_["station"], []).append(s_)
    # first session of every station: same arrival and same departure
    a0 = rng.randint(0, 2)
    d0 = a0 + rng.randint(1, 3)
    for lst in by_st.values():
        lst.sort(key=lambda x: x["arrival"])
        first = lst[0]
        shift = None
        if len(lst) == 1 or lst[1]["arrival"] >= d0:
            first["arrival"], first["departure"] = a0, d0
            if first.get("est") is not None:
                first["est"] = d0 + 1
    rng.shuffle(ss)
    t = rng.randint(a0, d0 + 2)
    scn["recomputes"] = list(scn["recomputes"]) + [t, t, d0]
    return scn


def _gen_real(rng):
    """a REAL algorithm as the scheduler: sorted greedy (fcfs / edf), round robin, uncontrolled; with and
    without the SimpleRampdown estimator (hidden per-session state) and the minimum-rate option"""
    scn = S.gen_case(rng, real_algos=True, max_sessions=6, max_stations=4)
    scn["max_recompute"] = rng.choice([1, 1, 1, 2, None])
    t = scn["sched"]["type"]
    if t != "uncontrolled":
        if rng.random() < 0.4:
            scn["sched"]["type"] = rng.choice(["lcfs", "llf", "lrpt"])
        _real_opts(rng, scn["sched"])
    for s_ in scn["sessions"]:                     # two-stage batteries: the rate falls behind the pilot
        if rng.random() < 0.6:
            b = s_["batt"]
            s_["batt"] = {"two": True, "cap": b["cap"], "init": round(0.6 * b["cap"] + 0.39 * rng.random() * b["cap"], 3),
                          "maxp": b["maxp"], "noise": rng.choice([0, 0, 0.5]), "ts": rng.choice([0.8, 0.5]),
                          "calc": rng.choice(["continuous", "stepwise"])}
    return scn


def _real_opts(rng, sc, stateful_bias=0.5):
    """options of a real sorted scheduler: estimator (+ its thresholds / increment), minimum-rate option,
    round robin's sort order and increment"""
    if sc["type"] == "uncontrolled":
        return sc
    sc["estimator"] = rng.random() < stateful_bias
    sc["uninterrupted"] = rng.random() < 0.3
    if sc["type"] == "rr":
        sc["sort"] = rng.choice(SORTS)
        sc["inc"] = rng.choice([0.1, 0.5, 1])
    if sc["estimator"] and rng.random() < 0.3:
        sc["ramp"] = {"up": rng.choice([1, 0.5, 2]), "down": rng.choice([1, 0.5, 2]), "inc": rng.choice([1, 0.5, 3])}
    return sc


def _gen_rampdown(rng):
    """scenarios in which the SimpleRampdown estimator's per-session bounds BIND and SETTLE before most crash
    points: long sessions whose car draws clearly less than the pilot for several periods — an ideal battery
    with a small max_power (constant rate: the bound settles one increment above it; on a FiniteRatesEVSE the
    pilot settles on the step below the bound), a two-stage battery inside / entering its taper (the rate keeps
    falling: the bound follows it), a nearly full battery — next to ordinary sessions that take what they are
    offered, under an aggregate limit that often binds (so the capacity reclaimed from one session moves the
    pilots, rates and energies of the OTHERS).  Scheduler: every stock sorted algorithm and round robin, mostly
    with the estimator, minimum-rate option on/off, max_recompute 1 / None / k."""
    ns = rng.randint(2, 4)
    period = rng.choice([5, 5, 5, 1, 15])
    stations = []
    for i in range(ns):
        r = rng.random()
        kind = ({"t": "cont", "min": 0, "max": rng.choice([32, 32, 16, 48])} if r < 0.45 else
                {"t": "finite", "rates": list(S.AV_RATES)} if r < 0.7 else
                {"t": "finite", "rates": list(S.CC_RATES)} if r < 0.9 else
                {"t": "finite", "rates": sorted(rng.sample([6, 8, 10, 12.5, 16, 20, 24, 30, 32], rng.randint(2, 5)))})
        stations.append({"id": f"S{i}", "kind": kind, "V": rng.choice([208, 208, 240, 277.5, 120]), "phase": 0})
    sessions = []
    n = 0
    for st in stations:
        mx = max(st["kind"]["rates"]) if st["kind"]["t"] == "finite" else st["kind"]["max"]
        t = rng.randint(0, 2)
        for _ in range(rng.choice([1, 1, 2])):
            dur = rng.randint(3, 7)
            kw_max = mx * st["V"] / 1000.0                       # what the EVSE can deliver at its top pilot
            r = rng.random()
            if r < 0.4:        # ideal battery, small max_power: draws a constant 25-80 % of the top pilot
                batt = {"two": False, "cap": 100, "init": round(rng.uniform(0, 40), 2),
                        "maxp": round(kw_max * rng.uniform(0.25, 0.8), 3)}
            elif r < 0.7:      # two-stage battery in / about to enter the taper
                cap = rng.choice([10, 20, 40])
                ts = rng.choice([0.8, 0.5, 0.7])
                batt = {"two": True, "cap": cap, "init": round(cap * min(0.97, ts + rng.uniform(-0.08, 0.15)), 3),
                        "maxp": round(kw_max * rng.uniform(0.5, 1.2), 3), "noise": rng.choice([0, 0, 0, 0.3]), "ts": ts,
                        "calc": rng.choice(["continuous", "stepwise"])}
            elif r < 0.8:      # nearly full ideal battery: the rate collapses after a period or two
                cap = rng.choice([10, 40])
                batt = {"two": False, "cap": cap, "init": round(cap - kw_max * period / 60 * rng.uniform(0.5, 2.5), 3),
                        "maxp": round(kw_max * rng.uniform(0.6, 1.5), 3)}
                batt["init"] = max(0.0, batt["init"])
            else:              # takes whatever it is offered
                batt = {"two": False, "cap": 100, "init": 5, "maxp": round(kw_max * 1.5, 3)}
            dep = t + dur
            sessions.append({"session": f"x{n}", "station": st["id"], "arrival": t, "departure": dep,
                             "requested": round(rng.choice([0.3, 0.8, 1.5]) * kw_max * period / 60 * dur, 3), "batt": batt,
                             "est": rng.choice([None, None, dep + 1, max(t + 1, dep - 1)])})
            n += 1
            t = dep + rng.choice([0, 0, 1])
    rng.shuffle(sessions)
    tops = sum((max(st["kind"]["rates"]) if st["kind"]["t"] == "finite" else st["kind"]["max"]) for st in stations)
    scn = {"stations": stations, "constraint": {"limit": round(tops * rng.choice([0.45, 0.6, 0.8, 3.0]), 1)},
           "sessions": sessions, "period": period, "max_recompute": rng.choice([1, 1, 1, 1, 1, 1, None, None, 2, 3]),
           "noise": [round(rng.gauss(0, 1.0), 4) for _ in range(rng.randint(1, 5))]}
    last = max(s_["departure"] for s_ in sessions)
    scn["recomputes"] = [rng.randint(1, last) for _ in range(rng.choice([0, 0, 1, 2]))]
    if scn["max_recompute"] is None:                  # event-driven only: keep the estimator called often
        scn["recomputes"] += [t for t in range(1, last) if rng.random() < 0.85]
    scn["sched"] = _real_opts(rng, {"type": rng.choice(["fcfs", "lcfs", "edf", "llf", "lrpt", "rr", "rr"])}, 0.85)
    scn["rampdown_stream"] = True
    return scn


def _exhaustive():
    """thorough tier: EVERY layout of <= 3 sessions on <= 2 stations within horizon 3 (valid ones), every
    crash period k (also the non-invoked ones), max_recompute cycling through None / 1 / 2, a scripted
    two-period schedule in flight"""
    import itertools
    slots = [(st, a_, d_) for st in ("S0", "S1") for a_ in range(0, 3) for d_ in range(a_ + 1, 4)]
    out = []
    idx = 0
    for nn in range(0, 4):
        for combo in itertools.combinations(range(len(slots)), nn):
            ss = [_s(f"x{i}", slots[j][0], slots[j][1], slots[j][2], req=50.0) for i, j in enumerate(combo)]
            if sum(combo) % 2:
                ss.reverse()
            scn = {"stations": [_basic(0), _basic(1)], "constraint": None, "sessions": ss,
                   "recomputes": [1] if idx % 4 == 3 else [], "period": 5, "max_recompute": [None, 1, 2][idx % 3],
                   "noise": [],
                   "sched": {"type": "scripted", "default": [["S0", [16.0]], ["S1", [8.0]]],
                             "script": [{"t": 1, "sched": [["S0", [6.0, 7.0]], ["S1", [9.0, 10.0]]]}]},
                   "exhaustive": True}
            idx += 1
            if not S.is_valid_layout(scn):
                continue
            for k in _crash_points(scn, every=True):
                out.append({"scn": scn, "k": k})
    return out


# ids that need care somewhere between `_to_dict`, `json.dumps`, `json.loads` and `_from_dict`: JSON escapes (quote,
# backslash, control characters, DEL, non-ASCII, characters beyond U+FFFF), the empty string, blanks, very long ids,
# ids that look like numbers / JSON literals / JSON fragments / the model's own tags, separators of the harness
EXOTIC_IDS = ['a"b', 'back\\slash', 'tab\there', 'nl\nx', '\x00nul', 'del\x7f', '\x1f', 'caf\u00e9', '\u65e5\u672c', '\U0001F600 car',
              '', ' lead', 'trail ', '123', '1e5', '-0', '0.5', '007', 'NaN', 'Infinity', 'null', 'true', 'None', 's:tag',
              'i:5', 'f:1.0', 'm:[]', '-', 'b:true', '{"k": 1}', '[1, 2]', '\\u0041', '\\', '"', "'", '/', '</script>',
              '\u2028', '\ufeffbom', '\u03a9' * 3, 'L' * 3000, '\u00ff', 'a,b', 'a: b', '140234567890123', '\\"', '\\n',
              '\ud7ff\ue000', '\U0010ffff', '\x7f\x80\x9f\xa0']
_ALPHA = ['"', '\\', '/', '\n', '\r', '\t', '\x08', '\x0c', '\x00', '\x1f', ' ', '~', '\x7f', '\x80', '\u00e9', '\u07ff', '\u0800',
          '\ud7ff', '\ue000', '\uffff', '\U00010000', '\U0001F600', '\U0010ffff', 'a', 'Z', '0', '9', '-', '.', 'e', 'u', '{', '}',
          '[', ']', ',', ':']


def _probe(rng):
    """strings and ints for the text-layer tie of this case (rendered by the modelled `json.dumps`, compared with
    CPython's byte for byte, parsed back)"""
    def rs():
        return "".join(rng.choice(_ALPHA) for _ in range(rng.choice([0, 1, 2, 5, 12])))
    big = rng.choice([0, 1, 9, 10, 99, 100, 2 ** 31, 2 ** 63, 10 ** 18 + 7, rng.randrange(10 ** 30)])
    return {"strs": [rs(), rs(), rng.choice(EXOTIC_IDS)], "ints": [big, -big, rng.randint(-1000, 1000)]}


def _gen_exotic(rng):
    """what reaches the serialiser from outside: ids that need escaping or look like something else (stations,
    sessions, the constraint name), numpy integer / float32 scalars as EV fields and period, inf / nan where the
    constructors accept them, session ids that ARE registry ids; several stations occupied at the crash."""
    for _ in range(6):
        scn = _gen_scn(rng)
        if len(scn["stations"]) >= 2 and len({s_["station"] for s_ in scn["sessions"]}) >= 2:
            break
    _tie_heavy(rng, _diversify(rng, scn))
    names = rng.sample(EXOTIC_IDS, len(scn["stations"]) + len(scn["sessions"]) + 1)
    _rename_stations(scn, names[:len(scn["stations"])])
    for s_, nm in zip(scn["sessions"], names[len(scn["stations"]):]):
        s_["session"] = nm
    scn["exotic"] = True
    if scn.get("constraint") is None and rng.random() < 0.5:
        scn["constraint"] = {"limit": 1000.0}
    if scn.get("constraint"):
        scn["constraint"]["name"] = names[-1]
        if rng.random() < 0.25:
            scn["constraint"]["limit"] = "inf"
    for s_ in scn["sessions"]:
        if rng.random() < 0.5:                       # numpy scalars as EV fields
            n = {}
            for key in ("arrival", "departure", "est"):
                if rng.random() < 0.7 and (key != "est" or s_.get("est") is not None):
                    n[key] = rng.choice(["int64", "int64", "int32", "int16", "uint8", "uint32"])
            if rng.random() < 0.7:
                n["requested"] = rng.choice(["float32", "float32", "float64", "float16"])
                # a value of that type whose decimal text is long (7.300000190734863 = float32(7.3)): lossy conversions show
                s_["requested"] = float(getattr(np, n["requested"])(rng.uniform(0.5, 12)))
            s_["np"] = n
        r = rng.random()
        if r < 0.15:
            s_["requested"] = "inf"
            (s_.get("np") or {}).pop("requested", None)
        elif r < 0.25 and not s_["batt"].get("two"):
            s_["batt"] = dict(s_["batt"], cap="inf")
    if float(scn["period"]) == int(scn["period"]) and rng.random() < 0.4:
        scn["period"] = int(scn["period"])
        scn["period_np"] = rng.choice(["int64", "int32", "float64"])
    r = rng.random()
    if r < 0.12 and scn["sessions"]:                    # NaN where the constructor accepts it
        s_ = rng.choice(scn["sessions"])
        s_["requested"] = "nan"
        (s_.get("np") or {}).pop("requested", None)
        scn["no_model"] = True
    elif r < 0.36 and scn["sessions"]:                  # session ids that ARE keys of the context_dict
        used = set()
        for s_ in rng.sample(scn["sessions"], min(len(scn["sessions"]), rng.choice([1, 1, 2]))):
            # "self" / "battery" are objects of the EV itself; network / sim / queue exist once per simulation, so each may name
            # at most ONE session (two sessions with one id are outside C09: session ids identify EVs)
            al = rng.choice([a for a in ["self", "self", "battery", "network", "sim", "queue"] if a not in used])
            if al in ("network", "sim", "queue"):
                used.add(al)
            s_["alias"] = al
        scn["no_model"] = True
    elif r < 0.48 and scn["sessions"]:                  # float32 BATTERY fields: measured, not promised (ASSUMPTIONS)
        s_ = rng.choice(scn["sessions"])
        b = s_["batt"]
        cap = rng.choice([10, 40, 60.5, 100])
        s_["batt"] = dict(b, cap=cap, init=round(cap * rng.choice([0.25, 0.5, 0.75]) * 8) / 8.0, maxp=rng.choice([3.25, 6.625, 7, 50]))
        s_.setdefault("np", {})["batt"] = {"cap": "float32", "init": "float32", "maxp": "float32"}
        scn["float32_battery"] = True
        scn["no_model"] = True
    return scn


def generate(rng, n, tier):
    out = []
    if tier == "thorough":
        out.extend(_exhaustive())
    for i in range(n):
        scn = _gen_stochastic(rng) if i % 5 == 4 else _gen_real(rng) if i % 5 == 3 else _gen_scn(rng)
        if not scn.get("stochastic") and rng.random() < 0.8:
            _rename_stations(_diversify(rng, scn), rng.choice(ID_SCHEMES[:3]))
        if i % 5 in (1, 2) or (i % 5 == 3 and rng.random() < 0.5):
            _tie_heavy(rng, scn)
        for k in _crash_points(scn):
            out.append({"scn": scn, "k": k})
    for i in range(max(2, n // 5)):             # the estimator's bounds bind and settle before the crash
        scn = _gen_rampdown(rng)
        if rng.random() < 0.6:
            _rename_stations(scn, rng.choice(ID_SCHEMES[:3]))
        for k in _crash_points(scn):
            out.append({"scn": scn, "k": k})
    for i in range(max(3, n // 5)):             # exotic ids, numpy scalars, inf / nan, ids that are registry ids
        scn = _gen_exotic(rng)
        for k in _crash_points(scn):
            out.append({"scn": scn, "k": k})
    for c in out:
        c["probe"] = _probe(rng)
    # CUSTOM PRECEDENCES (Event.precedence is a public attribute): the plug-in events of ~12 % of the plain scenarios carry their own
    # precedence, 0 included, so that events tied in (timestamp, precedence) are released in an order that depends on the stored
    # values; the four-run comparison is exact on event_history.  ORACLE ONLY (the Lean event order knows the class precedences).
    sub = _random.Random(repr(("precs", n, tier, len(out))))
    seen = set()
    for c in out:
        scn = c["scn"]
        if id(scn) in seen:          # one decision per scenario (its crash points share the object)
            continue
        seen.add(id(scn))
        if not scn.get("stochastic") and scn.get("sched", {}).get("type") in ("scripted", "empty") and sub.random() < 0.12:
            scn["precs"] = [sub.choice([0, 0, 5, 10, 15, 19]) for _ in scn["sessions"]]
    return out


def search(rng, n):
    return generate(rng, n, "search")


# ------------------------------------------------------------------ implementation runs


def _quiet():
    w = warnings.catch_warnings()
    w.__enter__()
    warnings.simplefilter("ignore")
    return w


def _by_station(sim, obs):
    obs["station_ids"] = list(sim.network.station_ids)
    return obs


def _sched_hist(sim):
    h = sim.schedule_history
    if h is None:
        return None
    return [[int(t), [[st, [float(x) for x in row]] for st, row in sorted(s.items())]] for t, s in sorted(h.items())]


def _stoch_hooks(scn, fail_at=None):
    st = scn["stochastic"]
    _random.seed(st["seed"])
    return S.Hooks(fail_at=fail_at, network_cls=_StochEarly if st["early"] else _Stoch)


def _stoch_extra(sim):
    net = sim.network
    return {"waiting": list(net.waiting_queue.keys()), "swaps": net.swaps, "never_charged": net.never_charged,
            "early_unplug": net.early_unplug,
            "stations_of": sorted([ev.session_id, ev.station_id] for ev in sim.ev_history.values())}


def _run_stoch(scn, k):
    """run a (k is None) or run b for a StochasticNetwork scenario"""
    hooks = _stoch_hooks(scn, None if k is None else {k})
    sim, ctx = S.build_sim(scn, hooks, store_schedule_history=True)
    err = S.run_sim(sim)
    first = None
    if k is not None and err == "SchedulerFailed" and sim.iteration == k:
        first = S.observe(sim, ctx, err)
        first["stoch"] = _stoch_extra(sim)
        err = S.run_sim(sim)
    obs = S.observe(sim, ctx, err)
    obs["noise_draws"] = 0
    obs["sched_hist"] = _sched_hist(sim)
    _by_station(sim, obs)
    obs["stoch"] = _stoch_extra(sim)
    if first is not None:
        obs["first"] = first
    return obs


REAL = ("uncontrolled", "fcfs", "lcfs", "edf", "llf", "lrpt", "rr")
SORTS = ("fcfs", "lcfs", "edf", "llf", "lrpt")


def _is_real(scn):
    return scn["sched"]["type"] in REAL


def _sort_of(sc):
    """sort order of a real sorted scheduler spec (`sort` for round robin, default fcfs)"""
    return sc["type"] if sc["type"] in SORTS else sc.get("sort", "fcfs")


def _real_inner(scn):
    """the REAL algorithm of a scenario (every sort order of sorted_algorithms.py); `estimator`: SimpleRampdown
    (internal per-session bounds that are NOT part of the serialised state; thresholds / increment from `ramp`),
    `uninterrupted`: minimum-rate preprocessing, `inc`: RoundRobin's continuous_inc"""
    from acnportal import algorithms as A
    sc = scn["sched"]
    rp = sc.get("ramp") or {"up": 1, "down": 1, "inc": 1}
    est = A.SimpleRampdown(rp["up"], rp["down"], rp["inc"]) if sc.get("estimator") else None
    kw = dict(estimate_max_rate=est is not None, max_rate_estimator=est,
              uninterrupted_charging=bool(sc.get("uninterrupted")))
    t = sc["type"]
    fn = {"fcfs": A.first_come_first_served, "lcfs": A.last_come_first_served, "edf": A.earliest_deadline_first,
          "llf": A.least_laxity_first, "lrpt": A.largest_remaining_processing_time}[_sort_of(sc)]
    if t == "uncontrolled":
        inner = A.UncontrolledCharging()
    elif t == "rr":
        inner = A.RoundRobin(fn, continuous_inc=sc.get("inc", 0.1), **kw)
    else:
        inner = A.SortedSchedulingAlgo(fn, **kw)
    inner.max_recompute = scn.get("max_recompute")
    return inner


def _fresh_algo(scn):
    if not _is_real(scn):
        return S.make_scheduler(scn, S.Hooks())
    algo = S.WrappedAlgo(_real_inner(scn), S.Hooks())
    algo.max_recompute = scn.get("max_recompute")
    return algo


def _np_of(n, key, v):
    """the value as the numpy scalar type named in the session's `np` spec (numpy integer / float32 scalars as
    EV fields: what a pandas / numpy pipeline hands to the EV constructor)"""
    if v is None or not n or key not in n:
        return v
    return getattr(np, n[key])(v)


def _make_ev_np(spec):
    n = spec.get("np") or {}
    nb = n.get("batt") or {}
    b = spec["batt"]
    cap, init, maxp = (_np_of(nb, k_, I.num(b[k_])) for k_ in ("cap", "init", "maxp"))
    if b.get("two"):
        batt = Linear2StageBattery(cap, init, maxp, noise_level=I.num(b.get("noise", 0)),
                                   transition_soc=I.num(b.get("ts", 0.8)), charge_calculation=b.get("calc", "continuous"))
    else:
        batt = Battery(cap, init, maxp)
    return EV(_np_of(n, "arrival", spec["arrival"]), _np_of(n, "departure", spec["departure"]),
              _np_of(n, "requested", I.num(spec["requested"])), spec["station"], spec["session"], batt,
              estimated_departure=_np_of(n, "est", spec.get("est")))


def _needs_custom(scn):
    return (any(s_.get("np") or s_.get("alias") for s_ in scn["sessions"]) or scn.get("period_np") is not None
            or (scn.get("constraint") or {}).get("name") is not None)


def _build_custom(case, hooks, store_hist):
    """S.build_sim, plus: numpy scalar types for EV / battery fields and the period, a constraint NAME from the
    case, and session ids that are registry ids ("alias": the EV's id is the decimal id() string of itself, of
    its battery, of the network or of the simulator — what `_to_registry` uses as keys of `context_dict`)."""
    hooks = hooks or S.Hooks()
    net_cls = hooks.network_cls or S.SnapshotNetwork
    net = net_cls()
    for st in case["stations"]:
        net.register_evse(I.make_evse(st["kind"], st["id"]), I.num(st["V"]), I.num(st.get("phase", 0)))
    con = case.get("constraint")
    if con:
        net.add_constraint(Current([st["id"] for st in case["stations"]]), I.num(con["limit"]), name=con.get("name", "agg"))
    evs = [_make_ev_np(s_) for s_ in case["sessions"]]
    events = [PluginEvent(ev.arrival, ev) for ev in evs]
    events += [RecomputeEvent(int(r)) for r in case.get("recomputes", [])]
    queue = EventQueue(events)
    algo = S.make_scheduler(case, hooks)
    period = I.num(case["period"])
    if case.get("period_np"):
        period = getattr(np, case["period_np"])(period)
    sim = Simulator(net, algo, queue, S.START, period=period, verbose=False, store_schedule_history=store_hist)
    amap = {}
    for s_, ev in zip(case["sessions"], evs):
        al = s_.get("alias")
        if al:
            target = {"self": ev, "battery": ev._battery, "network": net, "sim": sim, "queue": queue}[al]
            ev._session_id = str(id(target))       # before anything is keyed by it: same as constructing with this id
            amap[ev._session_id] = s_["session"]
    return sim, {"network": net, "scheduler": algo, "evs": evs, "hooks": hooks, "amap": amap}


def _unalias(x, amap):
    """observations name an aliased session by its case id again (the id() strings differ from build to build)"""
    if not amap:
        return x
    if isinstance(x, str):
        return amap.get(x, x)
    if isinstance(x, list):
        return [_unalias(y, amap) for y in x]
    if isinstance(x, dict):
        return {k_: _unalias(v_, amap) for k_, v_ in x.items()}
    return x


def _observe(sim, ctx, err):
    obs = S.observe(sim, ctx, err)
    obs["constraint_names"] = list(sim.network.constraint_index)
    return _unalias(obs, ctx.get("amap"))


def _base_build(scn, hooks, store_hist):
    if _needs_custom(scn):
        return _build_custom(scn, hooks, store_hist)
    return S.build_sim(scn, hooks, store_schedule_history=store_hist)


def _apply_precs(sim, scn):
    """scn["precs"][i]: the precedence given to the plug-in event of session i (left alone when another session leaves the same
    station in the arrival period: an earlier plug-in would find the station occupied)"""
    from acnportal.acnsim.events import EventQueue
    precs = scn.get("precs")
    if not precs:
        return
    by = {s["session"]: p for s, p in zip(scn["sessions"], precs)}
    leaves = {(s["station"], s["departure"]) for s in scn["sessions"]}
    evs = [e for _, e in sim.event_queue.queue]
    for e in evs:
        ev = getattr(e, "ev", None)
        if ev is not None and e.event_type == "Plugin" and ev.session_id in by and (ev.station_id, ev.arrival) not in leaves:
            e.precedence = by[ev.session_id]
    sim.event_queue = EventQueue(evs)


def _build(scn, hooks, store_hist=False):
    sim, ctx = _build0(scn, hooks, store_hist)
    _apply_precs(sim, scn)
    return sim, ctx


def _build0(scn, hooks, store_hist=False):
    """S.build_sim; for a real algorithm the wrapped inner algorithm is replaced by one built here (so that
    every sort order and the estimator / uninterrupted options exist)"""
    if _is_real(scn):
        shell = dict(scn, sched={"type": "uncontrolled" if scn["sched"]["type"] == "uncontrolled" else "fcfs"})
        sim, ctx = _base_build(shell, hooks, store_hist)
        algo = ctx["scheduler"]
        algo.inner = _real_inner(scn)
        algo.inner.register_interface(algo.interface)
        return sim, ctx
    return _base_build(scn, hooks, store_hist)


def _rd_final(obs, algo):
    rd = _estimator_of(algo)
    if rd is not None:
        obs["rd_bounds"] = sorted([k_, float(v_)] for k_, v_ in rd.upper_bounds.items())


def _estimator_of(algo):
    return getattr(getattr(algo, "inner", None), "max_rate_estimator", None)


def _rd_state(algo):
    """what the SimpleRampdown object of a (wrapped) real algorithm knows right now, and what it would read off
    the interface in its next call: [session, bound, max pilot of the station, previous pilot, previous rate]
    for every session it has a bound for and that is connected"""
    est = _estimator_of(algo)
    if est is None:
        return None
    iface = est.interface
    pp, pr = iface.last_applied_pilot_signals, iface.last_actual_charging_rate
    out = []
    for s_ in iface.active_sessions():
        if s_.session_id in est.upper_bounds:
            out.append([s_.session_id, float(est.upper_bounds[s_.session_id]), I.enc(float(iface.max_pilot_signal(s_.station_id))),
                        None if s_.session_id not in pp else float(pp[s_.session_id]),
                        None if s_.session_id not in pr else float(pr[s_.session_id])])
    return sorted(out)


def _infra_obs(iface):
    """`Interface.infrastructure_info()` as the sorted algorithms see it (input of the modelled algorithm)"""
    import numpy as np
    info = iface.infrastructure_info()
    ph = np.deg2rad(info.phases)
    return {"ids": list(info.station_ids),
            "M": [[float(x) for x in row] for row in info.constraint_matrix],
            "lims": [float(x) for x in info.constraint_limits],
            "cos": [float(x) for x in np.cos(ph)], "sin": [float(x) for x in np.sin(ph)],
            "volt": [float(x) for x in info.voltages],
            "maxp": [I.enc(float(x)) for x in info.max_pilot], "minp": [float(x) for x in info.min_pilot],
            "cont": [bool(x) for x in info.is_continuous],
            "allow": [[I.enc(float(a_)) for a_ in al] for al in info.allowable_pilots]}


class _FailAfter:
    """`after` hook: raises once, in period k, AFTER the wrapped algorithm has computed its schedule (and
    updated whatever internal state it keeps)"""

    def __init__(self, k):
        self.k = k
        self.done = False

    def __call__(self, algo, interface, sessions, schedule):
        if interface.current_time == self.k and not self.done:
            self.done = True
            raise S.SchedulerFailure(f"failure after the algorithm ran, period {self.k}")
        return None


def _run_resume(scn, hooks):
    """run b: crash, then run() again on the same object"""
    with S.noise_stream(scn.get("noise", [])) as ns:
        sim, ctx = _build(scn, hooks)
        err = S.run_sim(sim)
        if err is None:
            obs = _observe(sim, ctx, None)
        else:
            first = _observe(sim, ctx, err)
            err2 = S.run_sim(sim)
            obs = _observe(sim, ctx, err2)
            obs["first"] = first
        obs["noise_draws"] = ns["k"]
        _by_station(sim, obs)
        _rd_final(obs, ctx["scheduler"])
    return obs


def _run_a(scn):
    key = C.case_hash(scn)
    if key not in _A_CACHE and scn.get("stochastic"):
        _A_CACHE[key] = _run_stoch(scn, None)
    if key not in _A_CACHE:
        if len(_A_CACHE) > 64:
            _A_CACHE.clear()
        with S.noise_stream(scn.get("noise", [])) as ns:
            sim, ctx = _build(scn, S.Hooks(), True)
            err = S.run_sim(sim)
            obs = _observe(sim, ctx, err)
            obs["noise_draws"] = ns["k"]
            obs["sched_hist"] = _sched_hist(sim)
            _by_station(sim, obs)
            if _is_real(scn):
                obs["infra"] = _infra_obs(ctx["scheduler"].interface)
                _rd_final(obs, ctx["scheduler"])
        _A_CACHE[key] = obs
    return _A_CACHE[key]


def _all_evs(sim):
    """Every EV object reachable from the simulator, as (where, object)."""
    out = []
    for st, evse in sim.network._EVSEs.items():
        if evse.ev is not None:
            out.append((f"station {st}", evse.ev))
    for sid, ev in sim.ev_history.items():
        out.append((f"ev_history[{sid}]", ev))
    for e in sim.event_history:
        if hasattr(e, "ev"):
            out.append((f"event_history {e.event_type}@{e.timestamp}", e.ev))
    for ts, e in sim.event_queue.queue:
        if hasattr(e, "ev"):
            out.append((f"pending {e.event_type}@{ts}", e.ev))
    return out


def _identity(sim):
    """Sharing after the load: one object per session; station / ev_history / pending unplug agree."""
    bad = []
    first = {}
    for where, ev in _all_evs(sim):
        sid = ev.session_id
        if sid in first and first[sid][1] is not ev:
            bad.append(f"session {sid}: {where} and {first[sid][0]} are different objects")
        first.setdefault(sid, (where, ev))
    n_shared = 0
    for st in sim.network.station_ids:
        ev = sim.network.get_ev(st)
        if ev is None:
            continue
        if sim.ev_history.get(ev.session_id) is not ev:
            bad.append(f"network.get_ev({st}) is not ev_history[{ev.session_id}]")
        un = [e for _, e in sim.event_queue.queue if e.event_type == "Unplug" and e.ev.session_id == ev.session_id]
        if len(un) != 1:
            bad.append(f"{len(un)} pending UnplugEvents for the connected session {ev.session_id}")
        elif un[0].ev is not ev:
            bad.append(f"pending UnplugEvent.ev is not network.get_ev({st})")
        else:
            n_shared += 1
    batts = {}
    for where, ev in _all_evs(sim):
        b = id(ev._battery)
        if b in batts and batts[b] != ev.session_id:
            bad.append(f"sessions {batts[b]} and {ev.session_id} share one battery object")
        batts[b] = ev.session_id
    return bad, n_shared


# where a registry holds REFERENCES (ids of other entries).  The loader is schema-directed (`_from_dict` knows which
# attribute is an id), so a string LEAF that happens to equal an id (a session id "140231…") is NOT a reference.
REF_ATTR = {("Simulator", "network"), ("Simulator", "event_queue"), ("EV", "_battery"), ("BaseEVSE", "_ev"), ("EVSE", "_ev"),
            ("DeadbandEVSE", "_ev"), ("FiniteRatesEVSE", "_ev"), ("PluginEvent", "ev"), ("UnplugEvent", "ev"), ("EVEvent", "ev")}
REF_DICT = {("Simulator", "ev_history"), ("ChargingNetwork", "_EVSEs"), ("LogNetwork", "_EVSEs"), ("SnapshotNetwork", "_EVSEs"),
            ("JsonLogNetwork", "_EVSEs"), ("_Stoch", "_EVSEs"), ("_StochEarly", "_EVSEs"), ("StochasticNetwork", "_EVSEs")}
REF_LIST = {("Simulator", "event_history")}
REF_PAIRS = {("EventQueue", "_queue")}          # [[timestamp, id], …]


def _leaf_eq(a, b):
    """leaves of two parsed documents: same TYPE (an int is not a float, a bool is not an int) and same value"""
    if type(a) is not type(b):
        return False
    if isinstance(a, float) and a != a:
        return b != b
    if isinstance(a, list):
        return len(a) == len(b) and all(_leaf_eq(x, y) for x, y in zip(a, b))
    if isinstance(a, dict):
        return list(a.keys()) == list(b.keys()) and all(_leaf_eq(a[k], b[k]) for k in a)
    return a == b


def _bijection(j1, j2, skip=()):
    """Structural comparison of two registries: ids are matched by walking from the roots along the attributes that
    hold references (schema above); every other attribute must be equal as a typed JSON value."""
    c1, c2 = j1["context_dict"], j2["context_dict"]
    fwd, bwd, diffs = {}, {}, []
    todo = [(j1["id"], j2["id"])]

    def ref(a, b, path):
        if a is None or b is None:
            if a is not b:
                diffs.append(f"{path}: {a!r} vs {b!r}")
            return
        if not (isinstance(a, str) and a in c1 and isinstance(b, str) and b in c2):
            diffs.append(f"{path}: reference {a!r} vs {b!r}")
            return
        if fwd.get(a, b) != b or bwd.get(b, a) != a:
            diffs.append(f"{path}: sharing differs (id map not a bijection)")
            return
        if a not in fwd:
            fwd[a] = b
            bwd[b] = a
            todo.append((a, b))

    def attrs(cls, a, b):
        if list(a.keys()) != list(b.keys()):
            diffs.append(f"{cls}: keys {list(a.keys())} vs {list(b.keys())}")
            return
        for k in a:
            x, y, path = a[k], b[k], f"{cls}.{k}"
            if (cls, k) in skip:
                continue
            if (cls, k) in REF_ATTR:
                ref(x, y, path)
            elif (cls, k) in REF_DICT and isinstance(x, dict) and isinstance(y, dict):
                if list(x.keys()) != list(y.keys()):
                    diffs.append(f"{path}: keys {list(x.keys())[:6]} vs {list(y.keys())[:6]}")
                    continue
                for kk in x:
                    ref(x[kk], y[kk], f"{path}[{kk!r}]")
            elif (cls, k) in REF_LIST and isinstance(x, list) and isinstance(y, list):
                if len(x) != len(y):
                    diffs.append(f"{path}: length {len(x)} vs {len(y)}")
                    continue
                for n_, (p_, q_) in enumerate(zip(x, y)):
                    ref(p_, q_, f"{path}[{n_}]")
            elif (cls, k) in REF_PAIRS and isinstance(x, list) and isinstance(y, list):
                if len(x) != len(y):
                    diffs.append(f"{path}: length {len(x)} vs {len(y)}")
                    continue
                for n_, (p_, q_) in enumerate(zip(x, y)):
                    if not (isinstance(p_, list) and isinstance(q_, list) and len(p_) == 2 and len(q_) == 2):
                        diffs.append(f"{path}[{n_}]: {p_!r} vs {q_!r}")
                    else:
                        if not _leaf_eq(p_[0], q_[0]):
                            diffs.append(f"{path}[{n_}] timestamp: {p_[0]!r} vs {q_[0]!r}")
                        ref(p_[1], q_[1], f"{path}[{n_}]")
            elif not _leaf_eq(x, y):
                diffs.append(f"{path}: {str(x)[:80]!r} vs {str(y)[:80]!r} ({type(x).__name__} / {type(y).__name__})")

    fwd[j1["id"]] = j2["id"]
    bwd[j2["id"]] = j1["id"]
    while todo and len(diffs) < 6:
        a, b = todo.pop()
        o1, o2 = c1[a], c2[b]
        if o1["class"] != o2["class"]:
            diffs.append(f"{a}: class {o1['class']} vs {o2['class']}")
            continue
        attrs(o1["class"].split(".")[-1], o1["attributes"], o2["attributes"])
    if len(c1) != len(c2):
        diffs.append(f"{len(c1)} objects before, {len(c2)} after the round trip")
    order1 = list(c1.keys())
    order2 = [bwd.get(k) for k in c2.keys()]
    if not diffs and order1 != order2:
        diffs.append("objects are entered in a different order")
    return diffs


def _wire_val(cls, k, v, ids):
    """one attribute value in the driver's wire form; references are marked BY POSITION (schema above), never by
    what a string looks like"""
    key = (cls, k)
    if key in REF_ATTR:
        return {"s": "null"} if v is None else {"r": int(v)}
    if key in REF_DICT and isinstance(v, dict) and v and all(isinstance(x, str) and x in ids for x in v.values()):
        items = [{"s": "{"}]
        for kk, x in v.items():
            items += [{"s": json.dumps(kk)}, {"r": int(x)}]
        return {"l": items + [{"s": "}"}]}
    if key in REF_LIST and isinstance(v, list) and v and all(isinstance(x, str) and x in ids for x in v):
        return {"l": [{"s": "["}] + [{"r": int(x)} for x in v] + [{"s": "]"}]}
    if key in REF_PAIRS and isinstance(v, list) and v and all(isinstance(x, list) and len(x) == 2 and x[1] in ids for x in v):
        items = [{"s": "["}]
        for ts, x in v:
            items += [{"s": "["}, {"s": json.dumps(ts)}, {"r": int(x)}, {"s": "]"}]
        return {"l": items + [{"s": "]"}]}
    return {"s": json.dumps(v)}


def _wire_store(j):
    ctx = j["context_dict"]
    ids = set(ctx.keys())
    store = [[int(i), o["class"], [[k, _wire_val(o["class"].split(".")[-1], k, v, ids)] for k, v in o["attributes"].items()]]
             for i, o in ctx.items()]
    store.sort(key=lambda e: (e[1], -e[0]))          # scrambled: by class name, then descending id
    return {"root": int(j["id"]), "store": store, "order": [int(i) for i in ctx.keys()]}


def _canon_impl(j, scn):
    """the implementation's `context_dict` in the model's layout (AcnModel/RegistrySim.lean): ids renumbered
    (0 simulator, 1 network, 2 queue, EVSEs in registration order, EV/battery pairs in the scenario's session
    order, pending events in `_queue` order, past events in `event_history` order), scalars tagged.  Attributes
    the model does not track are dropped; `_model_*` attributes (recompute tags, the unused two-stage parameters
    of an ideal battery) are supplied from the scenario.  Returns None when the document does not have the
    expected shape (reported as a disagreement)."""
    ctx = j["context_dict"]
    sim = ctx[j["id"]]["attributes"]
    net_id, q_id = sim["network"], sim["event_queue"]
    net, q = ctx[net_id]["attributes"], ctx[q_id]["attributes"]
    stations = [st["id"] for st in scn["stations"]]
    nst = len(stations)
    bE = 3 + nst
    sess = [x["session"] for x in scn["sessions"]]
    bP = bE + 2 * len(sess)
    queue = q["_queue"]
    bH = bP + len(queue)
    new = {j["id"]: 0, net_id: 1, q_id: 2}
    if list(net["_EVSEs"].keys()) != stations:
        return None
    for i, st in enumerate(stations):
        new[net["_EVSEs"][st]] = 3 + i
    ev_objs = {o["attributes"]["_session_id"]: i for i, o in ctx.items() if o["class"].endswith(".EV")}
    if sorted(ev_objs) != sorted(sess):
        return None
    for jx, sid in enumerate(sess):
        new[ev_objs[sid]] = bE + 2 * jx
        new[ctx[ev_objs[sid]]["attributes"]["_battery"]] = bE + 2 * jx + 1
    for p_, (ts, eid) in enumerate(queue):
        new[eid] = bP + p_
    for h, eid in enumerate(sim["event_history"]):
        new[eid] = bH + h
    if len(new) != len(ctx):
        return None

    def f(x):
        return {"s": "f:" + str(C.f2b(float(x)))}

    def i_(x):
        if x is None:
            return {"s": "null"}
        if isinstance(x, bool) or not isinstance(x, int):
            return {"s": "f:" + str(C.f2b(float(x)))}       # an integer field that is no `int` in the document: the
        return {"s": "i:" + str(int(x))}                     # model's decoder refuses it (reported as a disagreement)

    def st_(x):
        return {"s": "s:" + str(x)}

    def mat(m):
        return {"s": "m:" + json.dumps({"w": len(m[0]) if m else 0, "rows": [[C.f2b(float(x)) for x in r] for r in m]})}

    def ref(x):
        return {"s": "null"} if x is None else {"r": new[x]}

    tags = {}
    for ix, t in enumerate(scn.get("recomputes", [])):
        tags.setdefault(int(t), []).append(f"r{ix}")
    out = []
    out.append([0, "Simulator", [
        ["network", ref(net_id)], ["event_queue", ref(q_id)], ["_iteration", i_(sim["_iteration"])],
        ["_resolve", {"s": "b:true" if sim["_resolve"] else "b:false"}],
        ["_last_schedule_update", i_(sim["_last_schedule_update"])], ["peak", f(sim["peak"])],
        ["pilot_signals", mat(sim["pilot_signals"])], ["charging_rates", mat(sim["charging_rates"])],
        ["ev_history", {"l": [x for sid, e in sim["ev_history"].items() for x in ({"s": "s:" + sid}, {"r": new[e]})]}],
        ["event_history", {"l": [{"r": new[e]} for e in sim["event_history"]]}]]])
    out.append([1, "ChargingNetwork", [["_EVSEs", {"l": [x for st, e in net["_EVSEs"].items() for x in ({"s": "s:" + st}, {"r": new[e]})]}]]])
    out.append([2, "EventQueue", [["_queue", {"l": [x for ts, e in queue for x in ({"s": "i:" + str(int(ts))}, {"r": new[e]})]}]]])
    for oid, o in ctx.items():
        cls = o["class"].split(".")[-1]
        a = o["attributes"]
        if cls in ("EVSE", "DeadbandEVSE", "FiniteRatesEVSE"):
            out.append([new[oid], cls, [["_station_id", st_(a["_station_id"])], ["_current_pilot", f(a["_current_pilot"])],
                                         ["_ev", ref(a["_ev"])]]])
        elif cls == "EV":
            out.append([new[oid], cls, [
                ["_arrival", i_(a["_arrival"])], ["_departure", i_(a["_departure"])], ["_session_id", st_(a["_session_id"])],
                ["_station_id", st_(a["_station_id"])], ["_requested_energy", f(a["_requested_energy"])],
                ["_estimated_departure", i_(a["_estimated_departure"])], ["_energy_delivered", f(a["_energy_delivered"])],
                ["_current_charging_rate", f(a["_current_charging_rate"])], ["_battery", ref(a["_battery"])]]])
        elif cls in ("Battery", "Linear2StageBattery"):
            base = [[k, f(a[k])] for k in ("_max_power", "_current_charging_power", "_current_charge", "_capacity", "_init_charge")]
            if cls == "Battery":
                spec = scn["sessions"][(new[oid] - bE - 1) // 2]["batt"]
                base += [["_model_noise_level", f(I.num(spec.get("noise", 0)))], ["_model_transition_soc", f(I.num(spec.get("ts", 0.8)))],
                         ["_model_charge_calculation", st_(spec.get("calc", "continuous"))]]
            else:
                base += [["_noise_level", f(a["_noise_level"])], ["_transition_soc", f(a["_transition_soc"])],
                         ["charge_calculation", st_(a["charge_calculation"])]]
            out.append([new[oid], cls, base])
        elif cls in ("PluginEvent", "UnplugEvent"):
            out.append([new[oid], cls, [["timestamp", i_(a["timestamp"])], ["ev", ref(a["ev"])]]])
        elif cls == "RecomputeEvent":
            lst = tags.get(int(a["timestamp"]), [])
            tag = lst.pop(0) if lst else "r?"
            out.append([new[oid], cls, [["timestamp", i_(a["timestamp"])], ["_model_tag", st_(tag)]]])
    out.sort(key=lambda e: e[0])
    return out


def _evs_of(sim, scn, amap=None):
    amap = amap or {}
    by = {}
    for _, ev in _all_evs(sim):
        by.setdefault(amap.get(ev.session_id, ev.session_id), ev)
    return [by[s["session"]] for s in scn["sessions"] if s["session"] in by], \
        [s["session"] for s in scn["sessions"] if s["session"] not in by]


def _intlike(x):
    return isinstance(x, (int, np.integer)) and not isinstance(x, (bool, np.bool_))


def _type_diffs(sim):
    """fields that are integers by construction must still be integers in a loaded simulator (an `int` that comes
    back as a `float` compares equal and prints differently: 5 vs 5.0)"""
    bad = []
    for nm in ("_iteration",):
        if not _intlike(getattr(sim, nm)):
            bad.append(f"Simulator.{nm} is {type(getattr(sim, nm)).__name__} {getattr(sim, nm)!r}")
    for nm in ("_last_schedule_update", "max_recompute"):
        v = getattr(sim, nm)
        if v is not None and not _intlike(v):
            bad.append(f"Simulator.{nm} is {type(v).__name__} {v!r}")
    if not isinstance(sim._resolve, (bool, np.bool_)):
        bad.append(f"Simulator._resolve is {type(sim._resolve).__name__}")
    seen = set()
    for where, ev in _all_evs(sim):
        if id(ev) in seen:
            continue
        seen.add(id(ev))
        for nm in ("_arrival", "_departure", "_estimated_departure"):
            v = getattr(ev, nm)
            if not _intlike(v):
                bad.append(f"EV {ev.session_id!r}.{nm} is {type(v).__name__} {v!r}")
        for nm in ("_session_id", "_station_id"):
            if not isinstance(getattr(ev, nm), str):
                bad.append(f"EV.{nm} is {type(getattr(ev, nm)).__name__}")
    for ts, e in sim.event_queue.queue:
        if not _intlike(ts) or not _intlike(e.timestamp):
            bad.append(f"pending {e.event_type}: timestamp {type(ts).__name__} {ts!r} / {type(e.timestamp).__name__}")
    for e in sim.event_history:
        if not _intlike(e.timestamp):
            bad.append(f"past {e.event_type}: timestamp {type(e.timestamp).__name__} {e.timestamp!r}")
    for st, evse in sim.network._EVSEs.items():
        if not isinstance(st, str) or evse.station_id != st:
            bad.append(f"EVSE registered as {st!r} has station_id {evse.station_id!r}")
    return bad[:6]


def _num(x):
    if x is None:
        return None
    if isinstance(x, (bool, np.bool_)):
        return bool(x)
    if isinstance(x, (int, np.integer)):
        return int(x)
    if isinstance(x, (float, np.floating)):
        return I.enc(float(x))
    if isinstance(x, np.ndarray):
        return [_num(y) for y in x.tolist()]
    if isinstance(x, (list, tuple)):
        return [_num(y) for y in x]
    return x


def _live_state(sim, amap=None):
    """every value the serialiser is responsible for, read off the LIVE objects (not off the document): a value
    that `_to_dict` writes wrongly, `NpEncoder` converts lossily or `_from_dict` restores wrongly shows here even
    when nothing that is simulated afterwards depends on it.  ints exactly, floats exactly (a double survives
    `repr` / `float`), numpy scalars by value."""
    amap = amap or {}
    net = sim.network
    out = {"sim": [_num(sim.period), _num(sim.peak), _num(sim.max_recompute), _num(sim._iteration), _num(sim._resolve),
                   _num(sim._last_schedule_update), _num(sim.pilot_signals), _num(sim.charging_rates),
                   None if sim.schedule_history is None else sorted([int(t), sorted([st, _num(v)] for st, v in sc.items())]
                                                                  for t, sc in sim.schedule_history.items())],
           "net": [_num(net.violation_tolerance), _num(net.relative_tolerance), _num(net.constraint_matrix), _num(net.magnitudes),
                   _num(net._voltages), _num(net._phase_angles), list(net.constraint_index), list(net.station_ids),
                   _num(net.max_pilot_signals), _num(net.min_pilot_signals), _num(net.is_continuous),
                   [_num(a_) for a_ in net.allowable_rates]],
           "queue": sorted([_num(ts), e.event_type, _num(e.timestamp), _num(e.precedence),
                            amap.get(e.ev.session_id, e.ev.session_id) if hasattr(e, "ev") else ""] for ts, e in sim.event_queue.queue),
           "past": [[e.event_type, _num(e.timestamp), _num(e.precedence),
                     amap.get(e.ev.session_id, e.ev.session_id) if hasattr(e, "ev") else ""] for e in sim.event_history],
           "evse": {}, "ev": {}}
    for st, e in net._EVSEs.items():
        out["evse"][st] = [type(e).__name__, _num(e._current_pilot), _num(e.is_continuous), _num(getattr(e, "_max_rate", None)),
                           _num(getattr(e, "_min_rate", None)), _num(getattr(e, "_deadband_end", None)),
                           _num(getattr(e, "allowable_rates", None)) if not isinstance(getattr(type(e), "allowable_rates", None), property) else _num(e.allowable_rates),
                           None if e.ev is None else amap.get(e.ev.session_id, e.ev.session_id)]
    for _, ev in _all_evs(sim):
        sid = amap.get(ev.session_id, ev.session_id)
        if sid in out["ev"]:
            continue
        b = ev._battery
        out["ev"][sid] = [ev._station_id, _num(ev._arrival), _num(ev._departure), _num(ev._estimated_departure),
                          _num(ev._requested_energy), _num(ev._energy_delivered), _num(ev._current_charging_rate),
                          type(b).__name__, _num(b._capacity), _num(b._init_charge), _num(b._max_power),
                          _num(b._current_charge), _num(b._current_charging_power)] + \
            ([_num(b._noise_level), _num(b._transition_soc), b.charge_calculation] if hasattr(b, "_transition_soc") else [])
    return out


def _state_diffs(a, b, tag):
    d = []
    for grp in ("sim", "net", "queue", "past"):
        if a[grp] != b[grp]:
            for i_, (x, y) in enumerate(zip(a[grp], b[grp])):
                if x != y:
                    d.append(f"{tag}: {grp}[{i_}]: {str(x)[:120]} vs {str(y)[:120]}")
                    break
            else:
                d.append(f"{tag}: {grp}: {len(a[grp])} vs {len(b[grp])} entries")
    for grp in ("evse", "ev"):
        if list(a[grp].keys()) != list(b[grp].keys()) and sorted(a[grp].keys()) != sorted(b[grp].keys()):
            d.append(f"{tag}: {grp} keys {list(a[grp].keys())[:5]} vs {list(b[grp].keys())[:5]}")
            continue
        for k_ in a[grp]:
            if a[grp][k_] != b[grp][k_]:
                d.append(f"{tag}: {grp} {k_[:30]!r}: {a[grp][k_]} vs {b[grp][k_]}")
                break
    return d[:4]


_JS_TEXT = {}          # case hash -> the `to_json()` document of run c (text layer tie; kept out of the observations)


def _run_json(scn, k, store_hist, net_cls, want_store, reattach="fresh", twice=False, keep_text=None):
    """run c / d.  reattach: "fresh" = a new algorithm object, "original" = the algorithm object of the
    crashed simulator (keeps whatever internal state it has).  In every run the loaded simulator is written and
    loaded a SECOND time: sharing, types and the document must survive that too; with `twice` the run is resumed
    from the twice-loaded simulator."""
    del _OCC[:]
    with S.noise_stream(scn.get("noise", [])) as ns:
        sim, ctx = _build(scn, S.Hooks(fail_at={k}, network_cls=net_cls), store_hist)
        amap = ctx.get("amap") or {}
        err = S.run_sim(sim)
        out = {"fired": err == "SchedulerFailed" and sim.iteration == k, "reattach": reattach, "twice": twice}
        if not out["fired"]:
            obs = _observe(sim, ctx, err)
            obs["noise_draws"] = ns["k"]
            obs["sched_hist"] = _sched_hist(sim)
            _by_station(sim, obs)
            obs["occ"] = _unalias([list(r) for r in _OCC], amap) if net_cls is LogNetwork else []
            out["obs"] = obs
            return out
        w = _quiet()
        try:
            live1 = _live_state(sim, amap)
            js = sim.to_json()
            sim2 = Simulator.from_json(js)
            algo2 = _fresh_algo(scn) if reattach == "fresh" else ctx["scheduler"]
            if reattach != "fresh":
                del algo2.calls[:]
                out["rd_at_crash"] = _rd_state(algo2)
            sim2.update_scheduler(algo2)
            buf = io.StringIO()                 # the second hop goes through the file-like entry points
            sim2.to_json(buf)                   # (json.dump + trailing newline / json.load)
            js2 = buf.getvalue()
            buf.seek(0)
            sim3 = Simulator.from_json(buf)
            js3 = sim3.to_json()
        finally:
            w.__exit__(None, None, None)
        j1 = json.loads(js)
        if keep_text is not None and len(js) < 300000:
            if len(_JS_TEXT) > 600:
                _JS_TEXT.clear()
            _JS_TEXT[keep_text] = js
        out["identity"], out["n_shared"] = _identity(sim2)
        id3, n3 = _identity(sim3)
        out["identity"] += ["after a second save/load: " + x for x in id3]
        if n3 != out["n_shared"]:
            out["identity"].append(f"{out['n_shared']} shared station/history/unplug triples after the first load, {n3} after the second")
        out["rejson"] = _bijection(j1, json.loads(js2)) or ["second save/load: " + x for x in _bijection(
            j1, json.loads(js3), skip={("Simulator", "scheduler")})]     # only the class NAME of the scheduler travels; sim3 has none re-attached
        out["types"] = _type_diffs(sim2) or ["after a second save/load: " + x for x in _type_diffs(sim3)]
        out["values"] = (_state_diffs(live1, _live_state(sim2, amap), "crashed vs loaded simulator")
                         or _state_diffs(live1, _live_state(sim3, amap), "crashed vs twice-loaded simulator"))
        out["n_objects"] = len(j1["context_dict"])
        out["pending_kinds"] = sorted({e.event_type for _, e in sim2.event_queue.queue})
        out["same_object"] = sim2 is sim or sim3 is sim2
        if want_store:
            out["store"] = _wire_store(j1)
            out["canon"] = _canon_impl(j1, scn)
            out["noise_at_crash"] = ns["k"]
        if twice:
            w = _quiet()
            try:
                sim3.update_scheduler(algo2)
            finally:
                w.__exit__(None, None, None)
            sim2 = sim3
        evs, missing = _evs_of(sim2, scn, amap)
        out["missing_evs"] = missing
        err2 = S.run_sim(sim2)
        ctx2 = {"network": sim2.network, "scheduler": algo2, "evs": evs, "hooks": None, "amap": amap}
        obs = _observe(sim2, ctx2, err2)
        obs["noise_draws"] = ns["k"]
        obs["sched_hist"] = _sched_hist(sim2)
        _by_station(sim2, obs)
        obs["occ"] = _unalias([list(r) for r in _OCC], amap) if net_cls is LogNetwork else []
        if reattach != "fresh":
            _rd_final(obs, algo2)
        out["obs"] = obs
        # every EV is still ONE object when the resumed run has ended (ev_history / event_history / whoever is left)
        out["identity"] += ["at the end of the resumed run: " + x for x in _identity(sim2)[0]]
    return out


def _run_json_twice(scn, k, k2):
    """TWO interruptions: the scheduler raises in period k and again in period k2 > k; each time the simulator is
    written to JSON, loaded back and given the SAME algorithm object again (whatever that object has learned
    must survive both hand-overs; everything else must survive two round trips)"""
    with S.noise_stream(scn.get("noise", [])) as ns:
        sim, ctx = _build(scn, S.Hooks(fail_at={k, k2}, network_cls=ChargingNetwork), False)
        algo = ctx["scheduler"]
        err = S.run_sim(sim)
        out = {"fired": err == "SchedulerFailed" and sim.iteration == k, "fired2": False, "reattach": "original"}
        hops = 0
        while err == "SchedulerFailed" and hops < 2 and sim.iteration in (k, k2):
            if hops == 1:
                out["fired2"] = sim.iteration == k2
            w = _quiet()
            try:
                sim = Simulator.from_json(sim.to_json())
                del algo.calls[:]
                sim.update_scheduler(algo)
            finally:
                w.__exit__(None, None, None)
            hops += 1
            err = S.run_sim(sim)
        evs, missing = _evs_of(sim, scn, ctx.get("amap"))
        out["missing_evs"] = missing
        obs = _observe(sim, {"network": sim.network, "scheduler": algo, "evs": evs, "hooks": None, "amap": ctx.get("amap")}, err)
        obs["noise_draws"] = ns["k"]
        obs["sched_hist"] = None
        _by_station(sim, obs)
        obs["occ"] = []
        out["obs"] = obs
        out["identity"], out["n_shared"] = _identity(sim)
    return out


def run_impl(case):
    scn, k = case["scn"], int(case["k"])
    a = _run_a(scn)
    if scn.get("stochastic"):
        return {"a": a, "b": _run_stoch(scn, k), "c": None, "d": None}
    b = _run_resume(scn, S.Hooks(fail_at={k}))
    c = _run_json(scn, k, False, ChargingNetwork, not _is_real(scn) and not scn.get("no_model"), keep_text=C.case_hash(case))
    # an algorithm with hidden state: the history-on round trip gets the ORIGINAL algorithm object back too
    # (run c keeps the fresh one: it measures whether the hidden state matters at this crash point)
    # … and is resumed from the simulator that went through save/load TWICE
    d = _run_json(scn, k, True, LogNetwork, False, reattach="original" if _hidden_state(scn) else "fresh", twice=True)
    out = {"a": a, "b": b, "c": c, "d": d}
    if _is_real(scn):
        # the failure strikes AFTER the algorithm ran; and the original algorithm object re-attached after the load
        out["b2"] = _run_resume(scn, S.Hooks(after=_FailAfter(k)))
        out["c2"] = _run_json(scn, k, False, ChargingNetwork, False, reattach="original")
        later = [t for t in a["invoked"] if t > k]
        if k in a["invoked"] and later:
            # a second interruption: the next invoked period, or one further on (chosen by the case's hash)
            k2 = later[min(len(later) - 1, int(C.case_hash(case), 16) % 3)]
            out["c3"] = _run_json_twice(scn, k, k2)
            out["c3"]["k2"] = k2
    return out


# ------------------------------------------------------------------ model


def _sorted_request(scn, infra):
    """the scenario with its REAL algorithm as a request of `AcnModel/WireSortedRd.lean` (drv_C09 "sorted"): the
    modelled sorted algorithm / round robin / uncontrolled baseline as the scheduler of the simulator model, the
    SimpleRampdown object threaded through `SimSortedRd.runSt`; `infra` = what `infrastructure_info()` returned"""
    f2b = C.f2b
    sc = scn["sched"]
    rp = sc.get("ramp") or {"up": 1, "down": 1, "inc": 1}
    t = sc["type"]
    return {"algo": "uncontrolled" if t == "uncontrolled" else "rr" if t == "rr" else "greedy", "sort": _sort_of(sc),
            "uninterrupted": bool(sc.get("uninterrupted")), "estimate": bool(sc.get("estimator")),
            "inc": f2b(float(sc.get("inc", 0.1))), "period": f2b(I.num(scn["period"])),
            "ramp": {k_: f2b(float(v_)) for k_, v_ in rp.items()},
            "infra": {"ids": infra["ids"], "M": [[f2b(x) for x in r] for r in infra["M"]],
                      "lims": [f2b(x) for x in infra["lims"]], "cos": [f2b(x) for x in infra["cos"]],
                      "sin": [f2b(x) for x in infra["sin"]], "volt": [f2b(x) for x in infra["volt"]],
                      "maxp": [f2b(I.num(x)) for x in infra["maxp"]], "minp": [f2b(x) for x in infra["minp"]],
                      "cont": infra["cont"], "allow": [[f2b(I.num(x)) for x in al] for al in infra["allow"]]},
            "calls": [],
            "simrun": {"stations": [{"id": st["id"], "kind": I.kind_wire(st["kind"]), "V": f2b(I.num(st["V"]))}
                                    for st in scn["stations"]],
                       "evs": [I.ev_wire(s_) for s_ in scn["sessions"]],
                       "recomputes": [[int(r), f"r{i}"] for i, r in enumerate(scn.get("recomputes", []))],
                       "max_recompute": scn.get("max_recompute"), "period": f2b(I.num(scn["period"])),
                       "noise": [f2b(float(v)) for v in scn.get("noise", [])]}}


def _min_rate_truncated(scn, infra):
    """minimum-rate option on a station whose smallest non-zero pilot is not an integer: `SessionInfo.min_rates`
    is an INTEGER array (interface.py:95, `np.array([0] * n)`), so `min_rates[0] = 12.5` (preprocessing.py:140)
    stores 12 and the session then gets no allowable rate — the sorted model (C07/C08's) keeps 12.5"""
    return bool(scn["sched"].get("uninterrupted")) and any(float(x) != int(float(x)) for x in infra["minp"])


def _json_probe(case):
    """the TEXT layer (AcnModel/JsonText.lean) against CPython's `json`: the whole document `to_json()` wrote at
    the crash point of run c, every id of the scenario, and the case's probe strings / ints"""
    scn = case["scn"]
    js = _JS_TEXT.get(C.case_hash(case))
    pr = case.get("probe") or {}
    strs = [st["id"] for st in scn["stations"]] + [s_["session"] for s_ in scn["sessions"]] + list(pr.get("strs", []))
    con = scn.get("constraint") or {}
    if con.get("name") is not None:
        strs.append(con["name"])
    return {"docs": [js] if js else [], "strs": strs, "ints": [int(x) for x in pr.get("ints", [])] + [int(case["k"])]}


def _compare_json(case, mj):
    req = _json_probe(case)
    diffs = []
    if mj is None:
        return ["json text: no model answer"]
    for t0, d in zip(req["docs"], mj["docs"]):
        # what CPython makes of the document (so that a different but equivalent layout of to_json's text - indent,
        # ensure_ascii=False, other separators - is not held against the MODEL of json.loads / json.dumps)
        t = json.dumps(json.loads(t0))
        if d != t:
            at = next((i_ for i_, (x, y) in enumerate(zip(t, d or "")) if x != y), min(len(t), len(d or "")))
            diffs.append("json text: the modelled json.loads + json.dumps do not reproduce the document to_json() wrote"
                         + (" (model: does not parse)" if d is None else f"; first difference at {at}: impl …{t[max(0, at - 20):at + 20]!r} model …{d[max(0, at - 20):at + 20]!r}"))
    for x, t, b in zip(req["strs"], mj["strs"], mj["strs_back"]):
        if t != json.dumps(x) or not b:
            diffs.append(f"json text: string {x[:40]!r}: json.dumps {json.dumps(x)[:60]} model {t[:60]} parsed back: {b}")
    for x, t, b in zip(req["ints"], mj["ints"], mj["ints_back"]):
        if t != json.dumps(x) or not b:
            diffs.append(f"json text: int {x}: json.dumps {json.dumps(x)} model {t} parsed back: {b}")
    return diffs[:4]


def model_request(case, obs=None):
    scn, k = case["scn"], int(case["k"])
    if scn.get("stochastic") or scn.get("precs"):
        return None          # random space assignment is C19's model; custom event precedences: oracle only
    if _is_real(scn):
        # the composition model of C07 (modelled algorithm + estimator inside the simulator model), uninterrupted:
        # compared with the implementation's uninterrupted AND resumed runs
        if not obs or not isinstance(obs.get("a"), dict) or obs["a"].get("infra") is None or not S.is_valid_layout(scn):
            return None
        # (a fractional minimum pilot used to be truncated by the code — finding F20, repaired in /repo fcfc030;
        #  the sub-class is compared with the model like every other one now)
        return {"sim": None, "reg": None, "sorted": _sorted_request(scn, obs["a"]["infra"]), "json": _json_probe(case)}
    if scn.get("no_model"):
        # ids that are registry ids (only known at run time), NaN fields: implementation oracle + the text layer
        return {"sim": None, "reg": None, "json": _json_probe(case)}
    req = {"sim": S.model_request(scn, fail_at={k}, resume=True), "reg": None, "json": _json_probe(case)}
    if obs and isinstance(obs.get("c"), dict) and obs["c"].get("store"):
        st = obs["c"]["store"]
        req["reg"] = {"root": st["root"], "store": st["store"]}
        if obs["c"].get("canon") is not None:
            # decode the implementation's own document into a model state and continue the MODEL run from it
            dreq = dict(req["sim"])
            dreq["sched"] = dreq.pop("resume")
            dreq["store"] = obs["c"]["canon"]
            dreq["amb"] = {"invoked": [], "noise_draws": obs["c"]["noise_at_crash"], "occ": []}
            req["decode"] = dreq
    return req


def _compare_sorted(case, obs, sr):
    """the model's UNINTERRUPTED run (modelled algorithm, estimator threaded) against the implementation's
    uninterrupted run and against every resumed run in which the algorithm's state survives (run() again; JSON
    round trip with the ORIGINAL algorithm object; for an algorithm without hidden state also the fresh one)"""
    scn, k = case["scn"], int(case["k"])
    m = S.decode_model(sr)
    a = obs["a"]
    if a["err"] is not None and a["err"] != m["err"]:
        # the UNINTERRUPTED run raised inside the algorithm with an error class the composition model names
        # differently: error parity of the sorted algorithms is C07/C08's correspondence, not this property's
        return []
    diffs = []
    S.compare_state(scn, a, m, diffs, tag="uninterrupted: ")
    stateful = _hidden_state(scn)
    runs = [("run() again: ", obs["b"], "dup")]
    for nm, key in (("json, fresh algorithm: ", "c"), ("json+history: ", "d"), ("json, original algorithm: ", "c2")):
        r = obs.get(key)
        if r is None or not r.get("fired"):
            continue
        if stateful and r.get("reattach") != "original":
            continue
        runs.append((nm, r["obs"], k))
    c3 = obs.get("c3")
    if c3 is not None and c3["fired"] and c3["fired2"]:
        runs.append(("two json round trips, original algorithm: ", c3["obs"], c3["k2"]))
    for nm, o, mode in runs:
        if mode == "dup" and "first" not in o:
            continue
        mm = dict(m)
        if mode == "dup":
            mm["invoked"] = [x for t in m["invoked"] for x in ([t, t] if t == k else [t])]
        else:
            mm["invoked"] = [t for t in m["invoked"] if t >= mode]
        oo = {x: y for x, y in o.items() if x != "first"}
        if not oo.get("occ"):
            mm["occ"] = oo.get("occ", [])          # plain ChargingNetwork: no occupancy log
        dd = []
        S.compare_state(scn, oo, mm, dd, tag=nm)
        diffs.extend(dd[:3])
    return diffs[:10]


def compare(case, obs, model):
    diffs = []
    jd = _compare_json(case, model.get("json"))
    if model.get("sorted") is not None:
        return jd + _compare_sorted(case, obs, model["sorted"])
    if case["scn"].get("no_model"):
        return jd
    diffs.extend(jd)
    if model.get("sim") is not None:
        diffs.extend(S.compare(case["scn"], obs["b"], model["sim"]))
    reg = model.get("reg")
    st = obs["c"].get("store") if obs.get("c") else None
    if st is not None and model.get("sim") and model["sim"].get("crash_store") is not None:
        diffs.extend(_codec_diffs(model["sim"]["crash_store"], st["store"], st["root"]))
        if not model["sim"].get("codec_inverse"):
            diffs.append("codec: decode (encode s) differs from s on the model's crash-point state")
    if st is not None:
        if obs["c"].get("canon") is None:
            diffs.append("decode: the implementation's context_dict does not have the expected shape")
        elif not model.get("decode") or not model["decode"].get("decoded"):
            diffs.append("decode: the model could not decode the implementation's context_dict")
        else:
            dm = S.decode_model(model["decode"])
            oc = dict(obs["c"]["obs"])
            dm["occ"] = oc["occ"]                   # run c uses the plain ChargingNetwork: no occupancy log
            dd = []
            S.compare_state(case["scn"], oc, dm, dd, tag="decoded+resumed: ")
            diffs.extend(dd[:4])
    if st is not None:
        if reg is None:
            diffs.append("registry: no model answer")
        else:
            if reg.get("dump") != "ok":
                diffs.append(f"registry: model dump failed {reg.get('dump')}")
            else:
                if reg["order"] != st["order"]:
                    diffs.append(f"registry: context_dict order impl {st['order'][:8]}… model {reg['order'][:8]}…")
                if not reg["nodup"]:
                    diffs.append("registry: model entered an object twice")
                if reg["load"] != "ok" or not reg["load_eq_dump"]:
                    diffs.append(f"registry: model load(dump) differs from dump ({reg['load']})")
                if reg["addr"] is None or [a[1] for a in reg["addr"]] != list(range(len(st["order"]))):
                    diffs.append("registry: loaded objects are not one per id")
                # the model's context_dict must be the implementation's, entry by entry
                impl = {e[0]: e for e in st["store"]}
                for e in reg["ctx"]:
                    if impl.get(e[0]) != e:
                        diffs.append(f"registry: entry {e[0]} differs")
                        break
    return diffs[:12]


# ------------------------------------------------------------------ the model's codec against to_json()

_WILD = "\u0000*"
_BR = {"[", "]", "{", "}"}


def _scalar(text, model_side):
    if not model_side:
        return json.loads(text)
    if text == "-":
        return _WILD
    if text == "null":
        return None
    tag, _, body = text.partition(":")
    if tag == "i":
        return int(body)
    if tag == "b":
        return body == "true"
    if tag == "s":
        return body
    if tag == "f":
        return C.b2f(int(body))
    if tag == "m":
        return [[C.b2f(x) for x in row] for row in json.loads(body)["rows"]]
    raise ValueError(f"model scalar {text!r}")


def _describe(store, root, model_side):
    """tree unfolding of an object store from `root` (acyclic): class, attribute keys, scalars, and the
    description of every referenced object in place of its id; plus the number of objects per class"""
    by = {e[0]: e for e in store}
    counts = {}
    for e in store:
        c = e[1].split(".")[-1]
        counts[c] = counts.get(c, 0) + 1
    memo = {}

    def obj(i):
        if i in memo:
            return memo[i]
        _, cls, attrs = by[i]
        d = {}
        for k, v in attrs:
            if model_side and k.startswith("_model_"):
                continue
            if "r" in v:
                d[k] = {"ref": obj(v["r"])}
            elif "l" in v:
                items = []
                for it in v["l"]:
                    if "r" in it:
                        items.append({"ref": obj(it["r"])})
                    elif model_side or it["s"] not in _BR:
                        items.append(_scalar(it["s"], model_side))
                d[k] = {"list": items}
            else:
                d[k] = _scalar(v["s"], model_side)
        memo[i] = {"class": cls.split(".")[-1], "attrs": d}
        return memo[i]

    return obj(root), counts


def _ev_key(x):
    a = x["ref"]["attrs"]
    sid = a["ev"]["ref"]["attrs"]["_session_id"] if "ev" in a else ""
    return (a["timestamp"], x["ref"]["class"], sid)


def _canon_lists(cls, k, items):
    """orders that the property leaves open: heap layout of `_queue`, ties in the histories"""
    if k in ("_queue", "ev_history", "_EVSEs"):
        pairs = [items[i:i + 2] for i in range(0, len(items), 2)]
        if k == "_queue":
            pairs.sort(key=lambda p: _ev_key(p[1]))
        elif k == "ev_history":
            pairs.sort(key=lambda p: p[0])
        return [x for p in pairs for x in p]
    if k == "event_history":
        return sorted(items, key=lambda x: (x["ref"]["attrs"]["timestamp"], PREC_C.get(x["ref"]["class"], 9), _ev_key(x)))
    return items


PREC_C = {"UnplugEvent": 0, "PluginEvent": 1, "RecomputeEvent": 2}


def _match(m, i, path, diffs):
    if len(diffs) > 5:
        return
    if isinstance(m, str) and m == _WILD:
        return
    if isinstance(m, dict) and "class" in m:
        if not (isinstance(i, dict) and "class" in i):
            diffs.append(f"{path}: model object vs {str(i)[:60]}")
            return
        if m["class"] != i["class"]:
            diffs.append(f"{path}: class model {m['class']} impl {i['class']}")
            return
        if sorted(m["attrs"]) != sorted(i["attrs"]):
            diffs.append(f"{path} ({m['class']}): attribute keys model {sorted(m['attrs'])} impl {sorted(i['attrs'])}")
            return
        for k in m["attrs"]:
            _match(m["attrs"][k], i["attrs"][k], f"{path}.{k}", diffs)
        return
    if isinstance(m, dict) and "ref" in m:
        if not (isinstance(i, dict) and "ref" in i):
            diffs.append(f"{path}: model reference vs impl {str(i)[:60]}")
            return
        _match(m["ref"], i["ref"], path + "->", diffs)
        return
    if isinstance(m, dict) and "list" in m:
        if not (isinstance(i, dict) and "list" in i):
            # a list without references is a plain scalar on the implementation side (e.g. an empty history)
            if i in ([], {}) and m["list"] == []:
                return
            diffs.append(f"{path}: model list vs impl {str(i)[:60]}")
            return
        k = path.rsplit(".", 1)[-1]
        a, b = _canon_lists(None, k, m["list"]), _canon_lists(None, k, i["list"])
        if len(a) != len(b):
            diffs.append(f"{path}: {len(a)} items model, {len(b)} impl")
            return
        for n, (x, y) in enumerate(zip(a, b)):
            _match(x, y, f"{path}[{n}]", diffs)
        return
    if isinstance(i, dict) and ("ref" in i or "list" in i or "class" in i):
        if isinstance(i, dict) and "list" in i and m in ([], None) and i["list"] == []:
            return
        diffs.append(f"{path}: model scalar {m!r} vs impl reference/list")
        return
    if isinstance(m, list) and isinstance(i, list) and m and isinstance(m[0], list):
        if len(m) != len(i) or any(len(r) != len(q) or any(not C.close(x, y) for x, y in zip(r, q)) for r, q in zip(m, i)):
            diffs.append(f"{path}: matrices differ")
        return
    if isinstance(m, bool) or isinstance(i, bool) or m is None or i is None or isinstance(m, str) or isinstance(i, str):
        if m != i:
            diffs.append(f"{path}: model {m!r} impl {i!r}")
        return
    if isinstance(m, (int, float)) and isinstance(i, (int, float)):
        if not C.close(m, i):
            diffs.append(f"{path}: model {m!r} impl {i!r}")
        return
    if m != i:
        diffs.append(f"{path}: model {m!r} impl {i!r}")


def _codec_diffs(model_store, impl_store, impl_root):
    diffs = []
    md, mc = _describe(model_store, 0, True)
    idesc, ic = _describe(impl_store, impl_root, False)
    _match(md, idesc, "Simulator", diffs)
    if mc != ic:
        diffs.append(f"objects per class: model {sorted(mc.items())} impl {sorted(ic.items())}")
    return ["codec: " + d for d in diffs[:5]]


# ------------------------------------------------------------------ oracle


def _mat_eq(x, y):
    return len(x) == len(y) and all(len(r) == len(s) and all(C.close(p, q) for p, q in zip(r, s)) for r, s in zip(x, y))


def _same(a, o, tag, k, check_invoked):
    """the resumed observation `o` against the uninterrupted `a`"""
    d = []
    for key in ("err", "iter", "queue_empty", "resolve", "last_upd", "ev_history", "occ_final", "pending"):
        if a[key] != o[key]:
            d.append(f"{key}: uninterrupted {a[key]!r} {tag} {o[key]!r}")
    if a["event_history"] != o["event_history"]:
        d.append(f"event_history: uninterrupted {a['event_history']} {tag} {o['event_history']}")
    if "constraint_names" in a and "constraint_names" in o and a["constraint_names"] != o["constraint_names"]:
        d.append(f"constraint names: {a['constraint_names']} vs {o['constraint_names']}")
    if "station_ids" in a and "station_ids" in o:
        if a["station_ids"] != o["station_ids"]:
            d.append(f"network.station_ids: {a['station_ids']} vs {o['station_ids']}")
        for nm in ("pilots", "rates"):          # per station, by id
            ra = dict(zip(a["station_ids"], a[nm]))
            ro = dict(zip(o["station_ids"], o[nm]))
            for st in a["station_ids"]:
                x, y = ra.get(st), ro.get(st)
                if y is None or len(x) != len(y) or any(not C.close(p_, q_) for p_, q_ in zip(x, y)):
                    d.append(f"{nm} of station {st}: {x} vs {y}")
                    break
    for nm in ("pilots", "rates"):
        if not _mat_eq(a[nm], o[nm]):
            sh = f"{len(a[nm])}x{len(a[nm][0]) if a[nm] else 0} vs {len(o[nm])}x{len(o[nm][0]) if o[nm] else 0}"
            where = ""
            if len(a[nm]) == len(o[nm]):
                for i, (r, s) in enumerate(zip(a[nm], o[nm])):
                    for t, (p, q) in enumerate(zip(r, s)):
                        if not C.close(p, q) and not where:
                            where = f" first at [{i}][{t}]: {p!r} vs {q!r}"
            d.append(f"{nm} differ ({sh}){where}")
    if not C.close(a["peak"], o["peak"]):
        d.append(f"peak: {a['peak']!r} vs {o['peak']!r}")
    if len(a["evs"]) != len(o["evs"]):
        d.append(f"{len(a['evs'])} EVs vs {len(o['evs'])}")
    for x, y in zip(a["evs"], o["evs"]):
        for key in ("delivered", "rate", "charge", "power"):
            if x["session"] != y["session"] or not C.close(x[key], y[key]):
                d.append(f"ev {x['session']} {key}: {x[key]!r} vs {y[key]!r}")
    for i, (x, y) in enumerate(zip(a["evse_pilot"], o["evse_pilot"])):
        if not C.close(x, y):
            d.append(f"EVSE {i} current_pilot: {x!r} vs {y!r}")
    if a["noise_draws"] != o["noise_draws"]:
        d.append(f"noise draws: {a['noise_draws']} vs {o['noise_draws']}")
    if o.get("occ") and a["occ"] != o["occ"]:
        d.append("per-period occupancy differs")
    if check_invoked == "dup":
        exp = []
        for t in a["invoked"]:
            exp.extend([t, t] if t == k else [t])
        if o["invoked"] != exp:
            d.append(f"scheduler invoked at {o['invoked']}, expected {exp}")
    elif check_invoked == "tail":
        exp = [t for t in a["invoked"] if t >= k]
        if o["invoked"] != exp:
            d.append(f"new scheduler invoked at {o['invoked']}, expected {exp}")
    return d


def _is_json(x):
    try:
        json.loads(x)
        return True
    except ValueError:
        return False


def _hidden_state(scn):
    return _is_real(scn) and bool(scn["sched"].get("estimator"))


def oracle(case, obs):
    scn, k = case["scn"], int(case["k"])
    if not S.is_valid_layout(scn):
        return []
    a, b, c, d = obs["a"], obs["b"], obs["c"], obs["d"]
    fails = []
    stateful = _hidden_state(scn)
    fired = "first" in b and b["first"]["err"] == "SchedulerFailed" and b["first"]["iter"] == k
    will_fire = k in a["invoked"]
    if fired != will_fire:
        fails.append({"kind": "crash_point", "detail": f"scheduler invoked at {a['invoked']}, failure at {k} fired={fired}"})
    db = _same(a, b, "resumed", k, "dup" if fired else None)
    if scn.get("stochastic") and a.get("stoch") != b.get("stoch"):
        db.append(f"stochastic network: {a.get('stoch')} vs {b.get('stoch')}")
    if db:
        noop = fired and b["iter"] == k and a["iter"] > k and b["err"] is None
        fails.append({"kind": "resume_last_period_noop" if noop else "resume_differs",
                      "detail": f"crash at {k}, run() again: " + "; ".join(db[:4])})
    for tag, r, kind in (("json", c, "json_resume_differs"), ("json+history", d, "json_history_resume_differs")):
        if r is None:
            continue
        if r["fired"] != will_fire:
            fails.append({"kind": "crash_point", "detail": f"{tag}: failure at {k} fired={r['fired']}"})
            continue
        dd = _same(a, r["obs"], f"after {tag} round trip", k, "tail" if r["fired"] else None)
        if stateful and r["fired"] and r.get("reattach") != "original":
            dd = []      # a FRESH estimator has lost its bounds: outside the property (see ASSUMPTIONS); measured in features
        if scn.get("float32_battery") and r["fired"]:
            dd = []      # float32 BATTERY fields come back as doubles: the resumed arithmetic is no longer rounded to
            #              float32 (ASSUMPTIONS); measured in features.  Sharing, types and the document are still checked
        if r["fired"] and r.get("missing_evs"):
            dd.append(f"EVs not reachable from the loaded simulator: {r['missing_evs']}")
        if dd:
            noop = r["fired"] and r["obs"]["iter"] == k and a["iter"] > k and r["obs"]["err"] is None
            fails.append({"kind": "resume_last_period_noop" if noop else kind,
                          "detail": f"crash at {k}, {tag} round trip, resume: " + "; ".join(dd[:4])})
        if r["fired"]:
            if r["identity"]:
                fails.append({"kind": "sharing_lost", "detail": f"{tag}, crash at {k}: " + "; ".join(r["identity"][:3])})
            if r["rejson"]:
                fails.append({"kind": "rejson_differs", "detail": f"{tag}, crash at {k}: to_json of the loaded simulator: " + "; ".join(r["rejson"][:3])})
            if r.get("types"):
                fails.append({"kind": "type_changed", "detail": f"{tag}, crash at {k}: " + "; ".join(r["types"][:3])})
            if r.get("values"):
                fails.append({"kind": "value_changed", "detail": f"{tag}, crash at {k}: " + "; ".join(r["values"][:3])})
            if r["same_object"]:
                fails.append({"kind": "sharing_lost", "detail": "from_json returned the original object"})
    if _is_real(scn):
        b2, c2 = obs["b2"], obs["c2"]
        if not stateful:
            f2 = "first" in b2 and b2["first"]["err"] == "SchedulerFailed" and b2["first"]["iter"] == k
            d2 = _same(a, b2, "resumed", k, "dup" if f2 else None)
            if d2:
                fails.append({"kind": "resume_after_schedule_differs",
                              "detail": f"failure after the algorithm ran in period {k}, run() again: " + "; ".join(d2[:4])})
        if c2["fired"] == will_fire:
            d3 = _same(a, c2["obs"], "after json round trip + original algorithm", k, None)
            if d3:
                fails.append({"kind": "json_resume_original_algo_differs",
                              "detail": f"crash at {k}, JSON round trip, the ORIGINAL algorithm object re-attached: " + "; ".join(d3[:4])})
            if c2["fired"] and (c2["identity"] or c2["rejson"]):
                fails.append({"kind": "sharing_lost", "detail": "; ".join((c2["identity"] + c2["rejson"])[:3])})
            if c2["fired"] and c2.get("types"):
                fails.append({"kind": "type_changed", "detail": "; ".join(c2["types"][:3])})
            if c2["fired"] and c2.get("values"):
                fails.append({"kind": "value_changed", "detail": "; ".join(c2["values"][:3])})
        c3 = obs.get("c3")
        if c3 is not None:
            if not (c3["fired"] and c3["fired2"]):
                fails.append({"kind": "crash_point", "detail": f"two interruptions at {k} and {c3['k2']}: fired={c3['fired']}, {c3['fired2']}"})
            else:
                d4 = _same(a, c3["obs"], "after two json round trips + original algorithm", k, None)
                if c3.get("missing_evs"):
                    d4.append(f"EVs not reachable from the loaded simulator: {c3['missing_evs']}")
                if d4:
                    fails.append({"kind": "json_resume_twice_differs",
                                  "detail": f"crash at {k} and again at {c3['k2']}, JSON round trip each time, the ORIGINAL "
                                            f"algorithm object re-attached: " + "; ".join(d4[:4])})
                if c3["identity"]:
                    fails.append({"kind": "sharing_lost", "detail": f"after two round trips: " + "; ".join(c3["identity"][:3])})
    if d is not None and d["fired"] and (not stateful or d.get("reattach") == "original") \
            and not scn.get("float32_battery") and d["obs"].get("sched_hist") != a.get("sched_hist"):
        fails.append({"kind": "json_history_resume_differs",
                      "detail": f"crash at {k}: schedule_history {str(d['obs'].get('sched_hist'))[:300]} vs {str(a.get('sched_hist'))[:300]}"})
    return fails


# ------------------------------------------------------------------ statistics


def nontrivial(case, obs):
    b = obs["b"]
    if "first" not in b:
        return False
    f = b["first"]
    return f["err"] == "SchedulerFailed" and (any(x is not None for x in f["occ_final"]) or bool(f["pending"]))


def features(case, obs):
    scn, k = case["scn"], int(case["k"])
    a, b, c = obs["a"], obs["b"], obs["c"]
    f = [f"max_recompute={scn['max_recompute']}", f"sched={scn['sched']['type']}", f"period={scn['period']}",
         f"stations={len(scn['stations'])}", f"sessions={min(len(scn['sessions']), 8)}",
         "uninterrupted_err=" + str(a["err"])]
    fired = "first" in b
    f.append("fired" if fired else "not_invoked_at_k")
    if fired:
        first = b["first"]
        f.append("crash_in_last_period" if first["queue_empty"] else "crash_mid_run")
        kinds = sorted({e[1] for e in first["pending"]})
        f.append("pending=" + ("+".join(kinds) if kinds else "none"))
        f.append("connected_at_crash=" + str(min(3, sum(1 for x in first["occ_final"] if x is not None))))
        keys = [(e[0], e[1]) for e in first["pending"]]
        nt = len(keys) - len(set(keys))
        f.append("pending_ties_at_crash=" + ("0" if nt == 0 else "1" if nt == 1 else "2+"))
        if k == 0:
            f.append("crash_at_0")
        if first["resolve"]:
            f.append("resolve_set_at_crash")
        else:
            f.append("crash_on_max_recompute_only")
        if any(len(r) > k + 1 and any(x != 0 for x in r[k + 1:]) for r in first["pilots"]):
            f.append("multi_period_schedule_in_flight")
    if scn.get("exhaustive"):
        f.append("exhaustive_small_scope")
    if _is_real(scn):
        f.append("real_algo=" + scn["sched"]["type"] + ("+estimator" if scn["sched"].get("estimator") else "")
                 + ("+uninterrupted" if scn["sched"].get("uninterrupted") else ""))
        if _hidden_state(scn) and fired:
            fresh = _same(a, c["obs"], "", k, None) if c and c.get("fired") else []
            f.append("estimator_fresh_algo_after_json=" + ("differs" if fresh else "same"))
            b2 = obs.get("b2")
            if b2 is not None and "first" in b2:
                f.append("estimator_retry_after_it_ran=" + ("differs" if _same(a, b2, "", k, None) else "same"))
            rd = (obs.get("c2") or {}).get("rd_at_crash") or []
            down = (scn["sched"].get("ramp") or {"down": 1})["down"]
            below = [r for r in rd if r[1] < I.num(r[2]) - 1e-9]
            f.append("estimator_bound_below_max_at_crash=" + str(min(2, len(below))))
            # a bound that the estimator would NOT re-derive from the last period alone (pilot - rate <= down_threshold)
            f.append("estimator_settled_bound_at_crash=" + str(min(2, sum(1 for r in below if r[3] is not None and r[3] - r[4] <= down))))
    if scn.get("rampdown_stream"):
        f.append("rampdown_stream")
    if scn.get("exotic"):
        f.append("exotic_ids")
        ids = [st["id"] for st in scn["stations"]] + [s_["session"] for s_ in scn["sessions"]] + [(scn.get("constraint") or {}).get("name") or "agg"]
        for nm, pred in (("needs_escape", lambda x: json.dumps(x) != '"' + x + '"'), ("non_ascii", lambda x: any(ord(ch) > 126 for ch in x)),
                         ("astral", lambda x: any(ord(ch) > 0xffff for ch in x)), ("control", lambda x: any(ord(ch) < 32 for ch in x)),
                         ("empty", lambda x: x == ""), ("long", lambda x: len(x) > 1000),
                         ("looks_like_json", lambda x: _is_json(x)), ("model_tag", lambda x: x[:2] in ("s:", "i:", "f:", "m:", "b:") or x in ("-", "null"))):
            if any(pred(x) for x in ids):
                f.append("ids:" + nm)
        if (scn.get("constraint") or {}).get("name") is not None:
            f.append("constraint_name_exotic")
        nps = sorted({f"{k_}:{v_}" for s_ in scn["sessions"] for k_, v_ in (s_.get("np") or {}).items() if k_ != "batt"})
        for x in nps:
            f.append("np_field=" + x)
        if scn.get("period_np"):
            f.append("np_period=" + scn["period_np"])
        vals = [str(s_["requested"]) for s_ in scn["sessions"]] + [str(s_["batt"]["cap"]) for s_ in scn["sessions"]] + [str((scn.get("constraint") or {}).get("limit"))]
        for x in ("inf", "nan"):
            if x in vals:
                f.append("nonfinite=" + x)
        for al in sorted({s_["alias"] for s_ in scn["sessions"] if s_.get("alias")}):
            f.append("session_id_is_registry_id_of=" + al)
        if scn.get("float32_battery") and c and c.get("fired"):
            f.append("float32_battery_resume=" + ("differs" if _same(a, c["obs"], "", k, None) else "same"))
    if c and c.get("fired") and c.get("twice") is not None:
        f.append("second_save_load_checked")
    js = _JS_TEXT.get(C.case_hash(case))
    if js is not None:
        f.append("to_json_text_is_json.dumps_default=" + str(js == json.dumps(json.loads(js))))
    if obs.get("d") and obs["d"].get("fired") and obs["d"].get("twice"):
        f.append("resumed_after_two_round_trips")
    if obs.get("c3") is not None:
        f.append("two_interruptions:gap=" + str(min(3, obs["c3"]["k2"] - k)))
    if _is_real(scn) and not scn.get("stochastic"):
        f.append("model=" + ("composition:fractional_min_pilot" if _min_rate_truncated(scn, a.get("infra") or {"minp": []})
                             else "sorted_composition"))
    if scn.get("stochastic"):
        f.append("stochastic_network" + ("_early" if scn["stochastic"]["early"] else ""))
        if fired and b["first"].get("stoch", {}).get("waiting"):
            f.append("stochastic_waiting_at_crash")
    if c and c.get("fired"):
        f.append("objects=" + ("<10" if c["n_objects"] < 10 else "10-29" if c["n_objects"] < 30 else "30+"))
        f.append("shared_triples=" + str(min(3, c["n_shared"])))
    kinds = sorted({st["kind"]["t"] for st in scn["stations"]})
    f.append("evse=" + "+".join(kinds))
    ids = [st["id"] for st in scn["stations"]]
    f.append("station_ids_registered_in_sorted_order=" + str(ids == sorted(ids)))
    if len({(st["V"], json.dumps(st["kind"], sort_keys=True)) for st in scn["stations"]}) > 1:
        f.append("stations_differ")
    bt = set()
    for s in scn["sessions"]:
        bb = s["batt"]
        bt.add(("two-" + bb.get("calc", "continuous") + ("-noise" if bb.get("noise", 0) else "")) if bb.get("two") else "ideal")
    for x in sorted(bt):
        f.append("battery=" + x)
    if a["noise_draws"]:
        f.append("noise_drawn")
    if scn.get("constraint"):
        f.append("constraint")
    return f


def shrink(case, kind):
    def bad(c):
        try:
            return any(f["kind"] == kind for f in oracle(c, run_impl(c)))
        except Exception:
            return False
    if not bad(case):
        return case
    cur = copy.deepcopy(case)
    changed = True
    while changed:
        changed = False
        for key in ("sessions", "recomputes"):
            i = 0
            while i < len(cur["scn"].get(key, [])):
                c2 = copy.deepcopy(cur)
                del c2["scn"][key][i]
                if bad(c2):
                    cur = c2
                    changed = True
                else:
                    i += 1
        i = 0
        while i < len(cur["scn"].get("sched", {}).get("script", [])):
            c2 = copy.deepcopy(cur)
            del c2["scn"]["sched"]["script"][i]
            if bad(c2):
                cur = c2
                changed = True
            else:
                i += 1
    return cur
