"""C11 — the event queue returns events by time then precedence, for every interleaving."""
from __future__ import annotations

import itertools
import json

from acnportal.acnsim.events import EventQueue, PluginEvent, UnplugEvent, RecomputeEvent
from acnportal.acnsim.models.battery import Battery
from acnportal.acnsim.models.ev import EV

ID = "C11"
LEAN_MODULES = ["AcnProofs.C11"]
TIE_MODULES = ["AcnProofs.Lemmas.CodeTieQueue", "AcnProofs.Lemmas.CodeTieQueueOps"]
DRIVER = "drv_C11"
REQUIRED_THEOREMS = [
    "Acn.C11.prec_order", "Acn.C11.keyLt_by_kind", "Acn.C11.keyLt_strict_weak_order",
    "Acn.C11.heap_push", "Acn.C11.heap_pop", "Acn.C11.refinement", "Acn.C11.heap_invariant",
    "Acn.C11.spec_instance_sound",
    "Acn.C11.getEvent_min", "Acn.C11.getEvent_error_iff", "Acn.C11.gets_sorted",
    "Acn.C11.heap_gets_sorted", "Acn.C11.getCurrent_spec", "Acn.C11.heap_getCurrent",
    "Acn.C11.len_empty_last", "Acn.C11.heap_len_empty_last", "Acn.C11.restore_equiv",
    "Acn.C11.restore_continue", "Acn.C11.wire_faithful",
]
BUDGET = {"quick": 2500, "thorough": 30000, "search": 3000}
TRUSTED = [
    "CPython list.append/list.pop/indexing and tuple/int comparison (the heap ALGORITHM of heapq is "
    "transcribed and proved, not trusted; the C accelerator _heapq is assumed to be the algorithm of "
    "Lib/heapq.py, which the exact array-layout comparison after every operation exercises)",
    "json / the BaseSimObj registry machinery for objects other than the queue itself",
]
ASSUMPTIONS = [
    "timestamps are Python ints (the model's Int); events are PluginEvent/UnplugEvent/RecomputeEvent",
    "Recompute events with equal timestamps carry no payload and are observationally identical; after a "
    "JSON round trip they are re-tagged by array position (their (ts, type) is checked position by position)",
]
RULE = ("per case one EventQueue and 1-40 operations (add_event, add_events, get_event, get_current_events(t), "
        "len, empty, get_last_timestamp, to_json/from_json then continue on the restored queue; the original "
        "queue is continued in parallel as a shadow) over 2-4 distinct timestamps and all three event types so "
        "that almost every comparison is a tie on the timestamp and many on the whole key; the same event object "
        "is sometimes added twice; streams: random interleaving, fill-then-drain, simulator-like "
        "(unplug/recompute scheduled after each plug-in), wide/negative timestamps; thorough tier adds ALL "
        "sequences of length <= 4 over {add(ts,kind): 3 timestamps x 3 kinds, get_event, get_current(1), "
        "roundtrip} and all of length 5 without roundtrip (183 k sequences) through the whole pipeline "
        "(implementation vs heap model incl. array layout, oracle), and all 262 k sequences of length 6 over "
        "{add: 2 timestamps x 3 kinds, get_event, get_current(0)} against the oracle on the implementation; non-trivial = a retrieval happened while >= 2 pending events shared the minimal timestamp, or "
        "a round trip of a queue with >= 2 entries; distinct by hash of the case")

KINDS = ["Unplug", "Plugin", "Recompute"]
# the documented order of the property statement: unplug, then plug-in, then recompute
RANK = {"Unplug": 0, "Plugin": 1, "Recompute": 2}


# ------------------------------------------------------------------ generation

def _ev(rng, tss, k):
    kind = rng.choice(KINDS)
    ts = rng.choice(tss)
    if kind == "Recompute":
        tag = f"r{rng.randint(0, 3)}" if rng.random() < 0.25 else f"r{k}"
    else:
        tag = f"s{rng.randint(0, 4)}"
    return {"ts": ts, "kind": kind, "tag": tag}


def _gen_random(rng):
    r = rng.random()
    if r < 0.6:
        tss = rng.sample(range(0, 6), rng.randint(2, 3))
    elif r < 0.85:
        tss = [rng.randint(0, 3) for _ in range(4)]
    else:
        tss = [rng.choice([-5, -1, 0, 1, 2, 7, 100, 2 ** 40, 10 ** 20]) for _ in range(4)]
    n = rng.randint(1, 40)
    p_add = rng.choice([0.3, 0.45, 0.6])
    ops = []
    for k in range(n):
        x = rng.random()
        if x < p_add:
            ops.append(dict(op="add", **_ev(rng, tss, k)))
        elif x < p_add + 0.08:
            ops.append({"op": "add_events", "events": [_ev(rng, tss, 100 * k + i) for i in range(rng.randint(0, 6))]})
        elif x < p_add + 0.08 + 0.2:
            ops.append({"op": "get_event"})
        elif x < p_add + 0.08 + 0.3:
            ops.append({"op": "get_current", "t": rng.choice(tss) + rng.choice([-1, 0, 0, 0, 1])})
        elif x < p_add + 0.08 + 0.3 + 0.07:
            ops.append({"op": "roundtrip"})
        else:
            ops.append({"op": rng.choice(["len", "empty", "last"])})
    return {"ops": ops}


def _gen_fill_drain(rng):
    tss = rng.sample(range(0, 5), rng.randint(1, 3))
    ops = []
    n = rng.randint(3, 25)
    evs = [_ev(rng, tss, k) for k in range(n)]
    if rng.random() < 0.5:
        ops.append({"op": "add_events", "events": evs})
    else:
        ops.extend(dict(op="add", **e) for e in evs)
    if rng.random() < 0.5:
        ops.append({"op": "roundtrip"})
    for _ in range(n + 1):
        x = rng.random()
        if x < 0.7:
            ops.append({"op": "get_event"})
        elif x < 0.8:
            ops.append({"op": "roundtrip"})
        else:
            ops.append({"op": "get_current", "t": rng.choice(tss)})
    return {"ops": ops[:45]}


def _gen_simlike(rng):
    """what Simulator.run does: get_current_events(t) each period, a plug-in schedules its unplug
    and a recompute, sessions share few arrival/departure periods."""
    ops = []
    n = rng.randint(2, 7)
    sess = [(rng.randint(0, 3), rng.randint(1, 3)) for _ in range(n)]
    ops.append({"op": "add_events", "events": [{"ts": a, "kind": "Plugin", "tag": f"s{i}"} for i, (a, d) in enumerate(sess)]})
    horizon = max(a + d for a, d in sess)
    for t in range(horizon + 1):
        ops.append({"op": "get_current", "t": t})
        for i, (a, d) in enumerate(sess):
            if a == t:
                ops.append({"op": "add", "ts": a + d, "kind": "Unplug", "tag": f"s{i}"})
                if rng.random() < 0.5:
                    ops.append({"op": "add", "ts": t + 1, "kind": "Recompute", "tag": f"r{t}_{i}"})
        if rng.random() < 0.2:
            ops.append({"op": "roundtrip"})
        if rng.random() < 0.2:
            ops.append({"op": "last"})
    return {"ops": ops[:60]}


ALPHA = ([("add", ts, k) for ts in (0, 1, 2) for k in KINDS] + [("get_event",), ("get_current", 1), ("roundtrip",)])


DEEP = [("add", ts, k) for ts in (0, 1) for k in KINDS] + [("get_event",), ("get_current", 0)]


def _alpha_case(word):
    ops = []
    for i, a in enumerate(word):
        if a[0] == "add":
            ops.append({"op": "add", "ts": a[1], "kind": a[2], "tag": ("r" if a[2] == "Recompute" else "s") + str(i)})
        elif a[0] == "get_current":
            ops.append({"op": "get_current", "t": a[1]})
        else:
            ops.append({"op": a[0]})
    return {"ops": ops}


def corpus():
    E = lambda ts, kind, tag: {"ts": ts, "kind": kind, "tag": tag}
    A = lambda ts, kind, tag: dict(op="add", **E(ts, kind, tag))
    return [
        {"ops": [{"op": "get_event"}, {"op": "last"}, {"op": "get_current", "t": 3}, {"op": "roundtrip"}, {"op": "empty"}]},
        {"ops": [A(1, "Recompute", "r0"), A(1, "Plugin", "s0"), A(1, "Unplug", "s0"), A(0, "Recompute", "r1"),
                 {"op": "roundtrip"}, {"op": "get_event"}, A(1, "Unplug", "s1"), {"op": "get_current", "t": 1}, {"op": "len"}]},
        # equal keys: the order among them is the heap's, reproduced exactly by the model
        {"ops": [A(2, "Plugin", "s0"), A(2, "Plugin", "s1"), A(2, "Plugin", "s2"), A(2, "Plugin", "s3"), A(2, "Plugin", "s4"),
                 {"op": "get_event"}, {"op": "roundtrip"}, {"op": "get_event"}, {"op": "get_event"}, A(2, "Plugin", "s5"),
                 {"op": "get_current", "t": 2}]},
        # the same object twice
        {"ops": [A(1, "Plugin", "s0"), A(1, "Plugin", "s0"), A(1, "Unplug", "s0"), {"op": "roundtrip"}, {"op": "get_current", "t": 0},
                 {"op": "get_current", "t": 1}, {"op": "get_event"}]},
        # insertion below the last retrieval (not flagged: DESIGN §6 C11 formalisation note)
        {"ops": [A(5, "Plugin", "s0"), A(6, "Unplug", "s0"), {"op": "get_event"}, A(1, "Recompute", "r0"), {"op": "get_event"}, {"op": "get_event"}]},
        {"ops": [{"op": "add_events", "events": [E(3, "Unplug", "s1"), E(1, "Plugin", "s1"), E(2, "Recompute", "r0"), E(1, "Plugin", "s2"),
                                                  E(3, "Unplug", "s2"), E(2, "Recompute", "r1"), E(3, "Plugin", "s3")]},
                 {"op": "last"}, {"op": "get_current", "t": 2}, {"op": "last"}, {"op": "get_current", "t": 2}, {"op": "get_current", "t": 3}, {"op": "last"}]},
    ]


def generate(rng, n, tier):
    out = []
    if tier == "thorough":
        for L in range(1, 5):
            for w in itertools.product(ALPHA, repeat=L):
                out.append(_alpha_case(w))
        for w in itertools.product(ALPHA[:-1], repeat=5):      # a round trip costs 5 ms: not at length 5
            out.append(_alpha_case(w))
        # length 6, oracle on the implementation only: one case per 2-letter prefix
        for pre in itertools.product(range(len(DEEP)), repeat=2):
            out.append({"deep": {"prefix": list(pre), "len": 6}})
    for i in range(n):
        r = i % 10
        if r < 6:
            out.append(_gen_random(rng))
        elif r < 8:
            out.append(_gen_fill_drain(rng))
        else:
            out.append(_gen_simlike(rng))
    return out


# ------------------------------------------------------------------ implementation

class _World:
    """event objects of a case; `(ts, kind, tag)` names an object, the same triple is the same object."""

    def __init__(self):
        self.evs = {}
        self.objs = {}      # triple -> event object
        self.tag = {}       # id(event object) -> tag
        self.keep = []      # keep every object alive (ids are never reused)

    def ev(self, tag):
        if tag not in self.evs:
            self.evs[tag] = EV(0, 10, 10.0, "PS-" + tag, tag, Battery(40, 5, 7))
        return self.evs[tag]

    def event(self, spec):
        key = (spec["ts"], spec["kind"], spec["tag"])
        if key not in self.objs:
            if spec["kind"] == "Plugin":
                e = PluginEvent(spec["ts"], self.ev(spec["tag"]))
            elif spec["kind"] == "Unplug":
                e = UnplugEvent(spec["ts"], self.ev(spec["tag"]))
            elif spec["kind"] == "Recompute":
                e = RecomputeEvent(spec["ts"])
            else:
                raise ValueError(spec["kind"])
            self.objs[key] = e
            self.tag[id(e)] = spec["tag"]
            self.keep.append(e)
        return self.objs[key]

    def name(self, e):
        return [e.timestamp, e.event_type, self.tag.get(id(e), "?")]


def _apply(q, w, o):
    """one operation on the real queue -> canonical result"""
    op = o["op"]
    if op == "add":
        q.add_event(w.event(o))
        return {"r": "unit"}
    if op == "add_events":
        q.add_events([w.event(e) for e in o["events"]])
        return {"r": "unit"}
    if op == "get_event":
        try:
            e = q.get_event()
        except IndexError:
            return {"r": "err", "e": "IndexError"}
        return {"r": "event", "e": w.name(e)}
    if op == "get_current":
        return {"r": "events", "es": [w.name(e) for e in q.get_current_events(o["t"])]}
    if op == "len":
        return {"r": "nat", "n": len(q)}
    if op == "empty":
        return {"r": "bool", "b": bool(q.empty())}
    if op == "last":
        return {"r": "ts", "t": q.get_last_timestamp()}
    raise ValueError(op)


def _arr(q, w):
    return [[ts, w.name(e)] for ts, e in q.queue]


def _roundtrip(q, w):
    js = q.to_json()
    d = json.loads(js)
    ctx = d["context_dict"]
    attrs = ctx[d["id"]]["attributes"]
    by_id = {str(id(e)): e for e in w.keep}
    wire = []
    for ts, rid in attrs["_queue"]:
        a = ctx[rid]["attributes"]
        obj = by_id.get(rid)
        wire.append([ts, [a["timestamp"], a["event_type"], w.tag.get(id(obj), "?")]])
    q2 = EventQueue.from_json(js)
    # name the rebuilt objects: EV events by their session id, recompute events by array position
    restored = []
    for i, (ts, e) in enumerate(q2.queue):
        if id(e) not in w.tag:
            w.keep.append(e)
            if hasattr(e, "ev"):
                w.tag[id(e)] = e.session_id
            else:
                w.tag[id(e)] = wire[i][1][2] if i < len(wire) else "?"
        restored.append([ts, w.name(e)])
    # a later add of the same triple must be the restored object when it is still queued
    for (ts, e), (_, old) in zip(q2.queue, q.queue):
        key = (old.timestamp, old.event_type, w.tag.get(id(old)))
        if w.objs.get(key) is old:
            w.objs[key] = e
    return q2, {"r": "wire", "w": wire, "timestep": attrs["_timestep"], "restored": restored,
                "restored_timestep": q2._timestep, "restored_type": type(q2).__name__}


def _run_ops(ops):
    w = _World()
    q = EventQueue()
    shadows = []
    steps = []
    for o in ops:
        sh = []
        if o["op"] == "roundtrip":
            old = q
            q, res = _roundtrip(q, w)
            for s in shadows:
                sh.append({"r": "unit"})
            shadows.append(old)
        else:
            # shadows first: they hold the pre-round-trip objects of the same triples
            for s in shadows:
                sh.append(_apply_shadow(s, w, o))
            res = _apply(q, w, o)
        res["shadow"] = sh
        res["len"] = len(q)
        res["empty"] = bool(q.empty())
        res["last"] = q.get_last_timestamp()
        res["arr"] = _arr(q, w)
        steps.append(res)
    return steps


def _apply_shadow(s, w, o):
    r = _apply(s, w, o)
    r["len"] = len(s)
    r["last"] = s.get_last_timestamp()
    return r


def run_impl(case):
    if "deep" in case:
        return _run_deep(case["deep"])
    return {"steps": _run_ops(case["ops"])}


def _run_deep(d):
    alpha = DEEP
    n = 0
    fails = []
    ties = 0
    for suf in itertools.product(alpha, repeat=d["len"] - len(d["prefix"])):
        word = [alpha[i] for i in d["prefix"]] + list(suf)
        c = _alpha_case(word)
        steps = _run_ops(c["ops"])
        n += 1
        f = _oracle_ops(c["ops"], steps)
        if f and len(fails) < 3:
            fails.append({"case": c, "failures": f})
        ties += 1 if _tie_retrieval(c["ops"], steps) else 0
    return {"deep_n": n, "deep_fails": fails, "deep_ties": ties}


# ------------------------------------------------------------------ model

def model_request(case):
    if "deep" in case:
        return None
    return {"ops": case["ops"]}


def _keys(es):
    return [[e[0], e[1]] for e in es]


def compare(case, obs, model):
    out = []
    if model.get("prec") != ["0", "10", "20"]:
        # informational only: the order, not the values, is the property (theorem prec_order)
        pass
    ms = model["steps"]
    if len(ms) != len(obs["steps"]):
        return [f"{len(ms)} model steps for {len(obs['steps'])} operations"]
    for i, (a, m) in enumerate(zip(obs["steps"], ms)):
        h = m["heap"]
        sp = m["spec"]
        where = f"step {i} {case['ops'][i]['op']}"
        if a["r"] != h["r"]:
            out.append(f"{where}: result class impl={a['r']} model={h['r']}")
            continue
        if a["r"] == "event":
            if a["e"] != h["e"]:
                out.append(f"{where}: event impl={a['e']} heap-model={h['e']}")
            if sp["r"] != "event" or a["e"][:2] != sp["e"][:2]:
                out.append(f"{where}: key impl={a['e'][:2]} spec-model={sp}")
        elif a["r"] == "err":
            if a["e"] != h["e"] or sp["r"] != "err":
                out.append(f"{where}: error impl={a['e']} model={h['e']} spec={sp['r']}")
        elif a["r"] == "events":
            if a["es"] != h["es"]:
                out.append(f"{where}: events impl={a['es']} heap-model={h['es']}")
            if sp["r"] != "events" or _keys(a["es"]) != _keys(sp["es"]):
                out.append(f"{where}: keys impl={_keys(a['es'])} spec-model={sp}")
        elif a["r"] == "nat":
            if a["n"] != h["n"] or a["n"] != sp["n"]:
                out.append(f"{where}: len impl={a['n']} model={h['n']} spec={sp['n']}")
        elif a["r"] == "bool":
            if a["b"] != h["b"] or a["b"] != sp["b"]:
                out.append(f"{where}: empty impl={a['b']} model={h['b']} spec={sp['b']}")
        elif a["r"] == "ts":
            if a["t"] != h["t"] or a["t"] != sp["t"]:
                out.append(f"{where}: last impl={a['t']} model={h['t']} spec={sp['t']}")
        elif a["r"] == "wire":
            if a["w"] != h["w"]:
                out.append(f"{where}: serialised array impl={a['w']} model={h['w']}")
            if a["timestep"] != h["timestep"]:
                out.append(f"{where}: serialised _timestep impl={a['timestep']} model={h['timestep']}")
            if sp["r"] != "wire" or sorted(_keys([x[1] for x in a["w"]])) != sorted(_keys([x[1] for x in sp["w"]])):
                out.append(f"{where}: serialised key multiset differs from the spec layer")
        # queries and array layout after every operation
        if a["len"] != m["len"] or a["empty"] != m["empty"] or a["last"] != m["last"]:
            out.append(f"{where}: after: len/empty/last impl={a['len']},{a['empty']},{a['last']} "
                       f"model={m['len']},{m['empty']},{m['last']}")
        if a["len"] != m["spec_len"] or a["last"] != m["spec_last"]:
            out.append(f"{where}: after: len/last impl={a['len']},{a['last']} spec={m['spec_len']},{m['spec_last']}")
        if [x[1] for x in a["arr"]] != m["arr"] or any(x[0] != x[1][0] for x in a["arr"]):
            out.append(f"{where}: heap array impl={a['arr']} model={m['arr']}")
    return out


# ------------------------------------------------------------------ property oracle

def _key(e):
    return (e[0], RANK[e[1]])


def _oracle_ops(ops, steps):
    """the property, on the implementation's observable behaviour; `pending` is the harness's own
    multiset of what is in the queue."""
    fails = []
    pending = []          # [ts, kind, tag]
    last = None           # key of the most recent retrieval of the current well-timed stretch

    def F(kind, detail):
        fails.append({"kind": kind, "detail": detail})

    def retrieved(i, e):
        nonlocal last
        if last is not None and _key(e) < last:
            F("order_decreasing", f"op {i}: {e} retrieved after a key {last} although nothing smaller was inserted since")
        last = _key(e)

    def inserted(e):
        nonlocal last
        if last is not None and _key(e) < last:
            last = None    # DESIGN §6 C11: a stretch ends when a key below the last retrieval is inserted

    for i, (o, st) in enumerate(zip(ops, steps)):
        op = o["op"]
        if op == "add":
            pending.append([o["ts"], o["kind"], o["tag"]])
            inserted(pending[-1])
            if st["r"] != "unit":
                F("unexpected_result", f"op {i} add: {st['r']}")
        elif op == "add_events":
            for e in o["events"]:
                pending.append([e["ts"], e["kind"], e["tag"]])
                inserted(pending[-1])
        elif op == "get_event":
            if not pending:
                if st["r"] != "err" or st["e"] != "IndexError":
                    F("get_empty_no_indexerror", f"op {i}: get_event on an empty queue gave {st}")
            elif st["r"] != "event":
                F("get_failed_nonempty", f"op {i}: get_event with {len(pending)} pending gave {st}")
            else:
                e = st["e"]
                if e not in pending:
                    F("get_not_pending", f"op {i}: returned {e}, pending {pending}")
                else:
                    lower = [x for x in pending if _key(x) < _key(e)]
                    if lower:
                        F("get_not_minimal", f"op {i}: returned {e} while {lower[0]} was pending")
                    pending.remove(e)
                    retrieved(i, e)
        elif op == "get_current":
            t = o["t"]
            if st["r"] != "events":
                F("unexpected_result", f"op {i} get_current: {st['r']}")
                continue
            es = st["es"]
            want = [x for x in pending if x[0] <= t]
            if sorted(map(json.dumps, es)) != sorted(map(json.dumps, want)):
                F("current_wrong_set", f"op {i}: get_current_events({t}) returned {es}, pending with ts<={t}: {want}")
            if any(_key(es[k]) > _key(es[k + 1]) for k in range(len(es) - 1)):
                F("current_not_sorted", f"op {i}: get_current_events({t}) returned {es}")
            for e in es:
                if e in pending:
                    pending.remove(e)
                    retrieved(i, e)
        elif op == "len":
            if st["r"] != "nat" or st["n"] != len(pending):
                F("len_wrong", f"op {i}: len={st.get('n')} pending={len(pending)}")
        elif op == "empty":
            if st["r"] != "bool" or st["b"] != (len(pending) == 0):
                F("empty_wrong", f"op {i}: empty={st.get('b')} pending={len(pending)}")
        elif op == "last":
            want = max((x[0] for x in pending), default=None)
            if st["r"] != "ts" or st["t"] != want:
                F("last_wrong", f"op {i}: get_last_timestamp={st.get('t')} expected {want}")
        elif op == "roundtrip":
            before = steps[i - 1]["arr"] if i > 0 else []
            if st["restored"] != before or st["w"] != before:
                F("restore_differs", f"op {i}: queue {before} serialised as {st['w']} restored as {st['restored']}")
            if st["restored_type"] != "EventQueue":
                F("restore_differs", f"op {i}: restored object is a {st['restored_type']}")
            tprev = None
            for j in range(i - 1, -1, -1):
                if ops[j]["op"] == "get_current":
                    tprev = ops[j]["t"]
                    break
            if st["timestep"] != st["restored_timestep"] or (tprev is not None and st["timestep"] != tprev):
                F("restore_differs", f"op {i}: _timestep serialised {st['timestep']} restored {st['restored_timestep']} last get_current {tprev}")
        # after every operation the three queries reflect the pending multiset
        if st["len"] != len(pending) or st["empty"] != (len(pending) == 0):
            F("len_wrong", f"after op {i} ({op}): len={st['len']} empty={st['empty']} pending={len(pending)}")
        want = max((x[0] for x in pending), default=None)
        if st["last"] != want:
            F("last_wrong", f"after op {i} ({op}): get_last_timestamp={st['last']} expected {want}")
        if sorted(map(json.dumps, [x[1] for x in st["arr"]])) != sorted(map(json.dumps, pending)) and not fails:
            F("pending_set_wrong", f"after op {i} ({op}): queue holds {st['arr']}, expected multiset {pending}")
        # a queue restored earlier and the original it was restored from behave identically
        for k, sh in enumerate(st["shadow"]):
            if op == "roundtrip":
                continue
            mine = {k2: st[k2] for k2 in sh}
            if sh != mine:
                F("restored_behaviour_differs", f"op {i} ({op}): restored queue {mine}, original #{k} {sh}")
    return fails


def oracle(case, obs):
    if "deep" in case:
        out = []
        for f in obs["deep_fails"]:
            for x in f["failures"]:
                out.append({"kind": x["kind"], "detail": f"{x['detail']} in exhaustive sequence {f['case']['ops']}"})
        return out
    return _oracle_ops(case["ops"], obs["steps"])


def shrink(case, kind):
    if "deep" in case:
        obs = run_impl(case)
        for f in obs["deep_fails"]:
            if any(x["kind"] == kind for x in f["failures"]):
                case = f["case"]
                break
        else:
            return case
    ops = list(case["ops"])

    def bad(o):
        try:
            return any(f["kind"] == kind for f in _oracle_ops(o, _run_ops(o)))
        except Exception:
            return False
    changed = True
    while changed and len(ops) > 1:
        changed = False
        for i in range(len(ops)):
            cand = ops[:i] + ops[i + 1:]
            if bad(cand):
                ops = cand
                changed = True
                break
    return {"ops": ops}


def _tie_retrieval(ops, steps):
    prev = []
    for o, st in zip(ops, steps):
        if o["op"] in ("get_event", "get_current") and len(prev) >= 2:
            m = min(x[0] for x in prev)
            if sum(1 for x in prev if x[0] == m) >= 2 and (st["r"] == "event" or (st["r"] == "events" and st["es"])):
                return True
        if o["op"] == "roundtrip" and len(prev) >= 2:
            return True
        prev = st["arr"]
    return False


def nontrivial(case, obs):
    if "deep" in case:
        return obs["deep_ties"] > 0
    return _tie_retrieval(case["ops"], obs["steps"])


def features(case, obs):
    if "deep" in case:
        return ["deep_case", f"deep_sequences:{obs['deep_n']}"]
    out = []
    prev = []
    for o, st in zip(case["ops"], obs["steps"]):
        out.append("op:" + o["op"])
        if st["r"] == "err":
            out.append("err:" + st["e"])
        if st["r"] == "events":
            out.append("current_n:" + ("0" if not st["es"] else "1" if len(st["es"]) == 1 else "2+"))
        if st["r"] in ("event", "events") and prev:
            m = min(_key(x[1]) for x in prev)
            c = sum(1 for x in prev if _key(x[1]) == m)
            out.append("min_key_ties:" + ("1" if c == 1 else "2" if c == 2 else "3+"))
        if o["op"] == "roundtrip":
            out.append("roundtrip_size:" + ("0" if not prev else "1" if len(prev) == 1 else "2+"))
        if st["shadow"]:
            out.append("with_shadow")
        prev = st["arr"]
    out.append("queue_max:" + str(min(20, max([len(s["arr"]) for s in obs["steps"]] + [0]) // 5 * 5)))
    return out
