"""C19 — stochastic space assignment never loses, duplicates or starves a session.

The REAL `StochasticNetwork` runs inside a REAL `Simulator` (real EVs and batteries, a scheduler
handing out generous pilots, no constraints).  A subclass records a snapshot after every
top-level `plugin`/`unplug` call and around `post_charging_update`; `random.choice` is wrapped in
the harness process so that the draws (as indices into the free list, in the code's own order)
feed the Lean model.  The oracle is the property on the implementation's snapshots.
"""
from __future__ import annotations

import contextlib
import itertools
import random as _random
from datetime import datetime

from acnportal.acnsim import Simulator, EventQueue
from acnportal.acnsim.events import PluginEvent
from acnportal.acnsim.models import EV, EVSE, Battery
from acnportal.algorithms import BaseAlgorithm
from acnportal.contrib.acnsim.network.stochastic_network import StochasticNetwork

from core import impl as I
from core.common import f2b, b2f, close

ID = "C19"
LEAN_MODULES = ["AcnProofs.C19"]
DRIVER = "drv_C19"
REQUIRED_THEOREMS = [
    "Acn.C19.place_unique", "Acn.C19.no_wait_while_free", "Acn.C19.fifo_admission",
    "Acn.C19.waiting_iff_station_none", "Acn.C19.no_error", "Acn.C19.never_charged_counts",
    "Acn.C19.all_gone_at_end", "Acn.C19.stale_unplug_noop", "Acn.C19.deterministic_given_choices",
    "Acn.C19.wellFormed_protocol", "Acn.C19.starvation_free", "Acn.C19.all_gone_after_horizon",
    "Acn.C19.eventCore_history_wellFormed", "Acn.C19.end_to_end", "Acn.C19.end_to_end_properties",
    "Acn.C19.end_to_end_ledger_partial",
]
BUDGET = {"quick": 2500, "thorough": 15000, "search": 12000}
TRUSTED = ["heapq: in the history-level model the order among equal keys is taken from the implementation's own "
           "event_history; in the COMPOSED model (runGP heapQ stochasticNet) the order is computed by sim-core's "
           "transcription of CPython's array heap and compared with the implementation",
           "random.choice(seq) returns an element of seq (its index is the model's input)",
           "OrderedDict insertion order / popitem(last=False) / move_to_end; dict order of _EVSEs",
           "EV.fully_charged is an input of the model (read from the implementation each period)"]
ASSUMPTIONS = ["histories are well formed: distinct session ids, arrival < departure, arrival >= 0; each session is "
               "plugged once (at arrival) and unplugged once (at departure, with its current station_id)",
               "two EV objects sharing a session id are outside the model (the waiting queue is keyed by session id)"]
RULE = ("per case 1-4 stations, 1-12 sessions over a short horizon (heavy overlap, many equal arrival/departure "
        "times), tiny/medium/huge energy requests, early departure on/off, a scheduler giving 32 A / alternating / "
        "0 A, initial station ids valid/foreign/None, a random.seed or a scripted choice sequence; thorough adds the "
        "exhaustive scope <=2 stations x <=4 sessions x all choice scripts over horizon 4; incoming station ids are "
        "registered EVSE ids in ~60% of the cases (as acndata_events produces); plus a malformed stream of raw "
        "plugin/unplug/post calls in any order (state and error class compared after every call). "
        "non-trivial = some session had to wait (more simultaneous sessions than stations); distinct by case hash")

START = datetime(2020, 1, 1)
VOLT = 208.0
PERIOD = 5.0  # minutes: 32 A * 208 V * 5 min = 0.5547 kWh per period
KWH = [0.0005, 0.3, 0.5, 0.8, 1.4, 60.0]


# ------------------------------------------------------------------ generation

def _case(stations, sessions, early, seed=None, script=None, sched="gen"):
    return {"stations": stations, "sessions": sessions, "early": early, "seed": seed, "script": script, "sched": sched}


def _gen_case(rng, tier):
    ns = rng.choice([1, 1, 2, 2, 2, 3, 3, 4])
    names = rng.choice([["A", "B", "C", "D"], ["st-2", "st-1", "st-0", "st-3"], ["s0", "s1", "s2", "s3"]])
    stations = names[:ns]
    n = rng.randint(1, 12)
    r = rng.random()
    H = rng.choice([3, 4, 6, 9]) if r < 0.8 else rng.choice([12, 20])
    sessions = []
    # incoming EV.station_id: what acndata_events produces is a REGISTERED EVSE id (the space the
    # driver used in the data set); also foreign ids, None, ids that look like session ids
    st0_mode = rng.choice(["registered", "registered", "mixed", "mixed", "same"])
    for k in range(n):
        a = rng.randint(0, H - 1) if rng.random() < 0.8 else rng.choice([0, 0, 1, H - 1])
        d = rng.randint(a + 1, H) if rng.random() < 0.7 else min(H, a + rng.choice([1, 1, 2]))
        if st0_mode == "registered":
            st0 = rng.choice(stations)
        elif st0_mode == "same":
            st0 = stations[0]
        else:
            st0 = rng.choice([stations[0], rng.choice(stations), "zz", None, f"s{k}"])
        sessions.append({"id": f"s{k}", "arrival": a, "departure": d, "kwh": rng.choice(KWH), "st0": st0})
    rng.shuffle(sessions)
    early = rng.random() < 0.7
    sched = rng.choice(["gen", "gen", "gen", "alt", "zero"])
    if rng.random() < 0.2:
        return _case(stations, sessions, early, script=[rng.randint(0, 3) for _ in range(n)], sched=sched)
    return _case(stations, sessions, early, seed=rng.randint(0, 10 ** 6), sched=sched)


def _exhaustive():
    """<= 2 stations x <= 4 sessions x all choice scripts, arrivals/departures in 0..3."""
    out = []
    types = [(a, d, k) for a in range(3) for d in range(a + 1, 4) for k in (0.3, 60.0)]
    for ns in (1, 2):
        stations = ["A", "B"][:ns]
        for n in (1, 2, 3, 4):
            for combo in itertools.combinations_with_replacement(types, n):
                # the request only matters with early departure on, and early departure only if somebody is tiny
                for early in (any(k < 1 for _, _, k in combo),):
                    sessions = [{"id": f"s{i}", "arrival": a, "departure": d, "kwh": k, "st0": None}
                                for i, (a, d, k) in enumerate(combo)]
                    scripts = [[0] * n] if ns == 1 else [list(p) for p in itertools.product((0, 1), repeat=n)]
                    for sc in scripts:
                        out.append(_case(stations, sessions, early, script=sc))
    return out


def corpus():
    S = lambda i, a, d, k=60.0, st0=None: {"id": i, "arrival": a, "departure": d, "kwh": k, "st0": st0}  # noqa: E731
    return [
        # swap-in and same-period unplug of the swapped EV; departure while waiting; stale unplug after early departure
        _case(["A"], [S("a", 0, 2), S("b", 0, 2), S("c", 1, 3)], False, seed=1),
        _case(["A"], [S("a", 0, 5, 0.3), S("b", 1, 4, 0.3), S("c", 1, 2, 0.3), S("d", 2, 6)], True, seed=2),
        _case(["A", "B"], [S("a", 0, 3, 0.3), S("b", 0, 3), S("c", 0, 1), S("d", 1, 4, 0.0005), S("e", 1, 2)], True, seed=3),
        # station named like a session, foreign / None initial station ids
        _case(["s0", "s1"], [S("s0", 0, 2, 0.3, "s1"), S("s1", 0, 4, 60.0, "zz"), S("s2", 0, 3, 0.3, None), S("s3", 2, 4, 0.3, "s0")], True, script=[1, 0, 1, 1]),
        # long idle gap, then a crowd
        _case(["A", "B", "C"], [S("a", 0, 1), S("b", 5, 7, 0.3), S("c", 5, 6, 0.3), S("d", 5, 9), S("e", 5, 6), S("f", 6, 9, 0.3)], True, seed=4),
    ]


def _gen_ops(rng):
    """malformed stream: raw plugin / unplug / post_charging_update calls in ANY order (double plug-in,
    unplug before plug-in, double unplug, unplug of an EV with a foreign / None / registered station id)"""
    ns = rng.choice([1, 2, 2, 3])
    stations = ["A", "B", "C"][:ns]
    n = rng.randint(1, 5)
    evs = [{"id": f"e{k}", "st0": rng.choice([None, "zz", "A", rng.choice(stations)]), "full": rng.random() < 0.5}
           for k in range(n)]
    ops = []
    for _ in range(rng.randint(1, 14)):
        r = rng.random()
        x = rng.choice(evs)["id"]
        ops.append(["plugin", x] if r < 0.45 else ["unplug", x] if r < 0.85 else ["post"])
    return {"ops": ops, "stations": stations, "early": rng.random() < 0.7, "evs": evs,
            "script": [rng.randint(0, 2) for _ in range(len(ops))]}


def generate(rng, n, tier):
    out = [_gen_case(rng, tier) for _ in range(n)]
    out.extend(_gen_ops(rng) for _ in range(max(50, n // 5)))
    if tier == "thorough":
        out.extend(_exhaustive())
    return out


def search(rng, n):
    return [_gen_case(rng, "search") for _ in range(n)]


# ------------------------------------------------------------------ implementation

class _Sched(BaseAlgorithm):
    """generous pilots for every active session; `alt`: only in even periods; `zero`: never"""

    def __init__(self, mode):
        super().__init__()
        self.max_recompute = 1
        self.mode = mode

    def schedule(self, active_sessions):
        t = self.interface.current_time
        amps = 32.0
        if self.mode == "zero" or (self.mode == "alt" and t % 2 == 1):
            amps = 0.0
        return {s.station_id: [amps] for s in active_sessions}


def _make_net(case, log):
    evs = log["evs"]

    def snap(net):
        return {
            "occ": [[sid, (net.get_ev(sid).session_id if net.get_ev(sid) is not None else None)] for sid in net.station_ids],
            "waiting": list(net.waiting_queue.keys()),
            "waiting_ok": all(k == v.session_id for k, v in net.waiting_queue.items()),
            "station_of": [[k, evs[k].station_id] for k in sorted(evs)],
            "swaps": net.swaps, "never_charged": net.never_charged, "early_unplug": net.early_unplug,
        }

    class Rec(StochasticNetwork):
        _depth = 0
        _in_post = False

        def plugin(self, ev, station_id=None):
            self._depth += 1
            try:
                super().plugin(ev)
            finally:
                self._depth -= 1
            if self._depth == 0:
                log["trace"].append({"op": "plugin", "sess": ev.session_id, "snap": snap(self)})

        def unplug(self, station_id, session_id=None):
            before = None
            if self._in_post:
                log["early_calls"].append([station_id, session_id, list(self.waiting_queue.keys())])
            elif self._depth == 0:
                before = snap(self)
            self._depth += 1
            try:
                super().unplug(station_id, session_id)
            finally:
                self._depth -= 1
            if self._depth == 0 and not self._in_post:
                log["trace"].append({"op": "unplug", "sess": session_id, "station": station_id,
                                     "before": before, "snap": snap(self)})

        def post_charging_update(self):
            full = [e.ev.session_id for e in self._EVSEs.values() if e.ev is not None and e.ev.fully_charged]
            before = snap(self)
            log["early_calls"] = []
            self._in_post = True
            try:
                super().post_charging_update()
            finally:
                self._in_post = False
            log["trace"].append({"op": "post", "full": full, "before": before,
                                 "early_calls": log["early_calls"], "snap": snap(self)})

    net = Rec(early_departure=case["early"])
    for sid in case["stations"]:
        net.register_evse(EVSE(sid, max_rate=32), VOLT, 0)
    return net, snap


@contextlib.contextmanager
def _choice_patch(script, log):
    orig = _random.choice
    k = [0]

    def recording(seq):
        if script is None:
            c = orig(seq)
            i = list(seq).index(c)
        else:
            i = (script[k[0]] if k[0] < len(script) else 0) % len(seq)
            c = seq[i]
        k[0] += 1
        log["choices"].append(i)
        log["choice_sizes"].append(len(seq))
        return c

    _random.choice = recording
    try:
        yield
    finally:
        _random.choice = orig


def _run_once(case, patch=True):
    log = {"trace": [], "choices": [], "choice_sizes": [], "early_calls": [], "evs": {}}
    events = []
    for s in case["sessions"]:
        kwh = I.num(s["kwh"])
        ev = EV(s["arrival"], s["departure"], kwh, s["st0"], s["id"], Battery(100.0, 0.0, 50.0))
        log["evs"][s["id"]] = ev
        events.append(PluginEvent(s["arrival"], ev))
    net, snap = _make_net(case, log)
    sim = Simulator(net, _Sched(case.get("sched", "gen")), EventQueue(events), START, period=PERIOD, verbose=False)
    if case.get("seed") is not None:
        _random.seed(case["seed"])
    err = None
    ctx = _choice_patch(case.get("script"), log) if patch else contextlib.nullcontext()
    with ctx:
        try:
            sim.run()
        except Exception as e:  # noqa
            err = I.err_name(e)
    return {
        "err": err,
        "trace": log["trace"],
        "choices": log["choices"], "choice_sizes": log["choice_sizes"],
        "events": [[int(e.timestamp), e.event_type, e.ev.session_id] for e in sim.event_history],
        "ev_history": list(sim.ev_history.keys()),
        "final": snap(net),
        "iterations": int(sim.iteration),
        "delivered": {k: float(v.energy_delivered) for k, v in log["evs"].items()},
    }


def _run_ops(case):
    log = {"choices": [], "choice_sizes": []}
    evs = {e["id"]: EV(0, 10, 0.0 if e["full"] else 60.0, e["st0"], e["id"], Battery(100.0, 0.0, 50.0))
           for e in case["evs"]}
    net = StochasticNetwork(early_departure=case["early"])
    for sid in case["stations"]:
        net.register_evse(EVSE(sid, max_rate=32), VOLT, 0)

    def snap():
        return {
            "occ": [[sid, (net.get_ev(sid).session_id if net.get_ev(sid) is not None else None)] for sid in net.station_ids],
            "waiting": list(net.waiting_queue.keys()),
            "station_of": [[k, evs[k].station_id] for k in sorted(evs)],
            "swaps": net.swaps, "never_charged": net.never_charged, "early_unplug": net.early_unplug,
        }

    steps = []
    with _choice_patch(case["script"], log):
        for o in case["ops"]:
            err = None
            try:
                if o[0] == "plugin":
                    net.plugin(evs[o[1]])
                elif o[0] == "unplug":
                    net.unplug(evs[o[1]].station_id, o[1])
                else:
                    net.post_charging_update()
            except Exception as e:  # noqa
                err = I.err_name(e)
            steps.append({"err": err, "snap": snap()})
    return {"steps": steps, "choices": log["choices"], "choice_sizes": log["choice_sizes"]}


def run_impl(case):
    if "ops" in case:
        return _run_ops(case)
    obs = _run_once(case, patch=True)
    if case.get("seed") is not None and case.get("script") is None:
        # reproducibility: the same seed without any patching gives the same run
        again = _run_once(case, patch=False)
        obs["repro"] = (again["trace"] == obs["trace"] and again["final"] == obs["final"]
                        and again["events"] == obs["events"])
    else:
        again = _run_once(case, patch=True)
        obs["repro"] = again == {k: v for k, v in obs.items() if k != "repro"}
    return obs


# ------------------------------------------------------------------ model

def _horizon(case):
    return max(s["departure"] for s in case["sessions"]) + 1


def model_request(case, obs):
    if "ops" in case:
        full = [e["id"] for e in case["evs"] if e["full"]]
        return {"mode": "ops", "stations": case["stations"], "early": case["early"],
                "evs": [{"id": e["id"], "st0": e["st0"]} for e in case["evs"]], "choices": obs["choices"],
                "ops": [o if o[0] != "post" else ["post", full] for o in case["ops"]]}
    fulls = [st["full"] for st in obs["trace"] if st["op"] == "post"]
    return {
        "stations": case["stations"], "early": case["early"], "periods": _horizon(case),
        "sessions": [{"id": s["id"], "st0": s["st0"], "arrival": s["arrival"], "departure": s["departure"]}
                     for s in case["sessions"]],
        "events": [{"ts": t, "kind": k, "sess": x} for t, k, x in obs["events"]],
        "full": fulls, "choices": obs["choices"],
        # composed model with fully_charged COMPUTED from an energy ledger (what the harness' scheduler and
        # the ideal battery do: 32 A * 208 V for one period to every plugged-in EV that is not yet full)
        "ledger": {"req": [{"id": s["id"], "kwh": f2b(I.num(s["kwh"]))} for s in case["sessions"]],
                   "per_period": f2b((32.0 * VOLT) / 1000 * (PERIOD / 60)), "eps": f2b(1e-3),
                   "mode": case.get("sched", "gen")},
    }


def _cmp_snap(a, m, where, out, draws=None, blank_none=False):
    if blank_none:
        # composed model: a session's pre-assigned station is a string ("" for Python None)
        m = dict(m)
        m["station_of"] = [[x, (None if st == "" else st)] for x, st in m["station_of"]]
    if a["occ"] != m["occ"]:
        out.append(f"{where}: occupancy impl={a['occ']} model={m['occ']}")
    if a["waiting"] != m["waiting"]:
        out.append(f"{where}: waiting impl={a['waiting']} model={m['waiting']}")
    if sorted(map(tuple, a["station_of"]), key=str) != sorted(map(tuple, m["station_of"]), key=str):
        out.append(f"{where}: ev.station_id impl={a['station_of']} model={m['station_of']}")
    for k in ("swaps", "never_charged", "early_unplug"):
        if a[k] != m[k]:
            out.append(f"{where}: {k} impl={a[k]} model={m[k]}")


def compare(case, obs, model):
    out = []
    if "ops" in case:
        for i, (a, m) in enumerate(zip(obs["steps"], model["steps"])):
            if a["err"] != m["err"]:
                out.append(f"op {i} {case['ops'][i]}: error class impl={a['err']} model={m['err']}")
                break
            if a["err"] and case["ops"][i][0] == "post":
                # the loop of post_charging_update raises half way: the implementation keeps the
                # unplugs done so far, the model's Except discards them; the error class is what is compared
                break
            _cmp_snap(a["snap"], m["snap"], f"op {i} {case['ops'][i]}", out)
            if out:
                break
        if len(obs["steps"]) != len(model["steps"]):
            out.append("number of steps differs")
        return out
    if obs["err"] != model["err"]:
        out.append(f"error impl={obs['err']} model={model['err']}")
    if not model["wf"]:
        out.append("model says the implementation's event history is not a well-formed history of the sessions")
    if model["horizon"] != obs["iterations"] and obs["err"] is None:
        out.append(f"periods simulated impl={obs['iterations']} model horizon={model['horizon']}")
    tr = obs["trace"]
    ms = model["steps"]
    if len(tr) != len(ms):
        out.append(f"number of steps impl={len(tr)} model={len(ms)}")
    for i, (a, m) in enumerate(zip(tr, ms)):
        if (a["op"] == "post") != (m["kind"] == "post"):
            out.append(f"step {i}: kind impl={a['op']} model={m['kind']}")
            break
        _cmp_snap(a["snap"], m["snap"], f"step {i} ({a['op']} {a.get('sess', '')})", out)
        if len(out) > 6:
            break
    _cmp_snap(obs["final"], model["final"], "final", out)
    if model["final"]["draws"] != len(obs["choices"]):
        out.append(f"random.choice calls impl={len(obs['choices'])} model={model['final']['draws']}")
    if model["arrivals"] != obs["ev_history"]:
        out.append(f"ev_history order impl={obs['ev_history']} model={model['arrivals']}")
    # the COMPOSED model (run loop + CPython heap + stochastic network): it computes the processing
    # order itself, so the tie order among equal-key events is compared too
    lp = model["loop"]
    if lp["err"] != obs["err"]:
        out.append(f"composed loop: error impl={obs['err']} model={lp['err']}")
    if [list(e) for e in lp["events"]] != [list(e) for e in obs["events"]]:
        out.append(f"composed loop: event_history impl={obs['events']} model={lp['events']}")
    if lp["ev_history"] != obs["ev_history"] or lp["arrivals"] != obs["ev_history"]:
        out.append(f"composed loop: ev_history impl={obs['ev_history']} model={lp['ev_history']}/{lp['arrivals']}")
    if obs["err"] is None and (lp["iterations"] != obs["iterations"] or not lp["queue_empty"]):
        out.append(f"composed loop: iterations impl={obs['iterations']} model={lp['iterations']} queue_empty={lp['queue_empty']}")
    posts = [st["snap"] for st in tr if st["op"] == "post"]
    if len(posts) != len(lp["periods"]):
        out.append(f"composed loop: periods impl={len(posts)} model={len(lp['periods'])}")
    for t, (a, m) in enumerate(zip(posts, lp["periods"])):
        _cmp_snap(a, m, f"composed loop period {t}", out, blank_none=True)
        if len(out) > 8:
            break
    _cmp_snap(obs["final"], lp["final"], "composed loop final", out, blank_none=True)
    if lp["final"]["draws"] != len(obs["choices"]):
        out.append(f"composed loop: random.choice calls impl={len(obs['choices'])} model={lp['final']['draws']}")
    # ... and with fully_charged computed by the model's own energy ledger (no `full` input at all)
    ll = model.get("loop_ledger")
    if ll is not None:
        if ll["err"] != obs["err"]:
            out.append(f"ledger loop: error impl={obs['err']} model={ll['err']}")
        if [list(e) for e in ll["events"]] != [list(e) for e in obs["events"]]:
            out.append(f"ledger loop: event_history impl={obs['events']} model={ll['events']}")
        if len(posts) != len(ll["periods"]):
            out.append(f"ledger loop: periods impl={len(posts)} model={len(ll['periods'])}")
        for t, (a, m) in enumerate(zip(posts, ll["periods"])):
            _cmp_snap(a, m, f"ledger loop period {t}", out, blank_none=True)
            if len(out) > 8:
                break
        _cmp_snap(obs["final"], ll["final"], "ledger loop final", out, blank_none=True)
        for x, bits in ll["delivered"]:
            if not close(obs["delivered"][x], b2f(bits)):
                out.append(f"ledger loop: energy delivered to {x} impl={obs['delivered'][x]} model={b2f(bits)}")
    return out


# ------------------------------------------------------------------ property oracle

def _places(snap):
    on = {}
    dup = []
    for st, x in snap["occ"]:
        if x is not None:
            if x in on:
                dup.append(x)
            on[x] = st
    w = snap["waiting"]
    for x in w:
        if w.count(x) > 1 or x in on:
            dup.append(x)
    return on, w, dup


def oracle(case, obs):
    fails = []
    if "ops" in case:
        # outside the property's domain (the protocol is violated on purpose): only the
        # correspondence with the model (state and error class after every call) is checked
        return fails

    def bad(kind, detail):
        if len(fails) < 8:
            fails.append({"kind": kind, "detail": detail})

    sess = {s["id"]: s for s in case["sessions"]}
    if obs["err"] is not None:
        bad("run_raised", f"Simulator.run raised {obs['err']} on a well-formed history")
    # the history the simulator processed is the protocol: every session plugged at arrival, unplugged at departure
    evs = obs["events"]
    want = sorted([[s["arrival"], "Plugin", s["id"]] for s in case["sessions"]] +
                  [[s["departure"], "Unplug", s["id"]] for s in case["sessions"]])
    if obs["err"] is None and sorted(evs) != want:
        bad("session_not_plugged_and_unplugged_once", f"processed events {evs}")
    prec = {"Unplug": 0, "Plugin": 1, "Recompute": 2}
    if any((a[0], prec[a[1]]) > (b[0], prec[b[1]]) for a, b in zip(evs, evs[1:])):
        bad("events_out_of_order", f"{evs}")
    rank = {x: i for i, x in enumerate(e[2] for e in evs if e[1] == "Plugin")}

    arrived, departed, early_gone = set(), set(), set()
    ever_on = set()
    exp_never = exp_swaps = exp_early = 0
    prev = {"occ": [[st, None] for st in case["stations"]], "waiting": []}
    for i, st in enumerate(obs["trace"]):
        snap = st["snap"]
        where = f"step {i} {st['op']} {st.get('sess', '')}"
        p_on, p_w, _ = _places(prev)
        if st["op"] == "plugin":
            arrived.add(st["sess"])
        elif st["op"] == "unplug":
            x = st["sess"]
            if x in p_w:
                exp_never += 1          # departs while still waiting
            if x in early_gone:
                # stale unplug of an EV that already left early: nothing may change
                b = st["before"]
                if any(b[k] != snap[k] for k in ("occ", "waiting", "swaps", "never_charged", "early_unplug")):
                    bad("stale_unplug_changed_state", f"{where}: before={b} after={snap}")
            departed.add(x)
        else:
            # early departures: exactly the fully charged occupants while somebody waits, one swap each
            gone_now = [x for x in p_on if x not in _places(snap)[0] and x not in snap["waiting"]]
            for x in gone_now:
                if not case["early"] or x not in st["full"] or not p_w:
                    bad("session_lost", f"{where}: {x} vanished (early={case['early']}, full={st['full']}, waiting={p_w})")
                early_gone.add(x)
            exp_early += len(gone_now)
            if case["early"]:
                # every fully charged occupant leaves as long as somebody is waiting
                k = min(len(st["full"]), len(p_w))
                if len(gone_now) != k:
                    bad("early_departure_count", f"{where}: {len(gone_now)} left early, expected {k} (full={st['full']}, waiting={p_w})")
        on, w, dup = _places(snap)
        ever_on |= set(on)
        if not snap["waiting_ok"]:
            bad("queue_key_mismatch", f"{where}: waiting_queue key differs from its EV's session id")
        if dup:
            bad("session_in_two_places", f"{where}: {dup} occ={snap['occ']} waiting={w}")
        present = arrived - departed - early_gone
        here = set(on) | set(w)
        if here - present:
            bad("session_present_when_gone", f"{where}: {sorted(here - present)} occ={snap['occ']} waiting={w}")
        if present - here:
            bad("session_lost", f"{where}: {sorted(present - here)} arrived, not departed, nowhere; occ={snap['occ']} waiting={w}")
        if w and any(x is None for _, x in snap["occ"]):
            bad("waiting_while_free", f"{where}: waiting={w} occ={snap['occ']}")
        so = dict(map(tuple, snap["station_of"]))
        for x in w:
            if so[x] is not None:
                bad("waiting_with_station_id", f"{where}: {x} waits but station_id={so[x]}")
        for x, stn in on.items():
            if so[x] != stn:
                bad("station_id_stale", f"{where}: {x} sits on {stn} but station_id={so[x]}")
        for x in present:
            if so[x] is None and x not in w:
                bad("station_none_not_waiting", f"{where}: {x} has station_id None and is not in the queue")
        # FIFO: queue in arrival order; whoever newly got a station arrived before everybody still waiting
        if any(rank.get(a, -1) > rank.get(b, -1) for a, b in zip(w, w[1:])):
            bad("queue_not_in_arrival_order", f"{where}: waiting={w}")
        newly = [x for x in on if p_on.get(x) != on[x]]
        exp_swaps += len([x for x in newly if x in p_w])
        for x in newly:
            for y in w:
                if rank.get(y, 10 ** 9) < rank.get(x, -1):
                    bad("not_fifo", f"{where}: {x} got station {on[x]} while {y} (arrived earlier) still waits")
        prev = snap
    fin = obs["final"]
    if obs["err"] is None:
        if any(x is not None for _, x in fin["occ"]) or fin["waiting"]:
            bad("not_all_gone_at_end", f"final occ={fin['occ']} waiting={fin['waiting']}")
        if fin["never_charged"] != exp_never:
            bad("never_charged_miscount", f"counter={fin['never_charged']} independent count={exp_never}")
        if fin["swaps"] != exp_swaps:
            bad("swaps_miscount", f"counter={fin['swaps']} independent count={exp_swaps}")
        if fin["early_unplug"] != exp_early:
            bad("early_unplug_miscount", f"counter={fin['early_unplug']} independent count={exp_early}")
        # an EV that never sat on a station received no energy
        for x, e in obs["delivered"].items():
            if x not in ever_on and e > 0:
                bad("energy_without_station", f"{x} got {e} kWh but never held a station")
    if any(i >= n for i, n in zip(obs["choices"], obs["choice_sizes"])):
        bad("choice_out_of_range", f"{obs['choices']} {obs['choice_sizes']}")
    if not obs["repro"]:
        bad("not_reproducible", "the same seed / script gave a different run")
    return fails


def _max_overlap(case):
    best = 0
    for t in range(_horizon(case)):
        best = max(best, len([s for s in case["sessions"] if s["arrival"] <= t < s["departure"]]))
    return best


def nontrivial(case, obs):
    if "ops" in case:
        return any(st["err"] for st in obs["steps"])
    return any(st["snap"]["waiting"] for st in obs["trace"])


def features(case, obs):
    if "ops" in case:
        return sorted({"stream:ops"} | {"ops_err:" + st["err"] for st in obs["steps"] if st["err"]}
                      | {"ops_waiting" for st in obs["steps"] if st["snap"]["waiting"]})
    reg = {s["id"] for s in case["sessions"] if s["st0"] in case["stations"]}
    out = [f"stations:{len(case['stations'])}", f"sessions:{min(len(case['sessions']), 12)}",
           f"early:{case['early']}", "choices:" + ("seed" if case.get("script") is None else "script"),
           "sched:" + case.get("sched", "gen")]
    if _max_overlap(case) > len(case["stations"]):
        out.append("more_sessions_than_stations")
    fin = obs["final"]
    if fin["never_charged"]:
        out.append("never_charged>0")
    if fin["swaps"]:
        out.append("swaps>0")
    if fin["early_unplug"]:
        out.append("early_unplug>0")
    if any(n > 1 for n in obs["choice_sizes"]):
        out.append("choice_among>=2")
    ts = {}
    for t, k, _ in obs["events"]:
        ts.setdefault(t, set()).add(k)
    if any(len(v) > 1 for v in ts.values()):
        out.append("unplug_and_plugin_same_period")
    early_gone = set()
    prev_w = []
    for st in obs["trace"]:
        if st["op"] == "post" and st["early_calls"]:
            early_gone |= {c[1] for c in st["early_calls"]}
        if st["op"] == "unplug":
            if st["sess"] in prev_w and st["sess"] in reg:
                out.append("registered_st0_departs_while_waiting")
            if st["sess"] in early_gone:
                out.append("stale_unplug")
            if st["sess"] in prev_w and prev_w.index(st["sess"]) > 0:
                out.append("leaves_middle_of_queue")
            if st["before"] and st["sess"] in [x for _, x in st["before"]["occ"]] and st["before"]["swaps"] > 0:
                pass
        prev_w = st["snap"]["waiting"]
    if obs["err"]:
        out.append("err:" + obs["err"])
    return sorted(set(out))


def shrink(case, kind):
    """drop sessions while the same oracle failure kind persists"""
    if "ops" in case:
        return case
    cur = case
    changed = True
    while changed and len(cur["sessions"]) > 1:
        changed = False
        for i in range(len(cur["sessions"])):
            cand = dict(cur)
            cand["sessions"] = cur["sessions"][:i] + cur["sessions"][i + 1:]
            try:
                if any(f["kind"] == kind for f in oracle(cand, run_impl(cand))):
                    cur = cand
                    changed = True
                    break
            except Exception:
                pass
    return cur
