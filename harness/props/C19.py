"""C19 — stochastic space assignment never loses, duplicates or starves a session.

The REAL `StochasticNetwork` runs inside a REAL `Simulator` (real EVs and batteries, a scheduler
handing out generous pilots, no constraints).  A subclass records a snapshot after every
top-level `plugin`/`unplug` call and around `post_charging_update`; `random.choice` is wrapped in
the harness process so that the draws (as indices into the free list, in the code's own order)
feed the Lean model.  The oracle is the property on the implementation's snapshots.

Networks are built by hand (`register_evse` in the listed order) AND through the package's own factories
(`simple_acn`, `office001_acn`, `caltech_acn`, `jpl_acn` with `network_type=<recording StochasticNetwork>`);
the schedulers are the harness' generous one and the package's real algorithms (uncontrolled, round robin,
sorted FCFS / EDF / LLF under a tight aggregate cap).

Every session case is also answered by the FULL simulator model on the stochastic network with the scheduler that
really ran (harness' or the package's own algorithm), fully_charged computed by the model; ~1 case in 8 crashes the
first run() (scheduler raises / invalid rate) and calls run() again on the same simulator object.

"Reproducible under a fixed random seed" is checked (a) inside the harness process (same seed, no patching,
run again) and (b) ACROSS INTERPRETER PROCESSES: a case that carries `"hashseeds": [h1, h2, ...]` is also run
in persistent worker processes started with `PYTHONHASHSEED=h_i` (acnportal imported from ACN_REPO there too);
the whole observation (registration order, every snapshot, event history, counters, pilot / charging-rate
matrices, delivered energy) must be identical in all of them and in the harness process.
"""
from __future__ import annotations

import atexit
import contextlib
import hashlib
import itertools
import json
import os
import random as _random
import select
import subprocess
import sys
from datetime import datetime

from acnportal.acnsim import Simulator, EventQueue
from acnportal.acnsim.events import PluginEvent
from acnportal.acnsim.models import EV, EVSE, Battery
from acnportal.acnsim.network import sites as _sites
from acnportal import algorithms as _algos
from acnportal.algorithms import BaseAlgorithm
from acnportal.contrib.acnsim.network.stochastic_network import StochasticNetwork

from core import impl as I
from core.common import f2b, b2f, close, HARNESS, REPO

ID = "C19"
LEAN_MODULES = ["AcnProofs.C19", "AcnProofs.C19Abort"]
TIE_MODULES = ["AcnProofs.Lemmas.CodeTieSimEvent",
               # T1c, group StochOps (builder9-T1c): contrib StochasticNetwork.available_evses / plugin / unplug /
               # post_charging_update translated from the source and proved to refine Stoch.Net.free / plugin / unplug / post
               "AcnProofs.Lemmas.CodeTieStochOps", "AcnProofs.Lemmas.CodeTieStochPost"]
DRIVER = "drv_C19"
REQUIRED_THEOREMS = [
    "Acn.C19.place_unique", "Acn.C19.no_wait_while_free", "Acn.C19.fifo_admission",
    "Acn.C19.waiting_iff_station_none", "Acn.C19.no_error", "Acn.C19.never_charged_counts",
    "Acn.C19.all_gone_at_end", "Acn.C19.stale_unplug_noop", "Acn.C19.deterministic_given_choices",
    "Acn.C19.wellFormed_protocol", "Acn.C19.starvation_free", "Acn.C19.all_gone_after_horizon",
    "Acn.C19.eventCore_history_wellFormed", "Acn.C19.end_to_end", "Acn.C19.end_to_end_properties",
    "Acn.C19.end_to_end_ledger_partial", "Acn.C19.end_to_end_sim", "Acn.C19.end_to_end_sim_properties",
    "Acn.C19.end_to_end_sim_energy", "Acn.C19.no_starvation_behind_satisfied", "Acn.C19.end_to_end_sim_abort",
    "Acn.C19.end_to_end_sim_abort_energy",
]
BUDGET = {"quick": 2000, "thorough": 15000, "search": 12000}
TRUSTED = ["heapq: in the history-level model the order among equal keys is taken from the implementation's own "
           "event_history; in the COMPOSED model (runGP heapQ stochasticNet) the order is computed by sim-core's "
           "transcription of CPython's array heap and compared with the implementation",
           "random.choice(seq) returns an element of seq (its index is the model's input)",
           "OrderedDict insertion order / popitem(last=False) / move_to_end; dict order of _EVSEs",
           "EV.fully_charged is an input of the history-level model only (read from the implementation each period); in the "
           "FULL simulator model (Acn.SimSt.run, theorems end_to_end_sim / _energy / _abort / no_starvation_behind_satisfied) "
           "it is computed from the energies the model itself delivers - executed for EVERY session case: hand-built and "
           "factory-built networks, the harness' scheduler and the package's real algorithms (UncontrolledCharging, "
           "RoundRobin, sorted FCFS / EDF / LLF through the modelled Interface adapter of C07/C08); per period the network "
           "snapshot, counters, energies, EVSE pilots, and at the end pilot / charging-rate matrices are compared; the "
           "model's only dynamic input is the stream of random choices",
           "the STATIC description of a network (registration order, EVSE class and parameters, voltage, constraint rows, "
           "limits, phase angles) is read from the implementation once per case (C12 / C16 are about it being right)",
           "PYTHONHASHSEED: independence of the interpreter's string hashing is EXPLORED (2 worker processes with "
           "pinned, different hash seeds + the harness process per cross-process case; 3 in the thorough tier), not "
           "proved; the model takes the registration order of a factory-built network from the implementation"]
ASSUMPTIONS = ["histories are well formed: distinct session ids, arrival < departure, arrival >= 0; each session is "
               "plugged once (at arrival) and unplugged once (at departure, with its current station_id)",
               "two EV objects sharing a session id are outside the model (the waiting queue is keyed by session id)",
               "reproducibility across processes is claimed for the same case, the same random.seed (or choice script) "
               "and the same package version; station ids handed to simple_acn are distinct"]
RULE = ("hand-built networks: per case 1-4 stations, 1-12 sessions over a short horizon (heavy overlap, many equal arrival/departure "
        "times), tiny/medium/huge energy requests, early departure on/off, a scheduler giving 32 A / alternating / "
        "0 A, initial station ids valid/foreign/None, a random.seed or a scripted choice sequence; thorough adds the "
        "exhaustive scope <=2 stations x <=4 sessions x all choice scripts over horizon 4; incoming station ids are "
        "registered EVSE ids in ~60% of the cases (as acndata_events produces); plus a malformed stream of raw "
        "plugin/unplug/post calls in any order (state and error class compared after every call). "
        "FACTORY-BUILT networks (n/8 of the quick stream, n/12 thorough): simple_acn(ids, evse_type BASIC / AeroVironment / "
        "ClipperCreek, voltage 208/240, aggregate cap 150/20/10/5 kW, network_type=<recording StochasticNetwork>) with 1-8 "
        "shuffled ids in eight naming styles, office001_acn (8 stations), and caltech_acn + jpl_acn (> 50 stations, a "
        "crowd of stations-4..stations+10 sessions; one each per quick run, 8 each thorough); schedulers: the harness' "
        "32 A / alternating / 0 A and the package's UncontrolledCharging, RoundRobin, sorted FCFS / EDF / LLF (tight cap, "
        "BASIC EVSEs). CROSS-PROCESS: every factory case and one hand-built case in twelve carry `hashseeds` (2 of "
        "{101,202,303} quick, 3 of {101,202,303,404} thorough): the same case with the same random.seed / script is run "
        "in persistent worker interpreters started with PYTHONHASHSEED=h (acnportal imported from ACN_REPO, checked) and "
        "the whole observation - registration order, constraint order, every snapshot, event history, counters, pilot "
        "and charging-rate matrices, delivered energy - must be identical in all of them and in the harness process "
        "(oracle kind not_reproducible_across_processes; the replay is the case incl. its hash seeds). "
        "The package's algorithms also run on hand-built networks (unc / rr / llf, ~1 case in 4). CRASH + SECOND run(): ~12 % of "
        "the hand-built and ~15 % of the factory cases carry `crash` {t, kind}: in period t (0..H) the scheduler raises once "
        "(kind raise; the second run() on the same simulator object must complete and every clause of the oracle is judged on "
        "the whole trace) or hands out 40 A (kind rate; EVSE.set_pilot raises InvalidRateError in both run() calls); the error "
        "of each run(), the state the raise left behind (network snapshot, counters, iteration, energies, EVSE pilots) and "
        "everything after it are compared with the phase model of the driver (SimSt.body continued from the abort state). "
        "STATIONS REGISTERED LATE (max(60, n/15) raw-call cases, flag `late`): a WELL-FORMED plugin / unplug protocol over 2-8 EVs on a "
        "network that is used while 0-2 of its stations are registered; register_evse calls for 1-3 fresh ids are interleaved "
        "(mostly while nobody waits; ~1 in 5 while somebody waits - the code admits nobody on registration, the oracle then "
        "abstains on wait-while-free / FIFO); available_evses() is queried after every call; oracle kinds waiting_while_free, "
        "choice_not_among_all_free, available_evses_stale, not_fifo, arrival_not_enqueued_last, registration_moved_an_ev; the model "
        "extends its station list on a register op and is compared after every call. "
        "non-trivial = some session had to wait (more simultaneous sessions than stations); distinct by case hash")

START = datetime(2020, 1, 1)
VOLT = 208.0
PERIOD = 5.0  # minutes: 32 A * 208 V * 5 min = 0.5547 kWh per period
KWH = [0.0005, 0.3, 0.5, 0.8, 1.4, 60.0]


# ------------------------------------------------------------------ generation

def _case(stations, sessions, early, seed=None, script=None, sched="gen", factory=None, hashseeds=None, crash=None):
    c = {"stations": stations, "sessions": sessions, "early": early, "seed": seed, "script": script, "sched": sched}
    if factory is not None:
        c["factory"] = factory
    if crash is not None:
        # the first Simulator.run() is made to raise in period t (the scheduler raises / hands out a rate no EVSE
        # accepts), then run() is called AGAIN on the same simulator object
        c["crash"] = crash
    if hashseeds:
        c["hashseeds"] = list(hashseeds)
    return c


# PYTHONHASHSEED values of the worker processes (a small pool: one persistent process per value)
HASHSEEDS = [101, 202, 303, 404]


def _pick_hashseeds(rng, tier):
    if tier == "thorough":
        return sorted(rng.sample(HASHSEEDS, 3))
    return sorted(rng.sample(HASHSEEDS[:3], 2))


def _gen_crash(rng, H, p):
    if rng.random() >= p:
        return None
    return {"t": rng.randint(0, H), "kind": rng.choice(["raise", "raise", "rate"]), "amps": 40.0}


def _gen_sessions(rng, n, H, stations, kwhs=None):
    sessions = []
    # incoming EV.station_id: what acndata_events produces is a REGISTERED EVSE id (the space the
    # driver used in the data set); also foreign ids, None, ids that look like session ids
    st0_mode = rng.choice(["registered", "registered", "mixed", "mixed", "same"])
    for k in range(n):
        a = rng.randint(0, H - 1) if rng.random() < 0.8 else rng.choice([0, 0, 1, H - 1])
        d = rng.randint(a + 1, H) if rng.random() < 0.7 else min(H, a + rng.choice([1, 1, 2]))
        if not stations:
            st0 = rng.choice([None, "zz", f"s{k}"])
        elif st0_mode == "registered":
            st0 = rng.choice(stations)
        elif st0_mode == "same":
            st0 = stations[0]
        else:
            st0 = rng.choice([stations[0], rng.choice(stations), "zz", None, f"s{k}"])
        sessions.append({"id": f"s{k}", "arrival": a, "departure": d, "kwh": rng.choice(kwhs or KWH), "st0": st0})
    rng.shuffle(sessions)
    return sessions


def _gen_case(rng, tier):
    ns = rng.choice([1, 1, 2, 2, 2, 3, 3, 4])
    names = rng.choice([["A", "B", "C", "D"], ["st-2", "st-1", "st-0", "st-3"], ["s0", "s1", "s2", "s3"]])
    stations = names[:ns]
    n = rng.randint(1, 12)
    r = rng.random()
    H = rng.choice([3, 4, 6, 9]) if r < 0.8 else rng.choice([12, 20])
    sessions = _gen_sessions(rng, n, H, stations)
    early = rng.random() < 0.7
    # mostly the harness' scheduler; also the package's own algorithms on the unconstrained hand-built network
    sched = rng.choice(["gen", "gen", "gen", "gen", "gen", "alt", "alt", "zero", "zero", "unc", "rr", "llf"])
    # one hand-built case in twelve is also run in other interpreter processes
    hs = _pick_hashseeds(rng, tier) if rng.random() < 1 / 12 else None
    crash = _gen_crash(rng, H, 0.12)
    if rng.random() < 0.2:
        return _case(stations, sessions, early, script=[rng.randint(0, 3) for _ in range(n)], sched=sched, hashseeds=hs,
                     crash=crash)
    return _case(stations, sessions, early, seed=rng.randint(0, 10 ** 6), sched=sched, hashseeds=hs, crash=crash)


# ---- networks built by the package's own factories -------------------------------------------

_ID_STYLES = [
    lambda k: f"CA-{301 + k}", lambda k: "ABCDEFGHIJKL"[k], lambda k: f"st-{k}", lambda k: f"{k + 1:02d}",
    lambda k: f"PS-{k:03d}", lambda k: f"Garage 2 / spot {k}", lambda k: f"s{k}", lambda k: ("x" * (k + 1)),
]
_SITE_IDS = {}


def _site_ids(kind):
    """station ids of a fixed site (asked from the real factory, only to pick plausible INCOMING station ids
    for the sessions; nothing of the check depends on this list being right)"""
    if kind not in _SITE_IDS:
        try:
            _SITE_IDS[kind] = list(getattr(_sites, kind)(network_type=StochasticNetwork).station_ids)
        except Exception:  # noqa
            _SITE_IDS[kind] = []
    return _SITE_IDS[kind]


REAL_ALGOS = ["unc", "rr", "fcfs", "edf", "llf"]


def _crowd(rng, sessions, H, p):
    """most sessions arrive at once and stay for a while (more sessions than stations at the same time)"""
    for s in sessions:
        if rng.random() < p:
            s["arrival"] = rng.choice([0, 0, 0, 1])
            s["departure"] = max(s["departure"], s["arrival"] + 1 + rng.randint(0, H - 2))


def _gen_factory(rng, tier, big=False):
    """the network comes from simple_acn / office001_acn (small) or caltech_acn / jpl_acn (big, > 50 stations)"""
    volt = rng.choice([208.0, 208.0, 208.0, 240.0])
    if big:
        kind = big if isinstance(big, str) else rng.choice(["caltech_acn", "jpl_acn"])
        basic = rng.random() < 0.5
        fac = {"kind": kind, "basic": basic, "voltage": volt}
        ids = _site_ids(kind)
        ns = len(ids) or 54
        n = max(1, ns + rng.randint(-4, 10))
        H = rng.choice([3, 4, 6])
        sessions = _gen_sessions(rng, n, H, ids, kwhs=[0.3, 0.5, 1.4, 60.0, 60.0])
        _crowd(rng, sessions, H, 0.75)
        stations = None
    elif rng.random() < 0.25:
        basic = rng.random() < 0.5
        fac = {"kind": "office001_acn", "basic": basic, "voltage": volt, "cap": rng.choice([50, 50, 10, 5])}
        ids = _site_ids("office001_acn")
        n = rng.randint(1, 16) if rng.random() < 0.4 else rng.randint(9, 16)
        H = rng.choice([3, 4, 6, 9])
        sessions = _gen_sessions(rng, n, H, ids)
        if rng.random() < 0.6:
            _crowd(rng, sessions, H, 0.6)
        stations = None
    else:
        ns = rng.choice([1, 2, 2, 3, 3, 4, 4, 5, 6, 6, 8])
        style = rng.choice(_ID_STYLES)
        ids = [style(k) for k in range(ns)]
        rng.shuffle(ids)
        etype = rng.choice(["BASIC", "BASIC", "BASIC", "AeroVironment", "ClipperCreek"])
        basic = etype == "BASIC"
        fac = {"kind": "simple_acn", "ids": ids, "evse_type": etype, "voltage": volt,
               "cap": rng.choice([150, 150, 20, 10, 5])}
        n = rng.randint(1, ns + 7) if rng.random() < 0.5 else rng.randint(ns + 1, ns + 7)
        H = rng.choice([3, 4, 6, 9]) if rng.random() < 0.85 else 12
        sessions = _gen_sessions(rng, n, H, ids)
        if rng.random() < 0.5:
            _crowd(rng, sessions, H, 0.6)
        stations = list(ids)
    early = rng.random() < 0.7
    # the package's sorted algorithms hand continuous rates to the EVSE: BASIC EVSEs only
    scheds = ["gen", "gen", "gen", "alt", "zero", "unc", "rr"] + (["fcfs", "edf", "llf"] if basic else [])
    sched = rng.choice(scheds)
    hs = _pick_hashseeds(rng, tier)
    crash = _gen_crash(rng, H, 0.15)
    if rng.random() < 0.15:
        return _case(stations, sessions, early, script=[rng.randint(0, 7) for _ in range(len(sessions))], sched=sched,
                     factory=fac, hashseeds=hs, crash=crash)
    return _case(stations, sessions, early, seed=rng.randint(0, 10 ** 6), sched=sched, factory=fac, hashseeds=hs, crash=crash)


def _exhaustive():
    """<= 2 stations x <= 4 sessions x all choice scripts, arrivals/departures in 0..3."""
    out = []
    types = [(a, d, k) for a in range(3) for d in range(a + 1, 4) for k in (0.3, 60.0)]
    for ns in (1, 2):
        stations = ["A", "B"][:ns]
        for n in (1, 2, 3, 4):
            for combo in itertools.combinations_with_replacement(types, n):
                # the request only matters with early departure on, and early departure only if somebody is tiny
                for early in (any(k < 1 for _, _, k in combo),):
                    sessions = [{"id": f"s{i}", "arrival": a, "departure": d, "kwh": k, "st0": None}
                                for i, (a, d, k) in enumerate(combo)]
                    scripts = [[0] * n] if ns == 1 else [list(p) for p in itertools.product((0, 1), repeat=n)]
                    for sc in scripts:
                        out.append(_case(stations, sessions, early, script=sc))
    return out


def corpus():
    S = lambda i, a, d, k=60.0, st0=None: {"id": i, "arrival": a, "departure": d, "kwh": k, "st0": st0}  # noqa: E731
    ca6 = ["CA-301", "CA-302", "CA-303", "CA-304", "CA-305", "CA-306"]
    crowd = [S(f"s{i:02d}", a, d, k, st0) for i, (a, d, k, st0) in enumerate([
        (0, 6, 8.0, "CA-303"), (0, 3, 0.5, "CA-301"), (0, 8, 9.0, None), (1, 5, 0.3, "CA-306"), (1, 7, 6.0, "CA-302"),
        (1, 4, 1.4, "CA-305"), (1, 6, 0.5, "CA-304"), (2, 3, 5.0, "CA-301"), (2, 9, 7.0, "zz"), (2, 5, 0.3, "CA-303"),
        (2, 9, 3.0, None), (3, 7, 0.5, "CA-302"), (4, 9, 4.5, "CA-306"), (5, 9, 0.3, "CA-301"), (6, 9, 6.0, "CA-305"),
        (7, 9, 0.5, "CA-304")])]
    return [
        # swap-in and same-period unplug of the swapped EV; departure while waiting; stale unplug after early departure
        _case(["A"], [S("a", 0, 2), S("b", 0, 2), S("c", 1, 3)], False, seed=1),
        _case(["A"], [S("a", 0, 5, 0.3), S("b", 1, 4, 0.3), S("c", 1, 2, 0.3), S("d", 2, 6)], True, seed=2),
        _case(["A", "B"], [S("a", 0, 3, 0.3), S("b", 0, 3), S("c", 0, 1), S("d", 1, 4, 0.0005), S("e", 1, 2)], True, seed=3),
        # station named like a session, foreign / None initial station ids
        _case(["s0", "s1"], [S("s0", 0, 2, 0.3, "s1"), S("s1", 0, 4, 60.0, "zz"), S("s2", 0, 3, 0.3, None), S("s3", 2, 4, 0.3, "s0")], True, script=[1, 0, 1, 1]),
        # long idle gap, then a crowd
        _case(["A", "B", "C"], [S("a", 0, 1), S("b", 5, 7, 0.3), S("c", 5, 6, 0.3), S("d", 5, 9), S("e", 5, 6), S("f", 6, 9, 0.3)], True, seed=4),
        # networks from the package's factories, compared across interpreter processes (PYTHONHASHSEED differs):
        # six stations / sixteen sessions, up to ten at once (the registration order decides who sits where)
        _case(ca6, crowd, False, seed=2024, sched="unc", hashseeds=[101, 202],
              factory={"kind": "simple_acn", "ids": ca6, "evse_type": "BASIC", "voltage": 208.0, "cap": 150}),
        _case(ca6, crowd, True, seed=2024, sched="gen", hashseeds=[101, 303],
              factory={"kind": "simple_acn", "ids": ca6, "evse_type": "AeroVironment", "voltage": 208.0, "cap": 150}),
        # tight aggregate cap, the package's own sorted algorithms decide who charges
        _case(ca6[:4], crowd[:9], True, seed=7, sched="rr", hashseeds=[202, 303],
              factory={"kind": "simple_acn", "ids": ca6[:4], "evse_type": "BASIC", "voltage": 208.0, "cap": 10}),
        _case(None, crowd[:12], True, seed=11, sched="llf", hashseeds=[101, 202],
              factory={"kind": "office001_acn", "basic": True, "voltage": 208.0, "cap": 10}),
        # the same hand-built network in other processes
        _case(["st-2", "st-1", "st-0"], crowd[:8], True, seed=5, hashseeds=[101, 202]),
        # crash + second run() on the same object: the scheduler raises while two EVs wait behind a satisfied one;
        # a rate no EVSE accepts (the apply stage raises, twice)
        _case(["A"], [S("a", 0, 5, 0.3), S("b", 1, 4, 0.3), S("c", 1, 2, 0.3), S("d", 2, 6)], True, seed=2,
              crash={"t": 1, "kind": "raise", "amps": 40.0}),
        _case(["A", "B"], [S("a", 0, 3, 0.3), S("b", 0, 3), S("c", 0, 1), S("d", 1, 4, 0.0005), S("e", 1, 2)], True, seed=3,
              crash={"t": 2, "kind": "raise", "amps": 40.0}),
        _case(["A", "B"], [S("a", 0, 3, 0.3), S("b", 0, 3), S("c", 0, 1), S("d", 1, 4, 0.0005), S("e", 1, 2)], True, seed=3,
              crash={"t": 1, "kind": "rate", "amps": 40.0}),
        _case(ca6[:4], crowd[:9], True, seed=7, sched="edf", hashseeds=[202, 303],
              factory={"kind": "simple_acn", "ids": ca6[:4], "evse_type": "BASIC", "voltage": 208.0, "cap": 10},
              crash={"t": 3, "kind": "raise", "amps": 40.0}),
        # an idle period (everybody on a station is satisfied, 0 A) while somebody waits: the hook must still run
        _case(["A"], [S("a", 0, 6, 0.3), S("b", 1, 6, 0.3), S("c", 2, 6, 0.3)], True, seed=1, sched="unc"),
    ]


def _gen_ops(rng):
    """malformed stream: raw plugin / unplug / post_charging_update calls in ANY order (double plug-in,
    unplug before plug-in, double unplug, unplug of an EV with a foreign / None / registered station id)"""
    ns = rng.choice([1, 2, 2, 3])
    stations = ["A", "B", "C"][:ns]
    n = rng.randint(1, 5)
    evs = [{"id": f"e{k}", "st0": rng.choice([None, "zz", "A", rng.choice(stations)]), "full": rng.random() < 0.5}
           for k in range(n)]
    ops = []
    for _ in range(rng.randint(1, 14)):
        r = rng.random()
        x = rng.choice(evs)["id"]
        ops.append(["plugin", x] if r < 0.45 else ["unplug", x] if r < 0.85 else ["post"])
    return {"ops": ops, "stations": stations, "early": rng.random() < 0.7, "evs": evs,
            "script": [rng.randint(0, 2) for _ in range(len(ops))]}


def _gen_ops_late(rng):
    """stations REGISTERED LATE: a WELL-FORMED plugin / unplug protocol (every EV plugged once, unplugged once after
    that) on a network that is used while only part of its stations is registered; `register_evse` calls for fresh
    ids are interleaved with the arrivals.  Most registrations happen while nobody waits (the generator tracks the
    queue); ~1 in 5 happens while somebody waits (the code admits nobody on registration: from then on the oracle
    abstains on the wait-while-free / FIFO clauses, the model is still compared)."""
    names = rng.choice([["A", "B", "C", "D", "E"], ["st-2", "st-1", "st-0", "st-4", "st-3"], ["e0", "e1", "e2", "e3", "e4"]])
    n0 = rng.choice([0, 1, 1, 2])
    stations, later = names[:n0], names[n0:n0 + rng.randint(1, 3)]
    n = rng.randint(2, 8)
    evs = [{"id": f"e{k}", "st0": rng.choice([None, "zz", names[0], rng.choice(names)]), "full": False} for k in range(n)]
    todo = [e["id"] for e in evs]
    rng.shuffle(todo)
    ops, on, queue, nreg = [], [], [], n0
    while todo or on or queue or later:
        r = rng.random()
        can_reg = bool(later) and (not queue or rng.random() < 0.2)
        if can_reg and (r < 0.3 or not (todo or on or queue)):
            ops.append(["register", later.pop(0)])
            nreg += 1
        elif todo and (r < 0.7 or not (on or queue)):
            x = todo.pop()
            ops.append(["plugin", x])
            if len(on) < nreg:
                on.append(x)
            else:
                queue.append(x)
        elif on or queue:
            x = rng.choice(on + queue)
            ops.append(["unplug", x])
            if x in queue:
                queue.remove(x)
            else:
                on.remove(x)
                if queue:
                    on.append(queue.pop(0))
        elif later:
            ops.append(["register", later.pop(0)])
            nreg += 1
    return {"ops": ops, "stations": stations, "early": False, "evs": evs, "late": True,
            "script": [rng.randint(0, 3) for _ in range(len(ops))]}


def generate(rng, n, tier):
    out = [_gen_case(rng, tier) for _ in range(n)]
    out.extend(_gen_ops(rng) for _ in range(max(50, n // 5)))
    out.extend(_gen_ops_late(rng) for _ in range(max(60, n // 15)))
    # networks from simple_acn / office001_acn, each also run in other interpreter processes; a few caltech / jpl
    out.extend(_gen_factory(rng, tier) for _ in range(max(60, n // 8 if tier != "thorough" else n // 12)))
    out.extend(_gen_factory(rng, tier, big=kind) for _ in range(1 if tier != "thorough" else 8)
               for kind in ("caltech_acn", "jpl_acn"))
    if tier == "thorough":
        out.extend(_exhaustive())
    return out


def search(rng, n):
    return ([_gen_case(rng, "search") for _ in range(n)] + [_gen_factory(rng, "search") for _ in range(n // 20)]
            + [_gen_factory(rng, "search", big=True) for _ in range(4)])


# ------------------------------------------------------------------ implementation

class _Sched(BaseAlgorithm):
    """generous pilots for every active session; `alt`: only in even periods; `zero`: never"""

    def __init__(self, mode):
        super().__init__()
        self.max_recompute = 1
        self.mode = mode

    def schedule(self, active_sessions):
        t = self.interface.current_time
        amps = 32.0
        if self.mode == "zero" or (self.mode == "alt" and t % 2 == 1):
            amps = 0.0
        return {s.station_id: [amps] for s in active_sessions}


def _make_net(case, log):
    evs = log["evs"]

    def snap(net):
        return {
            "occ": [[sid, (net.get_ev(sid).session_id if net.get_ev(sid) is not None else None)] for sid in net.station_ids],
            "waiting": list(net.waiting_queue.keys()),
            "waiting_ok": all(k == v.session_id for k, v in net.waiting_queue.items()),
            "station_of": [[k, evs[k].station_id] for k in sorted(evs)],
            "swaps": net.swaps, "never_charged": net.never_charged, "early_unplug": net.early_unplug,
        }

    class Rec(StochasticNetwork):
        _depth = 0
        _in_post = False

        def plugin(self, ev, station_id=None):
            self._depth += 1
            try:
                super().plugin(ev)
            finally:
                self._depth -= 1
            if self._depth == 0:
                log["trace"].append({"op": "plugin", "sess": ev.session_id, "snap": snap(self)})

        def unplug(self, station_id, session_id=None):
            before = None
            if self._in_post:
                log["early_calls"].append([station_id, session_id, list(self.waiting_queue.keys())])
            elif self._depth == 0:
                before = snap(self)
            self._depth += 1
            try:
                super().unplug(station_id, session_id)
            finally:
                self._depth -= 1
            if self._depth == 0 and not self._in_post:
                log["trace"].append({"op": "unplug", "sess": session_id, "station": station_id,
                                     "before": before, "snap": snap(self)})

        def update_pilots(self, pilots, i, period):
            super().update_pilots(pilots, i, period)
            # the period has just been charged: the simulator's next call into the network must be the post-charging hook
            # (position in the trace + who is satisfied / waiting at this moment, for the starvation clause of the oracle)
            log.setdefault("charges", []).append({
                "pos": len(log["trace"]), "t": int(i),
                "full": [e.ev.session_id for e in self._EVSEs.values() if e.ev is not None and e.ev.fully_charged],
                "waiting": list(self.waiting_queue.keys())})

        def post_charging_update(self):
            full = [e.ev.session_id for e in self._EVSEs.values() if e.ev is not None and e.ev.fully_charged]
            before = snap(self)
            log["early_calls"] = []
            self._in_post = True
            try:
                super().post_charging_update()
            finally:
                self._in_post = False
            log["trace"].append({"op": "post", "full": full, "before": before,
                                 "early_calls": log["early_calls"], "snap": snap(self),
                                 # numeric side of the period that has just been charged (full-simulator model)
                                 "energy": {k: float(v.energy_delivered) for k, v in sorted(evs.items())},
                                 "evse_pilot": [float(e.current_pilot) for e in self._EVSEs.values()]})

    fac = case.get("factory")
    if fac is None:
        net = Rec(early_departure=case["early"])
        for sid in case["stations"]:
            net.register_evse(EVSE(sid, max_rate=32), VOLT, 0)
        return net, snap
    # the package's own factories call `network_type()` and register the EVSEs themselves
    kind = fac["kind"]
    if kind == "simple_acn":
        net = _sites.simple_acn(list(fac["ids"]), evse_type=fac["evse_type"], voltage=fac["voltage"],
                                aggregate_cap=fac["cap"], network_type=Rec)
    elif kind == "office001_acn":
        net = _sites.office001_acn(basic_evse=fac["basic"], voltage=fac["voltage"], transformer_cap=fac["cap"],
                                   network_type=Rec)
    elif kind == "caltech_acn":
        net = _sites.caltech_acn(basic_evse=fac["basic"], voltage=fac["voltage"], network_type=Rec)
    elif kind == "jpl_acn":
        net = _sites.jpl_acn(basic_evse=fac["basic"], voltage=fac["voltage"], network_type=Rec)
    else:
        raise ValueError(f"unknown factory {kind}")
    net.early_departure = case["early"]
    return net, snap


def _volt(case):
    return float(case["factory"]["voltage"]) if case.get("factory") else VOLT


def _make_sched(mode):
    if mode in ("gen", "alt", "zero"):
        return _Sched(mode)
    if mode == "unc":
        alg = _algos.UncontrolledCharging()
    elif mode == "rr":
        alg = _algos.RoundRobin(_algos.first_come_first_served, continuous_inc=1)
    elif mode == "fcfs":
        alg = _algos.SortedSchedulingAlgo(_algos.first_come_first_served)
    elif mode == "edf":
        alg = _algos.SortedSchedulingAlgo(_algos.earliest_deadline_first)
    elif mode == "llf":
        alg = _algos.SortedSchedulingAlgo(_algos.least_laxity_first)
    else:
        raise ValueError(f"unknown scheduler {mode}")
    alg.max_recompute = 1
    return alg


class _Crash(Exception):
    """the injected scheduler failure"""


def _arm_crash(alg, crash):
    """period t: the scheduler raises (once: the second run() gets an answer) / hands out a rate no EVSE accepts"""
    orig = alg.schedule
    state = {"armed": True}

    def schedule(active_sessions):
        if alg.interface.current_time == crash["t"]:
            if crash["kind"] == "raise":
                if state["armed"]:
                    state["armed"] = False
                    raise _Crash()
            else:
                return {s.station_id: [float(crash["amps"])] for s in active_sessions}
        return orig(active_sessions)

    alg.schedule = schedule


def _kind_of(evse):
    from acnportal.acnsim.models.evse import DeadbandEVSE, FiniteRatesEVSE
    if isinstance(evse, FiniteRatesEVSE):
        return {"t": "finite", "rates": [I.enc(float(x)) for x in evse.allowable_rates]}
    if isinstance(evse, DeadbandEVSE):
        return {"t": "deadband", "db": I.enc(float(evse._deadband_end)), "max": I.enc(float(evse._max_rate))}
    return {"t": "cont", "min": I.enc(float(evse._min_rate)), "max": I.enc(float(evse._max_rate))}


def _net_desc(net, iface):
    """STATIC description of the network (what was registered: EVSE classes, voltages, constraint rows, limits,
    phases), read once; the full-simulator model takes nothing else from the implementation but the random draws"""
    import numpy as np
    info = iface.infrastructure_info()
    ph = np.deg2rad(info.phases)
    return {"stations": [{"id": sid, "kind": _kind_of(e), "V": float(net._voltages[i])}
                         for i, (sid, e) in enumerate(net._EVSEs.items())],
            "M": [[float(x) for x in row] for row in info.constraint_matrix],
            "lims": [float(x) for x in info.constraint_limits],
            "cos": [float(x) for x in np.cos(ph)], "sin": [float(x) for x in np.sin(ph)]}


def _run_err(sim):
    import warnings as _w
    try:
        with _w.catch_warnings():
            # a user who runs with deprecation warnings as errors (`python -W error::DeprecationWarning`, pytest's
            # filterwarnings=error): a well-formed history goes through the package's own NON-deprecated paths only, so nothing
            # issued from inside acnportal may turn into an exception half-way through a hand-over
            _w.filterwarnings("error", category=DeprecationWarning, module=r"acnportal\..*")
            sim.run()
    except _Crash:
        return "SchedulerFailed"
    except Exception as e:  # noqa
        return I.err_name(e)
    return None


@contextlib.contextmanager
def _choice_patch(script, log):
    orig = _random.choice
    k = [0]

    def recording(seq):
        if script is None:
            c = orig(seq)
            i = list(seq).index(c)
        else:
            i = (script[k[0]] if k[0] < len(script) else 0) % len(seq)
            c = seq[i]
        k[0] += 1
        log["choices"].append(i)
        log["choice_sizes"].append(len(seq))
        return c

    _random.choice = recording
    try:
        yield
    finally:
        _random.choice = orig


def _run_once(case, patch=True):
    log = {"trace": [], "choices": [], "choice_sizes": [], "early_calls": [], "evs": {}}
    events = []
    for s in case["sessions"]:
        kwh = I.num(s["kwh"])
        ev = EV(s["arrival"], s["departure"], kwh, s["st0"], s["id"], Battery(100.0, 0.0, 50.0))
        log["evs"][s["id"]] = ev
        events.append(PluginEvent(s["arrival"], ev))
    net, snap = _make_net(case, log)
    alg = _make_sched(case.get("sched", "gen"))
    sim = Simulator(net, alg, EventQueue(events), START, period=PERIOD, verbose=False)
    desc = _net_desc(net, alg.interface)
    crash = case.get("crash")
    if crash:
        _arm_crash(alg, crash)
    if case.get("seed") is not None:
        _random.seed(case["seed"])
    ctx = _choice_patch(case.get("script"), log) if patch else contextlib.nullcontext()
    extra = {}
    with ctx:
        err = _run_err(sim)
        if crash:
            # what the raise left behind, then run() again on the same object
            extra = {"err1": err, "abort": None if err is None else {
                "iter": int(sim.iteration), "trace_len": len(log["trace"]), "snap": snap(net),
                "energy": {k: float(v.energy_delivered) for k, v in sorted(log["evs"].items())},
                "evse_pilot": [float(e.current_pilot) for e in net._EVSEs.values()]}}
            err = _run_err(sim)
    return {
        **extra,
        "net_desc": desc,
        "err": err,
        "trace": log["trace"],
        "charges": log.get("charges", []),
        "choices": log["choices"], "choice_sizes": log["choice_sizes"],
        "events": [[int(e.timestamp), e.event_type, e.ev.session_id] for e in sim.event_history],
        "ev_history": list(sim.ev_history.keys()),
        "final": snap(net),
        "iterations": int(sim.iteration),
        "delivered": {k: float(v.energy_delivered) for k, v in log["evs"].items()},
        # the whole simulation, for the comparison across processes: registration order, constraint order,
        # pilot and charging-rate matrices (rows in registration order)
        "station_ids": list(net.station_ids),
        "constraints": [str(x) for x in net.constraint_index],
        "pilots": [[float(x) for x in row[:int(sim.iteration)]] for row in sim.pilot_signals],
        "rates": [[float(x) for x in row[:int(sim.iteration)]] for row in sim.charging_rates],
    }


def _run_ops(case):
    log = {"choices": [], "choice_sizes": []}
    evs = {e["id"]: EV(0, 10, 0.0 if e["full"] else 60.0, e["st0"], e["id"], Battery(100.0, 0.0, 50.0))
           for e in case["evs"]}
    net = StochasticNetwork(early_departure=case["early"])
    for sid in case["stations"]:
        net.register_evse(EVSE(sid, max_rate=32), VOLT, 0)

    def snap():
        return {
            "occ": [[sid, (net.get_ev(sid).session_id if net.get_ev(sid) is not None else None)] for sid in net.station_ids],
            "waiting": list(net.waiting_queue.keys()),
            "station_of": [[k, evs[k].station_id] for k in sorted(evs)],
            "swaps": net.swaps, "never_charged": net.never_charged, "early_unplug": net.early_unplug,
        }

    steps = []
    with _choice_patch(case["script"], log):
        for o in case["ops"]:
            err = None
            try:
                if o[0] == "plugin":
                    net.plugin(evs[o[1]])
                elif o[0] == "unplug":
                    net.unplug(evs[o[1]].station_id, o[1])
                elif o[0] == "register":
                    net.register_evse(EVSE(o[1], max_rate=32), VOLT, 0)
                else:
                    net.post_charging_update()
            except Exception as e:  # noqa
                err = I.err_name(e)
            # the network is QUERIED between the calls (what a caller sees as free right now)
            steps.append({"err": err, "snap": snap(), "free": list(net.available_evses()), "draws": len(log["choices"])})
    return {"steps": steps, "choices": log["choices"], "choice_sizes": log["choice_sizes"]}


# ---- the same run in other interpreter processes (one persistent worker per PYTHONHASHSEED) ----

_WORKERS = {}
_XKEYS = ("err", "station_ids", "constraints", "trace", "events", "ev_history", "final", "iterations", "delivered",
          "pilots", "rates")


def _xview(o):
    """what must be identical in every process (JSON-normalised)"""
    return json.loads(json.dumps({k: o.get(k) for k in _XKEYS}))


def _digest(v):
    return hashlib.sha256(json.dumps(v, sort_keys=True).encode()).hexdigest()[:16]


def _worker_main():
    import acnportal
    where = os.path.dirname(os.path.abspath(acnportal.__file__))
    for line in sys.stdin:
        line = line.strip()
        if not line:
            continue
        try:
            case = json.loads(line)
            o = _run_once(case, patch=case.get("script") is not None)
            ans = {"ok": _xview(o), "acnportal": where, "hashseed": os.environ.get("PYTHONHASHSEED")}
        except Exception as e:  # noqa: BLE001
            ans = {"exc": f"{type(e).__name__}: {e}"}
        sys.stdout.write("@@" + json.dumps(ans) + "\n")
        sys.stdout.flush()


def _worker(seed, fresh=False):
    w = _WORKERS.get(seed)
    if w is not None and w.poll() is None and not fresh:
        return w
    if w is not None:
        try:
            w.kill()
        except Exception:  # noqa
            pass
    env = dict(os.environ)
    env["PYTHONHASHSEED"] = str(seed)
    env["ACN_REPO"] = REPO
    code = ("import sys; sys.path.insert(0, %r); sys.path.insert(0, %r); "
            "from props import C19; C19._worker_main()") % (HARNESS, REPO)
    w = subprocess.Popen([sys.executable, "-W", "ignore", "-c", code], stdin=subprocess.PIPE, stdout=subprocess.PIPE,
                         stderr=subprocess.DEVNULL, text=True, env=env, cwd=HARNESS)
    _WORKERS[seed] = w
    return w


@atexit.register
def _stop_workers():
    for w in _WORKERS.values():
        try:
            w.stdin.close()
            w.terminate()
        except Exception:  # noqa
            pass


def _send(w, line):
    try:
        w.stdin.write(line)
        w.stdin.flush()
        return True
    except Exception:  # noqa
        return False


def _recv(w, timeout=180):
    while True:
        try:
            ready, _, _ = select.select([w.stdout], [], [], timeout)
        except Exception:  # noqa
            ready = [w.stdout]
        if not ready:
            return None
        ans = w.stdout.readline()
        if not ans:
            return None
        if ans.startswith("@@"):
            return json.loads(ans[2:])


def _first_difference(a, b):
    for k in _XKEYS:
        x, y = a.get(k), b.get(k)
        if x == y:
            continue
        if k == "trace":
            for i, (p, q) in enumerate(zip(x, y)):
                if p != q:
                    keys = [kk for kk in p if p.get(kk) != q.get(kk)]
                    sn = "snap" if "snap" in keys else keys[0]
                    return f"trace step {i} ({p.get('op')} {p.get('sess', '')}) field {sn}: {json.dumps(p.get(sn))[:400]}  /  {json.dumps(q.get(sn))[:400]}"
            return f"trace length {len(x)} / {len(y)}"
        msg = f"{k}: {json.dumps(x)[:400]}  /  {json.dumps(y)[:400]}"
        # who sits where (keyed by station, so that a mere re-ordering of the rows is told apart)
        for i, (p, q) in enumerate(zip(a.get("trace") or [], b.get("trace") or [])):
            pa, qa = dict(map(tuple, p["snap"]["occ"])), dict(map(tuple, q["snap"]["occ"]))
            if pa != qa or p["snap"]["waiting"] != q["snap"]["waiting"]:
                msg += (f"; first assignment difference at trace step {i} ({p.get('op')} {p.get('sess', '')}): "
                        f"{json.dumps(pa, sort_keys=True)[:300]} waiting {p['snap']['waiting']}  /  "
                        f"{json.dumps(qa, sort_keys=True)[:300]} waiting {q['snap']['waiting']}")
                break
        return msg
    return None


def _cross_process_start(case):
    """hand `case` to the worker processes of case["hashseeds"] (they work while the harness process runs it too)"""
    seeds = list(case["hashseeds"])
    c = {k: v for k, v in case.items() if k != "hashseeds"}
    line = json.dumps(c) + "\n"
    ws = {h: _worker(h) for h in seeds}
    sent = {h: _send(w, line) for h, w in ws.items()}
    return seeds, line, ws, sent


def _cross_process(case, ref, started=None):
    """run `case` in the worker processes of case["hashseeds"]; `ref` is the harness process' own run"""
    seeds, line, ws, sent = started or _cross_process_start(case)
    ans = {}
    for h in seeds:
        a = _recv(ws[h]) if sent[h] else None
        if a is None:        # died or hung: one retry in a fresh process
            w = _worker(h, fresh=True)
            a = _recv(w) if _send(w, line) else None
        ans[h] = a if a is not None else {"exc": "worker process died"}
    here = os.environ.get("PYTHONHASHSEED") or "random"
    views = [(f"harness process (PYTHONHASHSEED={here})", _xview(ref))]
    runs = {}
    for h in seeds:
        a = ans[h]
        if "exc" in a:
            runs[str(h)] = {"exc": a["exc"]}
            continue
        runs[str(h)] = {"digest": _digest(a["ok"]), "acnportal": a["acnportal"], "hashseed": a["hashseed"]}
        views.append((f"PYTHONHASHSEED={h}", a["ok"]))
    # first differing pair, workers (pinned hash seeds) first so that the replay names two concrete seeds
    diff = None
    order = views[1:] + views[:1]
    for i in range(len(order)):
        for j in range(i + 1, len(order)):
            if diff is None and order[i][1] != order[j][1]:
                diff = {"a": order[i][0], "b": order[j][0], "first": _first_difference(order[i][1], order[j][1])}
    return {"seeds": seeds, "ref_digest": _digest(views[0][1]), "runs": runs, "diff": diff,
            "expected_acnportal": os.path.join(os.path.abspath(REPO), "acnportal")}


def run_impl(case):
    if "ops" in case:
        return _run_ops(case)
    started = _cross_process_start(case) if case.get("hashseeds") else None
    try:
        return _run_impl(case, started)
    except BaseException:
        if started is not None:      # keep the request / answer protocol of the workers in step
            for h in started[0]:
                if started[3][h]:
                    _recv(started[2][h])
        raise


def _run_impl(case, started):
    obs = _run_once(case, patch=True)
    if case.get("seed") is not None and case.get("script") is None:
        # reproducibility: the same seed without any patching gives the same run
        again = _run_once(case, patch=False)
        obs["repro"] = all(again[k] == obs[k] for k in _XKEYS)
        ref = again
    else:
        again = _run_once(case, patch=True)
        obs["repro"] = again == {k: v for k, v in obs.items() if k != "repro"}
        ref = obs
    if case.get("hashseeds"):
        # ... and so does the same seed / script in other interpreter processes (different string hashing)
        obs["xproc"] = _cross_process(case, ref, started)
    return obs


# ------------------------------------------------------------------ model

def _horizon(case):
    return max(s["departure"] for s in case["sessions"]) + 1


def _stations(case, obs):
    """registration order of the network (for factory-built networks: as observed on the implementation)"""
    if obs is not None and obs.get("station_ids") is not None:
        return list(obs["station_ids"])
    return list(case["stations"] or [])


def model_request(case, obs):
    if "ops" in case:
        full = [e["id"] for e in case["evs"] if e["full"]]
        return {"mode": "ops", "stations": case["stations"], "early": case["early"],
                "evs": [{"id": e["id"], "st0": e["st0"]} for e in case["evs"]], "choices": obs["choices"],
                "ops": [o if o[0] != "post" else ["post", full] for o in case["ops"]]}
    fulls = [st["full"] for st in obs["trace"] if st["op"] == "post"]
    req = {
        # a factory-built network enters the model with the registration order observed on the implementation
        # (hand-built: the oracle also checks that it is the order of the register_evse calls)
        "stations": _stations(case, obs), "early": case["early"], "periods": _horizon(case),
        "sessions": [{"id": s["id"], "st0": s["st0"], "arrival": s["arrival"], "departure": s["departure"]}
                     for s in case["sessions"]],
        "events": [{"ts": t, "kind": k, "sess": x} for t, k, x in obs["events"]],
        "full": fulls, "choices": obs["choices"],
    }
    if case.get("sched", "gen") in ("gen", "alt", "zero"):
        # composed model with fully_charged COMPUTED from an energy ledger (what the harness' scheduler and
        # the ideal battery do: 32 A * voltage for one period to every plugged-in EV that is not yet full);
        # the package's real algorithms run in the full-simulator model below ("simreal")
        req["ledger"] = {"req": [{"id": s["id"], "kwh": f2b(I.num(s["kwh"]))} for s in case["sessions"]],
                         "per_period": f2b((32.0 * _volt(case)) / 1000 * (PERIOD / 60)), "eps": f2b(1e-3),
                         "mode": case.get("sched", "gen")}
        if case.get("factory") is None:
            # the FULL simulator model on the stochastic network (Acn.SimSt.run, theorem end_to_end_sim): pilot
            # matrix, EVSE rate check, ideal batteries, delivered energies, charging-rate matrix; fully_charged
            # computed from the model's own energies.  Hand-built networks: EVSE(sid, max_rate=32) at VOLT,
            # Battery(100, 0, 50), the harness' scheduler with max_recompute = 1
            req["sim"] = {"V": f2b(VOLT), "period": f2b(PERIOD), "amps": f2b(32.0), "max_rate": f2b(32.0),
                          "mode": case.get("sched", "gen"), "batt": [f2b(100.0), f2b(0.0), f2b(50.0)],
                          "evs": [{"id": s["id"], "kwh": f2b(I.num(s["kwh"]))} for s in case["sessions"]]}
    # the FULL simulator model with the PACKAGE'S OWN algorithm (or the harness' scheduler) as its scheduler, on the
    # network as registered (hand-built or factory-built: EVSE classes, voltages, constraint rows are static inputs):
    # fully_charged, early departures, queue, counters, energies all computed by the model; the only input taken from
    # the run is the stream of random choices.  Also answers crash + second run() cases (phases).
    nd = obs.get("net_desc")
    if nd is not None:
        sched = case.get("sched", "gen")
        req["simreal"] = {
            "stations": [{"id": st["id"], "kind": I.kind_wire(st["kind"]), "V": f2b(st["V"])} for st in nd["stations"]],
            "evs": [I.ev_wire({"session": s["id"], "station": s["st0"] if s["st0"] is not None else "",
                               "arrival": s["arrival"], "departure": s["departure"], "requested": s["kwh"],
                               "batt": {"two": False, "cap": 100.0, "init": 0.0, "maxp": 50.0}}) for s in case["sessions"]],
            "recomputes": [], "max_recompute": 1, "period": f2b(PERIOD), "noise": [],
            "infra": {"M": [[f2b(x) for x in r] for r in nd["M"]], "lims": [f2b(x) for x in nd["lims"]],
                      "cos": [f2b(x) for x in nd["cos"]], "sin": [f2b(x) for x in nd["sin"]]},
            "algo": sched, "amps": f2b(32.0), "inc": f2b(1.0),
            "crash": None if not case.get("crash") else {"t": case["crash"]["t"], "kind": case["crash"]["kind"],
                                                         "amps": f2b(float(case["crash"]["amps"]))}}
    return req


def _cmp_snap(a, m, where, out, draws=None, blank_none=False):
    if blank_none:
        # composed model: a session's pre-assigned station is a string ("" for Python None)
        m = dict(m)
        m["station_of"] = [[x, (None if st == "" else st)] for x, st in m["station_of"]]
    if a["occ"] != m["occ"]:
        out.append(f"{where}: occupancy impl={a['occ']} model={m['occ']}")
    if a["waiting"] != m["waiting"]:
        out.append(f"{where}: waiting impl={a['waiting']} model={m['waiting']}")
    if sorted(map(tuple, a["station_of"]), key=str) != sorted(map(tuple, m["station_of"]), key=str):
        out.append(f"{where}: ev.station_id impl={a['station_of']} model={m['station_of']}")
    for k in ("swaps", "never_charged", "early_unplug"):
        if a[k] != m[k]:
            out.append(f"{where}: {k} impl={a[k]} model={m[k]}")


def compare(case, obs, model):
    out = []
    if "ops" in case:
        for i, (a, m) in enumerate(zip(obs["steps"], model["steps"])):
            if a["err"] != m["err"]:
                out.append(f"op {i} {case['ops'][i]}: error class impl={a['err']} model={m['err']}")
                break
            if a["err"] and case["ops"][i][0] == "post":
                # the loop of post_charging_update raises half way: the implementation keeps the
                # unplugs done so far, the model's Except discards them; the error class is what is compared
                break
            _cmp_snap(a["snap"], m["snap"], f"op {i} {case['ops'][i]}", out)
            if "free" in a and "free" in m and a["free"] != m["free"]:
                out.append(f"op {i} {case['ops'][i]}: available_evses() impl={a['free']} model={m['free']}")
            if out:
                break
        if len(obs["steps"]) != len(model["steps"]):
            out.append("number of steps differs")
        return out
    lr = model.get("loop_simreal")
    if lr is None:
        out.append("the full-simulator model with the real algorithm did not answer")
    else:
        posts_ = [st for st in obs["trace"] if st["op"] == "post"]
        _cmp_sim(obs, lr, obs["trace"], posts_, out, tag="real-algorithm sim loop")
        if lr["ev_history"] != obs["ev_history"] or lr["arrivals"] != obs["ev_history"]:
            out.append(f"real-algorithm sim loop: ev_history impl={obs['ev_history']} model={lr['ev_history']}/{lr['arrivals']}")
        if case.get("crash"):
            _cmp_crash(obs, lr, out)
    if case.get("crash") and obs.get("err") is not None:
        # the run stops for good inside a period (the apply stage raises in both run() calls): the models that do not
        # know about the crash have nothing to say; the phase model above has been compared in full
        return out
    if obs["err"] != model["err"]:
        out.append(f"error impl={obs['err']} model={model['err']}")
    if not model["wf"]:
        out.append("model says the implementation's event history is not a well-formed history of the sessions")
    if model["horizon"] != obs["iterations"] and obs["err"] is None:
        out.append(f"periods simulated impl={obs['iterations']} model horizon={model['horizon']}")
    tr = obs["trace"]
    ms = model["steps"]
    if len(tr) != len(ms):
        out.append(f"number of steps impl={len(tr)} model={len(ms)}")
    for i, (a, m) in enumerate(zip(tr, ms)):
        if (a["op"] == "post") != (m["kind"] == "post"):
            out.append(f"step {i}: kind impl={a['op']} model={m['kind']}")
            break
        _cmp_snap(a["snap"], m["snap"], f"step {i} ({a['op']} {a.get('sess', '')})", out)
        if len(out) > 6:
            break
    _cmp_snap(obs["final"], model["final"], "final", out)
    if model["final"]["draws"] != len(obs["choices"]):
        out.append(f"random.choice calls impl={len(obs['choices'])} model={model['final']['draws']}")
    if model["arrivals"] != obs["ev_history"]:
        out.append(f"ev_history order impl={obs['ev_history']} model={model['arrivals']}")
    # the COMPOSED model (run loop + CPython heap + stochastic network): it computes the processing
    # order itself, so the tie order among equal-key events is compared too
    lp = model["loop"]
    if lp["err"] != obs["err"]:
        out.append(f"composed loop: error impl={obs['err']} model={lp['err']}")
    if [list(e) for e in lp["events"]] != [list(e) for e in obs["events"]]:
        out.append(f"composed loop: event_history impl={obs['events']} model={lp['events']}")
    if lp["ev_history"] != obs["ev_history"] or lp["arrivals"] != obs["ev_history"]:
        out.append(f"composed loop: ev_history impl={obs['ev_history']} model={lp['ev_history']}/{lp['arrivals']}")
    if obs["err"] is None and (lp["iterations"] != obs["iterations"] or not lp["queue_empty"]):
        out.append(f"composed loop: iterations impl={obs['iterations']} model={lp['iterations']} queue_empty={lp['queue_empty']}")
    posts = [st["snap"] for st in tr if st["op"] == "post"]
    if len(posts) != len(lp["periods"]):
        out.append(f"composed loop: periods impl={len(posts)} model={len(lp['periods'])}")
    for t, (a, m) in enumerate(zip(posts, lp["periods"])):
        _cmp_snap(a, m, f"composed loop period {t}", out, blank_none=True)
        if len(out) > 8:
            break
    _cmp_snap(obs["final"], lp["final"], "composed loop final", out, blank_none=True)
    if lp["final"]["draws"] != len(obs["choices"]):
        out.append(f"composed loop: random.choice calls impl={len(obs['choices'])} model={lp['final']['draws']}")
    # ... and with fully_charged computed by the model's own energy ledger (no `full` input at all)
    ll = model.get("loop_ledger")
    if ll is not None:
        if ll["err"] != obs["err"]:
            out.append(f"ledger loop: error impl={obs['err']} model={ll['err']}")
        if [list(e) for e in ll["events"]] != [list(e) for e in obs["events"]]:
            out.append(f"ledger loop: event_history impl={obs['events']} model={ll['events']}")
        if len(posts) != len(ll["periods"]):
            out.append(f"ledger loop: periods impl={len(posts)} model={len(ll['periods'])}")
        for t, (a, m) in enumerate(zip(posts, ll["periods"])):
            _cmp_snap(a, m, f"ledger loop period {t}", out, blank_none=True)
            if len(out) > 8:
                break
        _cmp_snap(obs["final"], ll["final"], "ledger loop final", out, blank_none=True)
        for x, bits in ll["delivered"]:
            if not close(obs["delivered"][x], b2f(bits)):
                out.append(f"ledger loop: energy delivered to {x} impl={obs['delivered'][x]} model={b2f(bits)}")
    # ... and the FULL simulator model (pilots, EVSEs, batteries, energies, rates; fully_charged computed)
    ls = model.get("loop_sim")
    if ls is not None:
        _cmp_sim(obs, ls, tr, posts, out)
    return out


def _cmp_mat(name, a, m, out):
    m = [[b2f(x) for x in row] for row in m]
    if [len(r) for r in a] != [len(r) for r in m]:
        out.append(f"{name} shape impl={[len(r) for r in a]} model={[len(r) for r in m]}")
        return
    for i, (ra, rm) in enumerate(zip(a, m)):
        for t, (x, y) in enumerate(zip(ra, rm)):
            if not close(x, y):
                out.append(f"{name}[station {i}, period {t}] impl={x} model={y}")
                return


def _cmp_crash(obs, lr, out):
    """crash + second run(): error of the first run(), and the state the raise left behind (network snapshot,
    iteration, energies, EVSE pilots)"""
    tag = "crash"
    e1 = (lr["errs"] or [None])[0]
    if e1 != obs.get("err1"):
        out.append(f"{tag}: first run() error impl={obs.get('err1')} model={e1}")
        return
    ab = obs.get("abort")
    if ab is None:
        if lr["aborts"]:
            out.append(f"{tag}: model aborts at {lr['aborts'][0]['iter']}, implementation does not")
        return
    if not lr["aborts"]:
        out.append(f"{tag}: implementation aborts at iteration {ab['iter']}, model does not")
        return
    m = lr["aborts"][0]
    if m["iter"] != ab["iter"]:
        out.append(f"{tag}: iteration at the abort impl={ab['iter']} model={m['iter']}")
    _cmp_snap(ab["snap"], m["state"]["snap"], f"{tag}: state at the abort", out, blank_none=True)
    for x, bits in m["state"]["delivered"]:
        if not close(ab["energy"][x], b2f(bits)):
            out.append(f"{tag}: energy delivered to {x} at the abort impl={ab['energy'][x]} model={b2f(bits)}")
    mp = [b2f(b) for b in m["state"]["evse_pilot"]]
    if len(mp) != len(ab["evse_pilot"]) or not all(close(x, y) for x, y in zip(ab["evse_pilot"], mp)):
        out.append(f"{tag}: EVSE.current_pilot at the abort impl={ab['evse_pilot']} model={mp}")


def _cmp_sim(obs, ls, tr, posts, out, tag="sim loop"):
    n0 = len(out)
    posts = [st["snap"] for st in tr if st["op"] == "post"]
    if ls["err"] != obs["err"]:
        out.append(f"{tag}: error impl={obs['err']} model={ls['err']}")
    if [list(e) for e in ls["events"]] != [list(e) for e in obs["events"]]:
        out.append(f"{tag}: event_history impl={obs['events']} model={ls['events']}")
    if obs["err"] is None and (ls["iterations"] != obs["iterations"] or not ls["queue_empty"]):
        out.append(f"{tag}: iterations impl={obs['iterations']} model={ls['iterations']} queue_empty={ls['queue_empty']}")
    if len(posts) != len(ls["periods"]):
        out.append(f"{tag}: periods impl={len(posts)} model={len(ls['periods'])}")
    post_steps = [st for st in tr if st["op"] == "post"]
    for t, (a, m) in enumerate(zip(post_steps, ls["periods"])):
        _cmp_snap(a["snap"], m["snap"], f"{tag} period {t}", out, blank_none=True)
        for x, bits in m["delivered"]:
            if not close(a["energy"][x], b2f(bits)):
                out.append(f"{tag} period {t}: energy delivered to {x} impl={a['energy'][x]} model={b2f(bits)}")
        mp = [b2f(b) for b in m["evse_pilot"]]
        if len(mp) != len(a["evse_pilot"]) or not all(close(x, y) for x, y in zip(a["evse_pilot"], mp)):
            out.append(f"{tag} period {t}: EVSE.current_pilot impl={a['evse_pilot']} model={mp}")
        if len(out) - n0 > 8:
            return
    _cmp_snap(obs["final"], ls["final"], f"{tag} final", out, blank_none=True)
    if ls["final"]["draws"] != len(obs["choices"]):
        out.append(f"{tag}: random.choice calls impl={len(obs['choices'])} model={ls['final']['draws']}")
    for x, bits in ls["delivered"]:
        if not close(obs["delivered"][x], b2f(bits)):
            out.append(f"{tag}: energy delivered to {x} impl={obs['delivered'][x]} model={b2f(bits)}")
    if obs["err"] is not None and ls["iterations"] != obs["iterations"]:
        out.append(f"{tag}: iteration at the raise impl={obs['iterations']} model={ls['iterations']}")
    _cmp_mat(f"{tag}: pilot_signals", obs["pilots"], ls["pilots"], out)
    _cmp_mat(f"{tag}: charging_rates", obs["rates"], ls["rates"], out)


# ------------------------------------------------------------------ property oracle

def _places(snap):
    on = {}
    dup = []
    for st, x in snap["occ"]:
        if x is not None:
            if x in on:
                dup.append(x)
            on[x] = st
    w = snap["waiting"]
    for x in w:
        if w.count(x) > 1 or x in on:
            dup.append(x)
    return on, w, dup


def oracle(case, obs):
    fails = []
    if "ops" in case and case.get("late"):
        return _oracle_late(case, obs)
    if "ops" in case:
        # outside the property's domain (the protocol is violated on purpose): only the
        # correspondence with the model (state and error class after every call) is checked
        return fails

    def bad(kind, detail):
        if len(fails) < 8:
            fails.append({"kind": kind, "detail": detail})

    sess = {s["id"]: s for s in case["sessions"]}
    crash = case.get("crash")
    injected = None if not crash else ("SchedulerFailed" if crash["kind"] == "raise" else "InvalidRate")
    if crash:
        # the first run() may only stop by the injected failure; after a scheduler failure the second run() completes
        if obs.get("err1") not in (None, injected):
            bad("run_raised", f"first Simulator.run raised {obs.get('err1')} (injected: {injected})")
        if obs["err"] is not None and not (crash["kind"] == "rate" and obs["err"] == injected):
            bad("run_raised", f"second Simulator.run raised {obs['err']} after the injected {injected}")
    elif obs["err"] is not None:
        bad("run_raised", f"Simulator.run raised {obs['err']} on a well-formed history")
    # the history the simulator processed is the protocol: every session plugged at arrival, unplugged at departure
    evs = obs["events"]
    want = sorted([[s["arrival"], "Plugin", s["id"]] for s in case["sessions"]] +
                  [[s["departure"], "Unplug", s["id"]] for s in case["sessions"]])
    if obs["err"] is None and sorted(evs) != want:
        bad("session_not_plugged_and_unplugged_once", f"processed events {evs}")
    prec = {"Unplug": 0, "Plugin": 1, "Recompute": 2}
    if any((a[0], prec[a[1]]) > (b[0], prec[b[1]]) for a, b in zip(evs, evs[1:])):
        bad("events_out_of_order", f"{evs}")
    rank = {x: i for i, x in enumerate(e[2] for e in evs if e[1] == "Plugin")}

    arrived, departed, early_gone = set(), set(), set()
    ever_on = set()
    exp_never = exp_swaps = exp_early = 0
    stations = _stations(case, obs)
    # the network the factory / the register_evse calls built: every station once, none lost or invented
    if len(set(stations)) != len(stations):
        bad("station_registered_twice", f"station_ids={stations}")
    fac = case.get("factory")
    if fac is None and stations != list(case["stations"]):
        bad("registration_order_changed", f"register_evse calls {case['stations']} but station_ids={stations}")
    if fac is not None and fac["kind"] == "simple_acn" and sorted(stations) != sorted(set(fac["ids"])):
        bad("factory_stations_differ", f"simple_acn({fac['ids']}) built station_ids={stations}")
    prev = {"occ": [[st, None] for st in stations], "waiting": []}
    for i, st in enumerate(obs["trace"]):
        snap = st["snap"]
        where = f"step {i} {st['op']} {st.get('sess', '')}"
        p_on, p_w, _ = _places(prev)
        if st["op"] == "plugin":
            arrived.add(st["sess"])
        elif st["op"] == "unplug":
            x = st["sess"]
            if x in p_w:
                exp_never += 1          # departs while still waiting
            if x in early_gone:
                # stale unplug of an EV that already left early: nothing may change
                b = st["before"]
                if any(b[k] != snap[k] for k in ("occ", "waiting", "swaps", "never_charged", "early_unplug")):
                    bad("stale_unplug_changed_state", f"{where}: before={b} after={snap}")
            departed.add(x)
        else:
            # early departures: exactly the fully charged occupants while somebody waits, one swap each
            gone_now = [x for x in p_on if x not in _places(snap)[0] and x not in snap["waiting"]]
            for x in gone_now:
                if not case["early"] or x not in st["full"] or not p_w:
                    bad("session_lost", f"{where}: {x} vanished (early={case['early']}, full={st['full']}, waiting={p_w})")
                early_gone.add(x)
            exp_early += len(gone_now)
            if case["early"]:
                # every fully charged occupant leaves as long as somebody is waiting
                k = min(len(st["full"]), len(p_w))
                if len(gone_now) != k:
                    bad("early_departure_count", f"{where}: {len(gone_now)} left early, expected {k} (full={st['full']}, waiting={p_w})")
        on, w, dup = _places(snap)
        ever_on |= set(on)
        if not snap["waiting_ok"]:
            bad("queue_key_mismatch", f"{where}: waiting_queue key differs from its EV's session id")
        if dup:
            bad("session_in_two_places", f"{where}: {dup} occ={snap['occ']} waiting={w}")
        present = arrived - departed - early_gone
        here = set(on) | set(w)
        if here - present:
            bad("session_present_when_gone", f"{where}: {sorted(here - present)} occ={snap['occ']} waiting={w}")
        if present - here:
            bad("session_lost", f"{where}: {sorted(present - here)} arrived, not departed, nowhere; occ={snap['occ']} waiting={w}")
        if w and any(x is None for _, x in snap["occ"]):
            bad("waiting_while_free", f"{where}: waiting={w} occ={snap['occ']}")
        so = dict(map(tuple, snap["station_of"]))
        for x in w:
            if so[x] is not None:
                bad("waiting_with_station_id", f"{where}: {x} waits but station_id={so[x]}")
        for x, stn in on.items():
            if so[x] != stn:
                bad("station_id_stale", f"{where}: {x} sits on {stn} but station_id={so[x]}")
        for x in present:
            if so[x] is None and x not in w:
                bad("station_none_not_waiting", f"{where}: {x} has station_id None and is not in the queue")
        # FIFO: queue in arrival order; whoever newly got a station arrived before everybody still waiting
        if any(rank.get(a, -1) > rank.get(b, -1) for a, b in zip(w, w[1:])):
            bad("queue_not_in_arrival_order", f"{where}: waiting={w}")
        newly = [x for x in on if p_on.get(x) != on[x]]
        exp_swaps += len([x for x in newly if x in p_w])
        for x in newly:
            for y in w:
                if rank.get(y, 10 ** 9) < rank.get(x, -1):
                    bad("not_fifo", f"{where}: {x} got station {on[x]} while {y} (arrived earlier) still waits")
        prev = snap
    # early departure of satisfied EVs: after every charged period a satisfied EV that holds a station while somebody is
    # waiting must be swapped out before the next period begins (the hook that does it runs right after the charging)
    if case["early"] and obs["err"] is None:
        tr = obs["trace"]
        for c in obs.get("charges", []):
            hooked = c["pos"] < len(tr) and tr[c["pos"]]["op"] == "post"
            if not hooked and c["full"] and c["waiting"]:
                bad("waiting_while_satisfied_ev_holds_station",
                    f"period {c['t']}: {c['waiting']} waiting, {c['full']} satisfied and still holding stations when the next period began "
                    f"(early_departure=True)")
    # crash: what the raise left behind is the network as the failing period's last plugin / unplug call left it
    # (no hook, no counter moved), every session still in exactly one place, nobody waiting next to a free station
    ab = obs.get("abort")
    if crash and ab is not None:
        asnap = ab["snap"]
        last = obs["trace"][ab["trace_len"] - 1]["snap"] if ab["trace_len"] > 0 else None
        if last is not None and any(asnap[k] != last[k] for k in ("occ", "waiting", "station_of", "swaps", "never_charged", "early_unplug")):
            bad("abort_state_differs_from_last_call", f"iteration {ab['iter']}: at the abort {asnap}, after the last network call {last}")
        a_on, a_w, a_dup = _places(asnap)
        if a_dup:
            bad("session_in_two_places", f"at the abort (iteration {ab['iter']}): {a_dup} occ={asnap['occ']} waiting={a_w}")
        if a_w and any(x is None for _, x in asnap["occ"]):
            bad("waiting_while_free", f"at the abort (iteration {ab['iter']}): waiting={a_w} occ={asnap['occ']}")
    fin = obs["final"]
    if obs["err"] is None:
        if any(x is not None for _, x in fin["occ"]) or fin["waiting"]:
            bad("not_all_gone_at_end", f"final occ={fin['occ']} waiting={fin['waiting']}")
        if fin["never_charged"] != exp_never:
            bad("never_charged_miscount", f"counter={fin['never_charged']} independent count={exp_never}")
        if fin["swaps"] != exp_swaps:
            bad("swaps_miscount", f"counter={fin['swaps']} independent count={exp_swaps}")
        if fin["early_unplug"] != exp_early:
            bad("early_unplug_miscount", f"counter={fin['early_unplug']} independent count={exp_early}")
        # an EV that never sat on a station received no energy
        for x, e in obs["delivered"].items():
            if x not in ever_on and e > 0:
                bad("energy_without_station", f"{x} got {e} kWh but never held a station")
    if any(i >= n for i, n in zip(obs["choices"], obs["choice_sizes"])):
        bad("choice_out_of_range", f"{obs['choices']} {obs['choice_sizes']}")
    if not obs["repro"]:
        bad("not_reproducible", "the same seed / script gave a different run")
    # ... in every interpreter process: same case, same random.seed / script, different PYTHONHASHSEED
    xp = obs.get("xproc")
    if case.get("hashseeds") and xp is None:
        bad("cross_process_run_missing", f"hashseeds={case['hashseeds']} but no cross-process observation")
    if xp is not None:
        what = f"random.seed({case.get('seed')})" if case.get("script") is None else f"choice script {case['script']}"
        for h, r in xp["runs"].items():
            if "exc" in r:
                bad("cross_process_worker_failed", f"PYTHONHASHSEED={h}: {r['exc']}")
            elif os.path.abspath(r["acnportal"]) != os.path.abspath(xp["expected_acnportal"]):
                bad("cross_process_worker_wrong_tree", f"PYTHONHASHSEED={h} imported {r['acnportal']}, expected {xp['expected_acnportal']}")
            elif str(r["hashseed"]) != str(h):
                bad("cross_process_worker_failed", f"worker for PYTHONHASHSEED={h} runs with {r['hashseed']}")
        digests = {xp["ref_digest"]} | {r["digest"] for r in xp["runs"].values() if "digest" in r}
        if len(digests) > 1 or xp["diff"] is not None:
            d = xp["diff"] or {}
            bad("not_reproducible_across_processes",
                f"{what}, same case: {d.get('a')} and {d.get('b')} give different runs; first difference: {d.get('first')}")
    return fails


def _oracle_late(case, obs):
    """stations registered while the network is in use (well-formed plugin / unplug protocol): after every call each
    present EV is in exactly one place; an arrival waits only if NO registered station is free - including one
    registered a moment ago - and otherwise gets a station drawn among ALL free ones; a vacated station goes to the
    head of the queue; nobody waits next to a free station (abstaining once a station was registered while somebody
    waited: the code admits nobody on registration)."""
    fails = []

    def bad(kind, detail):
        if len(fails) < 8:
            fails.append({"kind": kind, "detail": detail})

    registered = list(case["stations"])
    prev = {"occ": [[st, None] for st in registered], "waiting": []}
    present, tainted, draws = set(), False, 0
    for i, (o, st) in enumerate(zip(case["ops"], obs["steps"])):
        where = f"op {i} {o}"
        snap = st["snap"]
        if st["err"] is not None:
            bad("run_raised", f"{where} raised {st['err']} on a well-formed protocol")
            break
        p_on, p_w, _ = _places(prev)
        p_free = [s_ for s_, x in prev["occ"] if x is None]
        on, w, dup = _places(snap)
        if o[0] == "register":
            registered.append(o[1])
            if p_w:
                tainted = True
            if [s_ for s_, _ in snap["occ"]] != registered:
                bad("registration_order_changed", f"{where}: station_ids={[s_ for s_, _ in snap['occ']]} expected {registered}")
            if on != p_on or w != p_w:
                bad("registration_moved_an_ev", f"{where}: before occ={prev['occ']} waiting={p_w}; after occ={snap['occ']} waiting={w}")
        elif o[0] == "plugin":
            x = o[1]
            present.add(x)
            if p_free:
                # a free registered station (possibly registered a moment ago): the arrival gets one, drawn among ALL
                if x not in on or on[x] not in p_free:
                    bad("waiting_while_free", f"{where}: {x} did not get one of the free stations {p_free}: occ={snap['occ']} waiting={w}")
                if st["draws"] != draws + 1 or obs["choice_sizes"][draws:draws + 1] != [len(p_free)]:
                    bad("choice_not_among_all_free", f"{where}: free stations {p_free}, random.choice offered "
                                                     f"{obs['choice_sizes'][draws:st['draws']]} candidates")
            else:
                if w != p_w + [x] or on != p_on:
                    bad("arrival_not_enqueued_last", f"{where}: no station free, waiting before={p_w} after={w} occ={snap['occ']}")
            draws = st["draws"]
        elif o[0] == "unplug":
            x = o[1]
            present.discard(x)
            if x in p_w:
                if on != p_on or w != [y for y in p_w if y != x]:
                    bad("queue_departure_moved_others", f"{where}: before occ={prev['occ']} waiting={p_w}; after occ={snap['occ']} waiting={w}")
            elif x in p_on:
                exp_on = {k: v for k, v in p_on.items() if k != x}
                exp_w = list(p_w)
                if exp_w:
                    exp_on[exp_w.pop(0)] = p_on[x]
                if on != exp_on or w != exp_w:
                    bad("not_fifo", f"{where}: {x} vacated {p_on[x]} with waiting={p_w}; after occ={snap['occ']} waiting={w}")
        if dup:
            bad("session_in_two_places", f"{where}: {dup} occ={snap['occ']} waiting={w}")
        here = set(on) | set(w)
        if here != present:
            bad("session_lost" if present - here else "session_present_when_gone",
                f"{where}: present={sorted(present)} occ={snap['occ']} waiting={w}")
        free_now = [s_ for s_, x in snap["occ"] if x is None]
        if st.get("free") is not None and list(st["free"]) != free_now:
            bad("available_evses_stale", f"{where}: available_evses()={st['free']} but the vacant registered stations are {free_now}")
        if w and free_now and not tainted:
            bad("waiting_while_free", f"{where}: waiting={w} occ={snap['occ']}")
        prev = snap
    return fails


def _max_overlap(case):
    best = 0
    for t in range(_horizon(case)):
        best = max(best, len([s for s in case["sessions"] if s["arrival"] <= t < s["departure"]]))
    return best


def nontrivial(case, obs):
    if "ops" in case and case.get("late"):
        return any(st["snap"]["waiting"] for st in obs["steps"])
    if "ops" in case:
        return any(st["err"] for st in obs["steps"])
    return any(st["snap"]["waiting"] for st in obs["trace"])


def features(case, obs):
    if "ops" in case and case.get("late"):
        out = {"stream:ops_late_registration"}
        reg_seen, late_ids = False, set()
        prev_w = []
        for o, st in zip(case["ops"], obs["steps"]):
            if o[0] == "register":
                late_ids.add(o[1])
                out.add("late:register_while_waiting" if prev_w else "late:register_while_nobody_waits")
                if not case["stations"] and len(late_ids) == 1:
                    out.add("late:network_used_before_first_station" if reg_seen else "late:first_station")
            else:
                reg_seen = True
                if o[0] == "plugin":
                    on = {x: s_ for s_, x in st["snap"]["occ"] if x is not None}
                    if on.get(o[1]) in late_ids:
                        out.add("late:arrival_takes_late_station")
                    if o[1] in st["snap"]["waiting"]:
                        out.add("late:arrival_waits")
            prev_w = st["snap"]["waiting"]
        return sorted(out | {"ops_err:" + st["err"] for st in obs["steps"] if st["err"]})
    if "ops" in case:
        return sorted({"stream:ops"} | {"ops_err:" + st["err"] for st in obs["steps"] if st["err"]}
                      | {"ops_waiting" for st in obs["steps"] if st["snap"]["waiting"]})
    stations = _stations(case, obs)
    reg = {s["id"] for s in case["sessions"] if s["st0"] in stations}
    out = [f"stations:{len(stations) if len(stations) <= 8 else '>8'}", f"sessions:{min(len(case['sessions']), 12)}",
           f"early:{case['early']}", "choices:" + ("seed" if case.get("script") is None else "script"),
           "sched:" + case.get("sched", "gen")]
    fac = case.get("factory")
    out.append("network:" + (fac["kind"] if fac else "hand_built"))
    if fac:
        out.append("evse:" + (fac.get("evse_type") or ("BASIC" if fac.get("basic") else "site_types")))
        if fac.get("cap") in (5, 10, 20):
            out.append("tight_cap")
    xp = obs.get("xproc")
    if xp is not None:
        out.append(f"cross_process:{len(xp['runs'])}_workers")
        if len(stations) >= 2 and any(n > 1 for n in obs["choice_sizes"]):
            out.append("cross_process:choice_among>=2")
    if any(len({x for x in row}) > 2 for row in obs.get("rates", [])):
        out.append("rates_vary")
    if _max_overlap(case) > len(stations):
        out.append("more_sessions_than_stations")
    fin = obs["final"]
    if fin["never_charged"]:
        out.append("never_charged>0")
    if fin["swaps"]:
        out.append("swaps>0")
    if fin["early_unplug"]:
        out.append("early_unplug>0")
    if any(n > 1 for n in obs["choice_sizes"]):
        out.append("choice_among>=2")
    ts = {}
    for t, k, _ in obs["events"]:
        ts.setdefault(t, set()).add(k)
    if any(len(v) > 1 for v in ts.values()):
        out.append("unplug_and_plugin_same_period")
    early_gone = set()
    prev_w = []
    for st in obs["trace"]:
        if st["op"] == "post" and st["early_calls"]:
            early_gone |= {c[1] for c in st["early_calls"]}
        if st["op"] == "unplug":
            if st["sess"] in prev_w and st["sess"] in reg:
                out.append("registered_st0_departs_while_waiting")
            if st["sess"] in early_gone:
                out.append("stale_unplug")
            if st["sess"] in prev_w and prev_w.index(st["sess"]) > 0:
                out.append("leaves_middle_of_queue")
            if st["before"] and st["sess"] in [x for _, x in st["before"]["occ"]] and st["before"]["swaps"] > 0:
                pass
        prev_w = st["snap"]["waiting"]
    if obs["err"]:
        out.append("err:" + obs["err"])
    if obs.get("net_desc") is not None:
        out.append("full_sim_model:" + ("real_algorithm" if case.get("sched", "gen") in REAL_ALGOS else "harness_scheduler")
                   + (":factory" if fac else ":hand_built"))
    cr = case.get("crash")
    if cr:
        out.append("crash:" + cr["kind"] + (":fired" if obs.get("err1") else ":not_reached"))
        ab = obs.get("abort")
        if ab and ab["snap"]["waiting"]:
            out.append("crash:somebody_waiting_at_the_abort")
        if obs.get("err1") and obs["err"] is None:
            out.append("crash:second_run_completed")
    # idle charged periods (aggregate current 0) in which the hook nevertheless had work to do
    for c in obs.get("charges", []):
        t = c["t"]
        if c["full"] and c["waiting"] and all((row[t] if t < len(row) else 0.0) == 0.0 for row in obs.get("rates", [])):
            out.append("idle_period_with_satisfied_and_waiting")
            break
    return sorted(set(out))


def _pinned_pair(case):
    """the cross-process failure shows between two worker processes with PINNED hash seeds (replayable)"""
    obs = run_impl(case)
    d = (obs.get("xproc") or {}).get("diff") or {}
    return (any(f["kind"] == "not_reproducible_across_processes" for f in oracle(case, obs))
            and str(d.get("a", "")).startswith("PYTHONHASHSEED=") and str(d.get("b", "")).startswith("PYTHONHASHSEED="))


def shrink(case, kind):
    """drop sessions while the same oracle failure kind persists"""
    if "ops" in case:
        return case
    if kind == "not_reproducible_across_processes":
        # keep a replay that names two pinned hash seeds (the harness process' own seed is random):
        # widen to the whole pool if necessary, then drop sessions while two pinned processes still differ
        cur = case
        if not _pinned_pair(cur):
            wide = dict(cur)
            wide["hashseeds"] = list(HASHSEEDS)
            if not _pinned_pair(wide):
                return case
            cur = wide
        changed = True
        while changed and len(cur["sessions"]) > 1:
            changed = False
            for i in range(len(cur["sessions"])):
                cand = dict(cur)
                cand["sessions"] = cur["sessions"][:i] + cur["sessions"][i + 1:]
                try:
                    if _pinned_pair(cand):
                        cur = cand
                        changed = True
                        break
                except Exception:  # noqa
                    pass
        return cur
    cur = case
    changed = True
    while changed and len(cur["sessions"]) > 1:
        changed = False
        for i in range(len(cur["sessions"])):
            cand = dict(cur)
            cand["sessions"] = cur["sessions"][:i] + cur["sessions"][i + 1:]
            try:
                if any(f["kind"] == kind for f in oracle(cand, run_impl(cand))):
                    cur = cand
                    changed = True
                    break
            except Exception:
                pass
    return cur
