"""C04 — applied pilots are exactly what the submitted schedules say.

Three kinds of case:
  direct : a real Simulator whose `_update_schedules` is called with a sequence of schedules at chosen
           `_iteration` values while the event queue is set to chosen contents (so `get_last_timestamp()`
           varies, incl. empty queue); `pilot_signals` / exception class after every call.
  run    : a whole `Simulator.run()` with a scripted multi-period scheduler; per period the pilots the
           EVSEs received (`current_pilot`, read in `post_charging_update` of a ChargingNetwork subclass),
           column t of `pilot_signals` at that moment, the final matrix, the exception ending the run.
  exh    : a slice of the exhaustive small-scope enumeration of direct scenarios (thorough tier).
"""
from __future__ import annotations

import itertools
import json
from datetime import datetime

import numpy as np

from core.common import f2b, b2f, close
from core import impl as I

ID = "C04"
LEAN_MODULES = ["AcnProofs.C04"]
DRIVER = "drv_C04"
REQUIRED_THEOREMS = [
    "Acn.C04.increaseWidth_get", "Acn.C04.increaseWidth_preserves", "Acn.C04.writeBlock_get",
    "Acn.C04.empty_noop", "Acn.C04.wf_preserved", "Acn.C04.reject_unchanged",
    "Acn.C04.accepts_beyond_horizon", "Acn.C04.densify_perm", "Acn.C04.updateSchedules_perm",
    "Acn.C04.pilotAt_latest", "Acn.C04.pilotAt_uncovered", "Acn.C04.overlay_refines",
    "Acn.C04.overlay_refines_from", "Acn.C04.applied_eq_spec", "Acn.C04.run_no_indexError",
]
BUDGET = {"quick": 700, "thorough": 6000, "search": 4000}
TRUSTED = ["numpy slice assignment / np.array densification / float conversion of int and numpy values "
           "(modelled as list surgery on exact doubles)",
           "dict iteration order = insertion order (the model takes the association list in that order; "
           "independence of the order is a theorem and is also tested on the implementation)",
           "the feasibility warning in _update_schedules has no effect on state (exercised with infeasible "
           "schedules, not modelled)"]
ASSUMPTIONS = ["schedule rows are 1-D sequences of numbers (nested / scalar rows raise numpy or TypeError "
               "errors outside the property)",
               "pilot_signals has one row per registered station (stations registered before the Simulator is built)"]
RULE = ("direct: 1-3 stations (registration order not sorted), start queue empty or not, 1-7 submissions at "
        "non-decreasing (10 %: arbitrary) iterations with the queue reset before each (lastTs none / behind / "
        "beyond the block), schedules over any subset of stations, lengths 0-6, int/float/numpy rows, empty "
        "dicts, unknown-station and ragged dicts (and both), infeasible schedules under an aggregate limit; "
        "run: 1-3 stations, 0-4 non-overlapping sessions, extra recompute events, max_recompute in "
        "{None,1,2,3}, a script giving every period a schedule (len 1-6, any subset, empty, beyond the "
        "horizon, in the last period), occasionally malformed or invalid for the EVSE; exh (thorough): every "
        "sequence of <=3 submissions over 2 stations, t<=3 non-decreasing, len<=3 (plus empty / ragged / unknown-station dicts), lastTs in {none,4} (per submission for <=2 submissions, per sequence for 3), start width in {1,5}. "
        "non-trivial = an accepted submission overwrites part of an earlier accepted one, or the matrix has to "
        "grow, or a submission is rejected; distinct by hash of the case")

STATION_POOL = ["S2", "S1", "ca-10", "S0"]


# ------------------------------------------------------------------ rows / schedules

def _row(spec):
    """spec: {"c": list|tuple|array|npscalar|intarray, "v": [numbers]} -> the Python object handed over."""
    c, v = spec["c"], spec["v"]
    if c == "tuple":
        return tuple(v)
    if c == "array":
        return np.array(v, dtype=float)
    if c == "intarray":
        return np.array([int(x) for x in v], dtype=np.int64)
    if c == "npscalar":
        return [np.float64(x) for x in v]
    return list(v)


def _vals(spec):
    if spec["c"] == "intarray":
        return [float(int(x)) for x in spec["v"]]
    return [float(x) for x in spec["v"]]


def _sched_obj(pairs):
    return {st: _row(r) for st, r in pairs}


def _sched_wire(pairs):
    return [[st, [f2b(x) for x in _vals(r)]] for st, r in pairs]


def _accepted(stations, pairs):
    """independent restatement: non-empty, only registered stations, all rows equally long"""
    if len(pairs) == 0:
        return False
    if any(st not in stations for st, _ in pairs):
        return False
    return len({len(r["v"]) for _, r in pairs}) == 1


def _expected_error(stations, pairs):
    if len(pairs) == 0:
        return None
    if any(st not in stations for st, _ in pairs):
        return "KeyError"
    if len({len(r["v"]) for _, r in pairs}) > 1:
        return "InvalidSchedule"
    return None


def pilot_at(stations, subs, st, tau):
    """C04's specification, written independently of the model: `subs` = [(t, pairs)] in submission
    order; value of the LATEST accepted submission with t <= tau < t + len, 0 for an omitted station,
    0 when nothing covers tau."""
    for t, pairs in reversed(subs):
        if not _accepted(stations, pairs):
            continue
        n = len(pairs[0][1]["v"])
        if t <= tau < t + n:
            for s2, r in pairs:
                if s2 == st:
                    return _vals(r)[tau - t]
            return 0.0
    return 0.0


# ------------------------------------------------------------------ implementation objects

def _network(stations, limit, maxrate=None, cls=None):
    from acnportal.acnsim.network import ChargingNetwork, Current
    from acnportal.acnsim.models import EVSE
    net = (cls or ChargingNetwork)()
    for s in stations:
        net.register_evse(EVSE(s, max_rate=(1e9 if maxrate is None else maxrate)), 208, 0)
    if limit is not None:
        net.add_constraint(Current(list(stations)), limit, name="agg")
    return net


def _queue(ts_list):
    from acnportal.acnsim.events import EventQueue, Event
    q = EventQueue()
    if ts_list:
        q.add_events([Event(int(t)) for t in ts_list])
    return q


def _mat(a):
    return [[float(x) for x in row] for row in a]


# ------------------------------------------------------------------ direct mode

class _DirectSim:
    """one real Simulator, reusable for many scenarios over the same network"""

    def __init__(self, stations, limit, start_queue):
        from acnportal.acnsim import Simulator
        from acnportal.algorithms import BaseAlgorithm
        self.stations = list(stations)
        self.net = _network(stations, limit)
        self.sim = Simulator(self.net, BaseAlgorithm(), _queue(start_queue), datetime(2020, 1, 1), verbose=False)
        self.width0 = int(self.sim.pilot_signals.shape[1])
        self.order_ok = list(self.net.station_ids) == self.stations

    def reset(self):
        self.sim.pilot_signals = np.zeros((len(self.stations), self.width0))
        self.sim._iteration = 0

    def op(self, o, full=True):
        sim = self.sim
        sim._iteration = int(o["t"])
        sim.event_queue = _queue(o["queue"])
        before = sim.pilot_signals.copy()
        rates_before = sim.charging_rates.shape
        pairs = o["sched"]
        # the same dict with its entries in reversed insertion order, on a scratch copy of the matrix
        perm_same = True
        if len(pairs) > 1:
            sim.pilot_signals = before.copy()
            e2 = None
            try:
                sim._update_schedules(_sched_obj(list(reversed(pairs))))
            except Exception as e:  # noqa
                e2 = I.err_name(e)
            alt = (e2, sim.pilot_signals.copy())
            sim.pilot_signals = before.copy()
        err = None
        try:
            sim._update_schedules(_sched_obj(pairs))
        except Exception as e:  # noqa
            err = I.err_name(e)
        after = sim.pilot_signals
        if len(pairs) > 1:
            perm_same = alt[0] == err and alt[1].shape == after.shape and bool(np.array_equal(alt[1], after))
        unchanged = after.shape == before.shape and bool(np.array_equal(after, before))
        other_state = (sim.charging_rates.shape == rates_before and sim._iteration == int(o["t"])
                       and len(sim.event_queue._queue) == len(o["queue"]))
        st = {"err": err, "unchanged": unchanged, "perm_same": perm_same, "other_state_same": other_state,
              "lastTs": sim.event_queue.get_last_timestamp()}
        if full:
            st["rows"] = _mat(after)
        return st


def _run_direct(case):
    d = _DirectSim(case["stations"], case.get("limit"), case.get("start_queue", []))
    steps = [d.op(o) for o in case["ops"]]
    return {"width0": d.width0, "order_ok": d.order_ok, "steps": steps}


def _req_direct(case, width0, brief=False):
    ops = []
    for o in case["ops"]:
        q = o["queue"]
        ops.append({"op": "submit", "t": int(o["t"]), "lastTs": (max(q) if q else None), "sched": _sched_wire(o["sched"])})
    r = {"stations": case["stations"], "width": width0, "ops": ops}
    if brief:
        r["brief"] = True
    return r


def _cmp_rows(rows, mstep, where, out):
    mrows = [[b2f(x) for x in r] for r in mstep["rows"]]
    if len(rows) != len(mrows) or any(len(a) != len(b) for a, b in zip(rows, mrows)):
        out.append(f"{where}: shape impl={len(rows)}x{len(rows[0]) if rows else 0} model={len(mrows)}x{mstep['width']}")
        return
    for i, (a, b) in enumerate(zip(rows, mrows)):
        for j, (x, y) in enumerate(zip(a, b)):
            if not close(x, y):
                out.append(f"{where}: cell[{i}][{j}] impl={x!r} model={y!r}")
                return
    # the executable specification agrees with the executable model
    if mstep["spec"] != mstep["rows"]:
        out.append(f"{where}: model matrix differs from Lean pilotAt (refinement theorem violated?!)")


def _cmp_direct(case, obs, model, out, tag=""):
    for k, (a, m) in enumerate(zip(obs["steps"], model["steps"])):
        if a["err"] != m["err"]:
            out.append(f"{tag}op {k}: err impl={a['err']} model={m['err']}")
            return
        if "rows" in a and "rows" in m:
            _cmp_rows(a["rows"], m, f"{tag}op {k}", out)


def _oracle_direct(case, obs, fails, tag=""):
    stations = case["stations"]
    if not obs.get("order_ok", True):
        fails.append({"kind": "station_order_not_registration_order", "detail": tag})
    subs = []
    for k, (o, st) in enumerate(zip(case["ops"], obs["steps"])):
        pairs = o["sched"]
        subs.append((int(o["t"]), pairs))
        exp = _expected_error(stations, pairs)
        where = f"{tag}op {k} (t={o['t']}, lastTs={max(o['queue']) if o['queue'] else None})"
        if exp is None and st["err"] is not None:
            kind = "accepted_schedule_raised"
            if st["err"] == "TypeError" and not o["queue"]:
                kind = "last_period_schedule_typeerror"
            fails.append({"kind": kind, "detail": f"{where}: well-formed schedule raised {st['err']}"})
            return
        if exp is not None and st["err"] != exp:
            fails.append({"kind": "wrong_error_class", "detail": f"{where}: expected {exp}, got {st['err']}"})
        if (exp is not None or len(pairs) == 0) and not st["unchanged"]:
            fails.append({"kind": "rejected_schedule_changed_state",
                          "detail": f"{where}: pilot_signals changed by a rejected / empty schedule"})
        if not st["other_state_same"]:
            fails.append({"kind": "update_schedules_touched_other_state", "detail": where})
        if not st["perm_same"]:
            fails.append({"kind": "dict_order_matters", "detail": f"{where}: reversed dict gives a different outcome"})
        if "rows" in st:
            rows = st["rows"]
            w = len(rows[0]) if rows else None
            if exp is None and len(pairs) > 0 and rows and w < int(o["t"]) + len(pairs[0][1]["v"]):
                fails.append({"kind": "matrix_too_narrow", "detail": f"{where}: width {w}"})
            bad = _first_diff(stations, subs, rows)
            if bad:
                fails.append({"kind": "pilot_signal_differs_from_spec", "detail": f"{where}: {bad}"})
                return


def _first_diff(stations, subs, rows):
    for i, s in enumerate(stations):
        for tau, x in enumerate(rows[i]):
            e = pilot_at(stations, subs, s, tau)
            if x != e:
                return f"pilot_signals[{s}][{tau}] = {x!r}, the schedules say {e!r}"
    return None


# ------------------------------------------------------------------ exhaustive small scope

EXH_STATIONS = ["B", "A"]
_EXH_SHAPES = ([("empty", 0)] + [("A", n) for n in (1, 2, 3)] + [("B", n) for n in (1, 2, 3)]
               + [("AB", n) for n in (1, 2, 3)] + [("ragged", 0), ("unknown", 0)])
_EXH_LAST = [None, 4]
_EXH_TS = [ts for n in (1, 2, 3) for ts in itertools.combinations_with_replacement(range(4), n)]


def _exh_groups():
    """(start_queue, ts, choices per submission): 1-2 submissions get every lastTs combination, 3 submissions
    one lastTs for the whole sequence (none or 4)"""
    full = [(sh, n, l) for (sh, n) in _EXH_SHAPES for l in _EXH_LAST]
    out = []
    for w0 in ([], [4]):
        for ts in _EXH_TS:
            if len(ts) < 3:
                out.append((w0, ts, [full] * len(ts)))
            else:
                for l in _EXH_LAST:
                    out.append((w0, ts, [[(sh, n, l) for (sh, n) in _EXH_SHAPES]] * 3))
    return out


_EXH_GROUPS = _exh_groups()


def _group_size(g):
    n = 1
    for ch in g[2]:
        n *= len(ch)
    return n


_EXH_OFFS = list(itertools.accumulate([0] + [_group_size(g) for g in _EXH_GROUPS]))


def _exh_total():
    return _EXH_OFFS[-1]


def _exh_sched(shape, n, k):
    base = 10 * (k + 1)

    def row(off, m):
        return {"c": "list", "v": [base + off + j for j in range(m)]}
    if shape == "empty":
        return []
    if shape == "A":
        return [["A", row(0, n)]]
    if shape == "B":
        return [["B", row(5, n)]]
    if shape == "AB":
        return [["A", row(0, n)], ["B", row(5, n)]]
    if shape == "ragged":
        return [["A", row(0, 1)], ["B", row(5, 2)]]
    return [["A", row(0, 1)], ["Z", row(5, 1)]]


def _exh_scenario(idx):
    """scenario number `idx` of the enumeration (mixed-radix decoding)"""
    import bisect
    gi = bisect.bisect_right(_EXH_OFFS, idx) - 1
    w0, ts, choices = _EXH_GROUPS[gi]
    r = idx - _EXH_OFFS[gi]
    ops = []
    for k in reversed(range(len(ts))):
        ch = choices[k]
        sh, n, l = ch[r % len(ch)]
        r //= len(ch)
        ops.append({"t": ts[k], "queue": ([] if l is None else [l]), "sched": _exh_sched(sh, n, k)})
    ops.reverse()
    return {"mode": "direct", "stations": EXH_STATIONS, "limit": None, "start_queue": w0, "ops": ops}


_SLICE_CACHE = {}


def _exh_slice(lo, hi):
    if (lo, hi) not in _SLICE_CACHE:
        _SLICE_CACHE.clear()
        _SLICE_CACHE[(lo, hi)] = [_exh_scenario(i) for i in range(lo, hi)]
    return _SLICE_CACHE[(lo, hi)]


def _run_exh(case):
    sims = {}
    res = []
    for sc in _exh_slice(case["lo"], case["hi"]):
        key = tuple(sc["start_queue"])
        if key not in sims:
            sims[key] = _DirectSim(sc["stations"], None, sc["start_queue"])
        d = sims[key]
        d.reset()
        n = len(sc["ops"])
        steps = [d.op(o, full=(k == n - 1)) for k, o in enumerate(sc["ops"])]
        res.append({"width0": d.width0, "order_ok": d.order_ok, "steps": steps})
    return {"n": len(res), "res": res}


# ------------------------------------------------------------------ run mode

def _run_run(case):
    from acnportal.acnsim import Simulator
    from acnportal.acnsim.network import ChargingNetwork
    from acnportal.acnsim.events import EventQueue, PluginEvent, RecomputeEvent
    from acnportal.acnsim.models import EV, Battery
    from acnportal.algorithms import BaseAlgorithm

    stations = case["stations"]
    script = case["script"]

    class Net(ChargingNetwork):
        def post_charging_update(self):
            sim = self._sim
            t = sim.iteration
            w = sim.pilot_signals.shape[1]
            self.log.append({
                "t": int(t), "lastTs": sim.event_queue.get_last_timestamp(), "width": int(w),
                "applied": [float(self._EVSEs[s].current_pilot) for s in self.station_ids],
                "col": [float(x) for x in sim.pilot_signals[:, t]] if t < w else None,
            })

    class Script(BaseAlgorithm):
        def __init__(self, max_recompute):
            super().__init__()
            self.max_recompute = max_recompute
            self.calls = []

        def schedule(self, active_sessions):  # not used: run() is overridden
            return {}

        def run(self):
            sim = self.interface._simulator
            t = int(sim.iteration)
            pairs = script.get(str(t), [])
            self.calls.append({"t": t, "lastTs": sim.event_queue.get_last_timestamp(), "sched": pairs,
                               "before": _mat(sim.pilot_signals)})
            return _sched_obj(pairs)

    net = _network(stations, case.get("limit"), maxrate=case.get("maxrate"), cls=Net)
    net.log = []
    evs = []
    for s in case["sessions"]:
        evs.append(PluginEvent(s["arrival"], EV(s["arrival"], s["departure"], 50, s["station"], s["session"],
                                                 Battery(100, 0, 100))))
    evs += [RecomputeEvent(int(t)) for t in case.get("recompute", [])]
    sched = Script(case.get("max_recompute"))
    sim = Simulator(net, sched, EventQueue(evs), datetime(2020, 1, 1), verbose=False)
    net._sim = sim
    width0 = int(sim.pilot_signals.shape[1])
    err = None
    try:
        sim.run()
    except Exception as e:  # noqa
        err = I.err_name(e)
    return {"width0": width0, "order_ok": list(net.station_ids) == list(stations), "err": err,
            "iteration": int(sim.iteration), "log": net.log, "calls": sched.calls,
            "final": _mat(sim.pilot_signals), "rates_w": int(sim.charging_rates.shape[1])}


def _run_ops(obs):
    """the periods of the observed run as model operations"""
    calls = {c["t"]: c for c in obs["calls"]}
    ops = []
    logged = set()
    for e in obs["log"]:
        c = calls.get(e["t"])
        logged.add(e["t"])
        ops.append({"op": "period", "t": e["t"], "lastTs": e["lastTs"],
                    "sched": _sched_wire(c["sched"]) if c is not None else None})
    # the period in which the run died (if any): the scheduler may have been called in it
    for t, c in sorted(calls.items()):
        if t not in logged:
            ops.append({"op": "submit", "t": t, "lastTs": c["lastTs"], "sched": _sched_wire(c["sched"])})
            if obs["err"] == "InvalidRate":
                ops.append({"op": "grow", "t": t, "lastTs": c["lastTs"]})
    if not calls or max(calls) in logged:
        if obs["err"] == "InvalidRate":
            # died in update_pilots of a period without scheduler call: growth had happened
            t = obs["iteration"]
            last = obs["log"][-1]["lastTs"] if obs["log"] else None
            ops.append({"op": "grow", "t": t, "lastTs": last, "approx": True})
    return ops


def _req_run(case, obs):
    ops = _run_ops(obs)
    if not ops:
        return None
    return {"stations": case["stations"], "width": obs["width0"], "ops": ops}


def _cmp_run(case, obs, model, out):
    ops = _run_ops(obs)
    steps = model["steps"]
    for k, (o, m) in enumerate(zip(ops, steps)):
        if o["op"] == "period":
            e = obs["log"][k]
            if m["err"] is not None:
                out.append(f"period {e['t']}: model raises {m['err']}, implementation went on")
                return
            if m["width"] != e["width"]:
                out.append(f"period {e['t']}: width impl={e['width']} model={m['width']}")
            col = [b2f(x) for x in m["col"]]
            if len(col) != len(e["applied"]) or not all(close(a, b) for a, b in zip(e["applied"], col)):
                out.append(f"period {e['t']}: applied pilots impl={e['applied']} model={col}")
            if e["col"] is None or not all(close(a, b) for a, b in zip(e["col"], col)):
                out.append(f"period {e['t']}: pilot_signals column impl={e['col']} model={col}")
        elif o["op"] == "submit":
            exp = m["err"]
            if exp is not None and obs["err"] != exp:
                out.append(f"period {o['t']}: model raises {exp}, implementation {obs['err']}")
            if exp is None and obs["err"] in ("KeyError", "InvalidSchedule", "TypeError"):
                out.append(f"period {o['t']}: implementation raises {obs['err']}, model accepts")
    if steps and not any(o.get("approx") for o in ops):
        _cmp_rows(obs["final"], steps[-1], "final matrix", out)
    elif steps:
        last = steps[-1]
        mrows = [[b2f(x) for x in r] for r in last["rows"]]
        for i, (a, b) in enumerate(zip(obs["final"], mrows)):
            n = min(len(a), len(b))
            if not all(close(x, y) for x, y in zip(a[:n], b[:n])) or any(x != 0 for x in a[n:]) or any(y != 0 for y in b[n:]):
                out.append(f"final matrix row {i}: impl={a} model={b}")


def _oracle_run(case, obs, fails):
    stations = case["stations"]
    if not obs["order_ok"]:
        fails.append({"kind": "station_order_not_registration_order", "detail": ""})
    calls = obs["calls"]
    # periods are simulated once each, in order
    ts = [e["t"] for e in obs["log"]]
    if ts != list(range(len(ts))):
        fails.append({"kind": "periods_not_consecutive", "detail": str(ts)})
        return
    # the error that ended the run
    err = obs["err"]
    last_call = calls[-1] if calls else None
    logged = set(ts)
    died_in_call = last_call is not None and last_call["t"] not in logged
    exp_err = _expected_error(stations, last_call["sched"]) if died_in_call else None
    maxrate = case.get("maxrate")
    if err in ("KeyError", "InvalidSchedule"):
        if exp_err != err:
            fails.append({"kind": "wrong_error_class", "detail": f"run ended with {err}; the last schedule "
                          f"{last_call and last_call['sched']} calls for {exp_err}"})
        elif obs["final"] != last_call["before"]:
            fails.append({"kind": "rejected_schedule_changed_state",
                          "detail": f"period {last_call['t']}: pilot_signals differ from what they were when the "
                                    f"scheduler was called"})
    elif err == "InvalidRate":
        t = obs["iteration"]
        subs = [(c["t"], c["sched"]) for c in calls]
        sent = [pilot_at(stations, subs, s, t) for s in stations]
        if maxrate is None or all(-1e-3 - 1e-9 <= p <= maxrate + 1e-3 + 1e-9 for p in sent):
            fails.append({"kind": "valid_pilot_refused", "detail": f"period {t}: pilots {sent} raised InvalidRate"})
    elif err is not None:
        kind = "accepted_schedule_raised"
        if err == "TypeError" and died_in_call and last_call["lastTs"] is None and exp_err is None:
            kind = "last_period_schedule_typeerror"
        fails.append({"kind": kind, "detail": f"run ended with {err} in period {obs['iteration']}; last scheduler "
                      f"call {None if last_call is None else {k: last_call[k] for k in ('t', 'lastTs', 'sched')}}"})
        return
    else:
        for c in calls:
            e = _expected_error(stations, c["sched"])
            if e is not None:
                fails.append({"kind": "malformed_schedule_accepted", "detail": f"period {c['t']}: {c['sched']} should raise {e}"})
    # what the EVSEs received and what was recorded, period by period
    subs = []
    ci = 0
    for e in obs["log"]:
        while ci < len(calls) and calls[ci]["t"] <= e["t"]:
            subs.append((calls[ci]["t"], calls[ci]["sched"]))
            ci += 1
        want = [pilot_at(stations, subs, s, e["t"]) for s in stations]
        if e["applied"] != want:
            fails.append({"kind": "applied_pilot_differs_from_spec",
                          "detail": f"period {e['t']}: EVSEs received {e['applied']}, the schedules say {want}"})
            return
        if e["col"] != want:
            fails.append({"kind": "pilot_signal_differs_from_spec",
                          "detail": f"period {e['t']}: pilot_signals[:, t] = {e['col']}, the schedules say {want}"})
            return
    allsubs = [(c["t"], c["sched"]) for c in calls]
    bad = _first_diff(stations, allsubs, obs["final"])
    if bad:
        fails.append({"kind": "pilot_signal_differs_from_spec", "detail": f"after the run: {bad}"})
    w = len(obs["final"][0]) if obs["final"] else None
    for t, pairs in allsubs:
        if _accepted(stations, pairs) and w is not None and w < t + len(pairs[0][1]["v"]):
            fails.append({"kind": "matrix_too_narrow", "detail": f"width {w} after a schedule of length "
                          f"{len(pairs[0][1]['v'])} at {t}"})


# ------------------------------------------------------------------ generation

_NICE = [0, 0, 6, 8, 16, 32, 13, 24, 7.5, 6.25, 0.1 + 0.2, 31.999, 1e-3, 48, 64, 1e6]


def _gen_row(rng, n, nonneg=True, vmax=None):
    c = rng.choice(["list", "list", "list", "tuple", "array", "npscalar", "intarray"])
    v = []
    for _ in range(n):
        r = rng.random()
        if r < 0.5:
            x = rng.choice(_NICE)
        elif r < 0.8:
            x = rng.randint(0, 40)
        else:
            x = round(rng.uniform(0, 40), rng.choice([1, 3, 12]))
        if not nonneg and rng.random() < 0.1:
            x = -x
        if vmax is not None:
            x = min(x, vmax)
        if c == "intarray":
            x = int(x)
        v.append(x)
    return {"c": c, "v": v}


def _gen_sched(rng, stations, maxlen=6, nonneg=True, p_bad=0.12, p_empty=0.1, allow_len0=False, vmax=None):
    r = rng.random()
    if r < p_empty:
        return []
    n = rng.choice([1, 1, 2, 3, 3, 4, 5, 6][:max(1, min(8, maxlen + 2))])
    n = min(n, maxlen)
    if allow_len0 and rng.random() < 0.04:
        n = 0
    k = rng.randint(1, len(stations))
    chosen = rng.sample(stations, k)
    pairs = [[s, _gen_row(rng, n, nonneg, vmax)] for s in chosen]
    if r < p_empty + p_bad:
        kind = rng.choice(["unknown", "ragged", "both", "unknown_first", "ragged_single_empty"])
        if kind in ("unknown", "both"):
            pairs.insert(rng.randint(0, len(pairs)), [rng.choice(["Z9", "s1", "S1 ", ""]), _gen_row(rng, n, nonneg, vmax)])
        if kind == "unknown_first":
            pairs.insert(0, ["nope", _gen_row(rng, n, nonneg, vmax)])
        if kind in ("ragged", "both", "ragged_single_empty"):
            if len(pairs) == 1:
                others = [s for s in stations if s != pairs[0][0]]
                if others:
                    pairs.append([others[0], _gen_row(rng, n, nonneg, vmax)])
            j = rng.randrange(len(pairs))
            m = 0 if kind == "ragged_single_empty" else rng.choice([x for x in (n - 1, n + 1, n + 2) if x >= 0])
            pairs[j][1] = _gen_row(rng, m, nonneg, vmax)
    return pairs


def _gen_direct(rng):
    ns = rng.choice([1, 2, 2, 3])
    stations = rng.sample(STATION_POOL, ns)
    horizon = rng.choice([0, 1, 3, 5, 8, 12])
    start_queue = [] if rng.random() < 0.3 else sorted(rng.sample(range(0, horizon + 1), min(horizon + 1, rng.randint(1, 3))))
    limit = rng.choice([None, None, None, 20, 5])
    ops = []
    t = 0
    arbitrary = rng.random() < 0.1
    for _ in range(rng.randint(1, 7)):
        if arbitrary:
            t = rng.randint(0, horizon + 3)
        else:
            t += rng.choice([0, 0, 1, 1, 1, 2, 3])
        pairs = _gen_sched(rng, stations, nonneg=False, allow_len0=True)
        n = len(pairs[0][1]["v"]) if pairs else 1
        r = rng.random()
        if r < 0.3:
            q = []
        elif r < 0.5:
            q = [t + n - 1 + rng.choice([-1, 0, 1])]          # lastTs+1 around t+len
        elif r < 0.7:
            q = [max(t, horizon), t + 1]
        elif r < 0.8:
            q = [max(0, t - 2)]                               # behind the clock (not reachable in run())
        else:
            q = [t + n + rng.randint(1, 6), t]
        q = [x for x in q if x >= 0]
        ops.append({"t": t, "queue": q, "sched": pairs})
    return {"mode": "direct", "stations": stations, "limit": limit, "start_queue": start_queue, "ops": ops}


def _gen_run(rng):
    ns = rng.choice([1, 2, 2, 3])
    stations = rng.sample(STATION_POOL, ns)
    sessions = []
    k = 0
    horizon = 0
    for s in stations:
        t = rng.choice([0, 0, 1, 2])
        for _ in range(rng.choice([0, 1, 1, 2])):
            a = t + rng.choice([0, 0, 1, 2])
            d = a + rng.choice([1, 1, 2, 3, 5])
            sessions.append({"station": s, "arrival": a, "departure": d, "session": f"x{k}"})
            k += 1
            t = d + rng.choice([0, 0, 1])
            horizon = max(horizon, d)
    if not sessions and rng.random() < 0.8:
        sessions.append({"station": stations[0], "arrival": 0, "departure": rng.choice([1, 3, 6]), "session": "x0"})
        horizon = sessions[0]["departure"]
    recompute = sorted(set(rng.randint(0, horizon + 1) for _ in range(rng.choice([0, 0, 1, 2, 3]))))
    horizon = max([horizon] + recompute)
    max_recompute = rng.choice([None, None, 1, 1, 2, 3])
    r = rng.random()
    maxrate = None
    p_bad = 0.0
    if r < 0.12:
        p_bad = 0.15           # a malformed schedule somewhere: the run ends with its exception
    elif r < 0.2:
        maxrate = 32           # pilots above the EVSE's range: InvalidRateError path
    script = {}
    for t in range(horizon + 2):
        if rng.random() < 0.85:
            script[str(t)] = _gen_sched(rng, stations, nonneg=True, p_bad=p_bad, p_empty=0.12,
                                        vmax=(40 if maxrate else None))
    limit = rng.choice([None, None, None, 30, 5])
    return {"mode": "run", "stations": stations, "limit": limit, "maxrate": maxrate, "sessions": sessions,
            "recompute": recompute, "max_recompute": max_recompute, "script": script}


def _r(v):
    return {"c": "list", "v": v}


def corpus():
    return [
        # (the F2 scenarios live in harness/corpus/C04/f2_last_period_*.json)
        # overlay: later, shorter schedule omitting a station inside an earlier longer one
        {"mode": "direct", "stations": ["B", "A"], "limit": None, "start_queue": [9],
         "ops": [{"t": 0, "queue": [9], "sched": [["A", _r([1, 2, 3, 4, 5, 6])], ["B", _r([7, 8, 9, 10, 11, 12])]]},
                 {"t": 2, "queue": [9], "sched": [["B", {"c": "array", "v": [20.5, 21]}]]},
                 {"t": 2, "queue": [9], "sched": []},
                 {"t": 3, "queue": [9], "sched": [["A", _r([1])], ["Q", _r([1])]]},
                 {"t": 3, "queue": [9], "sched": [["A", _r([1])], ["B", _r([1, 2])]]},
                 {"t": 8, "queue": [9], "sched": [["A", {"c": "tuple", "v": [3, 4, 5, 6]}]]}]},
        # infeasible schedule only warns; every period rescheduled; last period reaches beyond the horizon
        {"mode": "run", "stations": ["S1", "S0"], "limit": 5, "maxrate": None,
         "sessions": [{"station": "S1", "arrival": 0, "departure": 3, "session": "a"},
                      {"station": "S0", "arrival": 1, "departure": 4, "session": "b"}], "recompute": [2],
         "max_recompute": 1,
         "script": {"0": [["S1", _r([30, 31, 32, 33, 34, 35])]], "1": [["S0", _r([6])]], "2": [],
                    "3": [["S0", _r([9, 9])], ["S1", _r([1, 1])]], "4": [["S1", _r([2, 2, 2, 2])]]}},
    ]


def _exh_cases():
    total = _exh_total()
    step = 2500
    return [{"mode": "exh", "lo": lo, "hi": min(total, lo + step)} for lo in range(0, total, step)]


def generate(rng, n, tier):
    out = []
    for i in range(n):
        out.append(_gen_run(rng) if i % 5 in (1, 3) else _gen_direct(rng))
    if tier == "thorough":
        out.extend(_exh_cases())
    return out


# ------------------------------------------------------------------ interface for check.py

def run_impl(case):
    if case["mode"] == "direct":
        return _run_direct(case)
    if case["mode"] == "exh":
        return _run_exh(case)
    return _run_run(case)


def model_request(case, obs):
    if case["mode"] == "direct":
        return _req_direct(case, obs["width0"])
    if case["mode"] == "exh":
        return {"batch": [_req_direct(sc, o["width0"], brief=True)
                          for sc, o in zip(_exh_slice(case["lo"], case["hi"]), obs["res"])]}
    return _req_run(case, obs)


def compare(case, obs, model):
    out = []
    if case["mode"] == "direct":
        _cmp_direct(case, obs, model, out)
    elif case["mode"] == "exh":
        for k, (sc, o, m) in enumerate(zip(_exh_slice(case["lo"], case["hi"]), obs["res"], model["batch"])):
            _cmp_direct(sc, o, m, out, tag=f"scenario {case['lo'] + k}: ")
            if len(out) > 3:
                break
    else:
        _cmp_run(case, obs, model, out)
    return out


def oracle(case, obs):
    fails = []
    if case["mode"] == "direct":
        _oracle_direct(case, obs, fails)
    elif case["mode"] == "exh":
        for k, (sc, o) in enumerate(zip(_exh_slice(case["lo"], case["hi"]), obs["res"])):
            _oracle_direct(sc, o, fails, tag=f"scenario {case['lo'] + k}: ")
            if fails:
                break
    else:
        _oracle_run(case, obs, fails)
    return fails


def shrink(case, kind):
    """an exhaustive slice shrinks to its first failing scenario; a direct case to its shortest failing prefix
    with single operations dropped"""
    if case["mode"] == "exh":
        for sc in _exh_slice(case["lo"], case["hi"]):
            if any(f["kind"] == kind for f in oracle(sc, run_impl(sc))):
                return shrink(sc, kind)
        return case
    if case["mode"] == "direct":
        cur = case
        changed = True
        while changed and len(cur["ops"]) > 1:
            changed = False
            for i in range(len(cur["ops"])):
                cand = dict(cur, ops=cur["ops"][:i] + cur["ops"][i + 1:])
                if any(f["kind"] == kind for f in oracle(cand, run_impl(cand))):
                    cur = cand
                    changed = True
                    break
        return cur
    if case["mode"] == "run":
        cur = case
        for key in sorted(case["script"], key=int):
            cand = dict(cur, script={k: v for k, v in cur["script"].items() if k != key})
            try:
                if any(f["kind"] == kind for f in oracle(cand, run_impl(cand))):
                    cur = cand
            except Exception:
                pass
        return cur
    return case


def _direct_feats(case, obs, out):
    stations = case["stations"]
    acc = []
    width = obs["width0"]
    for o, st in zip(case["ops"], obs["steps"]):
        pairs = o["sched"]
        out.append("lastTs:" + ("none" if not o["queue"] else "some"))
        if st["err"]:
            out.append("err:" + st["err"])
            continue
        if not pairs:
            out.append("sched:empty")
            continue
        n = len(pairs[0][1]["v"])
        out.append(f"len:{min(n, 6)}")
        out.append("stations:" + ("all" if len(pairs) == len(stations) else "subset"))
        for _, r in pairs:
            out.append("row:" + r["c"])
        t = int(o["t"])
        if t + n > width:
            out.append("grow")
            if not o["queue"]:
                out.append("grow_with_empty_queue")
            elif max(o["queue"]) + 1 > t + n:
                out.append("grow_to_lastTs")
            width = max(width, t + n, (max(o["queue"]) + 1) if o["queue"] else 0)
        if any(a < t + n and t < a + m for a, m in acc):
            out.append("overwrites_earlier")
        acc.append((t, n))


def features(case, obs):
    out = ["mode:" + case["mode"]]
    if case["mode"] == "direct":
        if case.get("limit") is not None:
            out.append("constrained_network")
        _direct_feats(case, obs, out)
    elif case["mode"] == "exh":
        out.append(f"exh_scenarios:{obs['n']}")
    else:
        out.append("max_recompute:" + str(case.get("max_recompute")))
        out.append("run_err:" + str(obs["err"]))
        out.append(f"periods:{min(len(obs['log']), 12)}")
        out.append(f"calls:{min(len(obs['calls']), 12)}")
        for c in obs["calls"]:
            if c["lastTs"] is None:
                out.append("call_with_empty_queue")
                if c["sched"] and _accepted(case["stations"], c["sched"]) and len(c["sched"][0][1]["v"]) > 1:
                    out.append("last_period_multi_period_schedule")
            if not c["sched"]:
                out.append("sched:empty")
            elif _accepted(case["stations"], c["sched"]):
                out.append(f"len:{min(len(c['sched'][0][1]['v']), 6)}")
                out.append("stations:" + ("all" if len(c["sched"]) == len(case["stations"]) else "subset"))
        if obs["final"] and len(obs["final"][0]) > obs["width0"]:
            out.append("grow")
        if any(e["applied"] != [0.0] * len(e["applied"]) for e in obs["log"]):
            out.append("nonzero_pilots_applied")
    return out


def nontrivial(case, obs):
    if case["mode"] == "exh":
        return True
    f = features(case, obs)
    return any(x in f for x in ("overwrites_earlier", "grow")) or any(x.startswith("err:") or
                                                                      (x.startswith("run_err:") and x != "run_err:None") for x in f) \
        or (case["mode"] == "run" and len(obs["calls"]) >= 2)
