"""C04 — applied pilots are exactly what the submitted schedules say.

Four kinds of case:
  direct : a real Simulator whose `_update_schedules` is called with a sequence of schedules at chosen
           `_iteration` values while the event queue is set to chosen contents (so `get_last_timestamp()`
           varies, incl. empty queue); `pilot_signals` / exception class after every call.
  run    : a whole `Simulator.run()` with a scripted multi-period scheduler; per period the pilots the
           EVSEs received (`current_pilot`, read in `post_charging_update` of a ChargingNetwork subclass),
           column t of `pilot_signals` at that moment, the final matrix, the exception ending the run.
  step   : the same simulations driven through `Simulator.step(schedule)`.
  exh    : a slice of the exhaustive small-scope enumeration of direct scenarios (thorough tier).
Every kind but exh may contain steps that are NOT submissions — `Simulator.from_json(sim.to_json())` (the restored
object replaces the live one) and `update_scheduler` — before use, in the middle of run(), between legs of a run,
between step() calls, between direct submissions (`_do_actions`); every observation is made PER STATION ID against
the station list of the case (ground truth), never by position or by what the (restored) object says its order is.
"""
from __future__ import annotations

import io
import itertools
import json
import os
import tempfile
import warnings
from datetime import datetime

import numpy as np

from core.common import f2b, b2f, close
from core import impl as I

from acnportal.acnsim.network.charging_network import ChargingNetwork as _ChargingNetwork

ID = "C04"
LEAN_MODULES = ["AcnProofs.C04"]
DRIVER = "drv_C04"
REQUIRED_THEOREMS = [
    "Acn.C04.increaseWidth_get", "Acn.C04.increaseWidth_preserves", "Acn.C04.writeBlock_get",
    "Acn.C04.empty_noop", "Acn.C04.wf_preserved", "Acn.C04.reject_unchanged",
    "Acn.C04.accepts_beyond_horizon", "Acn.C04.densify_perm", "Acn.C04.updateSchedules_perm",
    "Acn.C04.pilotAt_latest", "Acn.C04.pilotAt_uncovered", "Acn.C04.overlay_refines",
    "Acn.C04.overlay_refines_from", "Acn.C04.applied_eq_spec", "Acn.C04.run_no_indexError",
    "Acn.C04.runPeriods_eq_runTrips", "Acn.C04.trips_applied_eq_spec", "Acn.C04.step_applied_eq_spec",
    "Acn.C04.step_no_indexError", "Acn.C04.last_applied_eq_column", "Acn.C04.last_applied_eq_spec",
    "Acn.C04.reject_keeps_scheduling_state",
    "Acn.C04.restore_roundtrip", "Acn.C04.hist_eq_trips", "Acn.C04.hist_applied_eq_spec",
]
BUDGET = {"quick": 700, "thorough": 6000, "search": 4000}
TRUSTED = ["numpy slice assignment / np.array densification / float conversion of int and numpy values "
           "(modelled as list surgery on exact doubles)",
           "dict iteration order = insertion order (the model takes the association list in that order; "
           "independence of the order is a theorem and is also tested on the implementation)",
           "the feasibility warning in _update_schedules has no effect on state (exercised with infeasible "
           "schedules, not modelled)",
           "json.dump(s) without sort_keys writes the members of a dict in insertion order and json.load(s) restores "
           "them in document order; ndarray.tolist() / np.array(list of equally long float rows) is the identity on "
           "values and shape (the model's restore step: rows as a nested list, key order unchanged); both are "
           "exercised on the implementation in every restore step and judged per station ID"]
ASSUMPTIONS = ["schedule rows are 1-D sequences of numbers (nested / scalar rows raise numpy or TypeError "
               "errors outside the property)",
               "pilot_signals has one row per registered station (stations registered before the Simulator is built)",
               "the network has at least one station (a Simulator over a station-less network does not survive "
               "to_json / from_json: np.array([]) is 1-D — theorem restore_roundtrip needs 0 < n; not generated)",
               "the steps of a history other than loop trips are Simulator.from_json(sim.to_json()) (string, buffer, "
               "file; the restored object replaces the live one) and update_scheduler; pilot_signals is not assigned "
               "to from outside; to_json needs a scheduler object, so step()-driven simulations that are saved are "
               "built with a BaseAlgorithm that step() never asks"]
RULE = ("direct: 1-3 stations (registration order not sorted), start queue empty or not, 1-7 submissions at "
        "non-decreasing (10 %: arbitrary) iterations with the queue reset before each (lastTs none / behind / "
        "beyond the block), schedules over any subset of stations, lengths 0-6, int/float/numpy rows, empty "
        "dicts, unknown-station and ragged dicts (and both), infeasible schedules under an aggregate limit; "
        "run: 1-3 stations, 0-4 non-overlapping sessions, extra recompute events, max_recompute in "
        "{None,1,2,3}, a script giving every period a schedule (len 1-6, any subset, empty, beyond the "
        "horizon, in the last period), occasionally malformed or invalid for the EVSE, the recording scheduler "
        "also reads Interface.last_applied_pilot_signals, the simulator reaches it through the real "
        "BaseAlgorithm.run() (only schedule() is overridden), 35 % of the runs use max_recompute=k with schedules "
        "longer than k followed by empty / shorter ones (periods covered only by an old tail), 20 % contain "
        "malformed schedules and 3/4 of those catch the error and call run() again (retry schedules per "
        "period; _resolve, _last_schedule_update, schedule_history compared before/after the rejection); step: the same scenarios driven through "
        "Simulator.step() with 1-10 calls, max_recompute in {None,1,2,3,5}; rows of every kind (list, tuple, "
        "float64/float32/int64/int32 arrays, numpy float/int scalars, 0-d arrays, mixed, length-1 array, "
        "integers beyond 2^53); exh (thorough): every "
        "sequence of <=3 submissions over 2 stations, t<=3 non-decreasing, len<=3 (plus empty / ragged / unknown-station dicts), lastTs in {none,4} independently per submission, start width in {1,5}: 564,672 scenarios. "
        "HISTORIES WITH STEPS THAT ARE NOT SUBMISSIONS (about half of the run cases, 45 % of the step cases, 30 % of "
        "the direct cases; model: AcnModel/PilotsHist.lean, driver op `mark`): Simulator.from_json(sim.to_json()) "
        "through a string, a StringIO buffer or a file, followed by update_scheduler with the same scheduler object, "
        "a new one (run: possibly another max_recompute) or (step/direct) none at all, and bare update_scheduler "
        "(same / new object), 1-2 of them at a time — before use (also ChargingNetwork.from_json(net.to_json()) "
        "before the Simulator is built), in the MIDDLE of run() (the scripted scheduler hands control back at 1-3 "
        "chosen periods, the harness acts and calls run() again; also after a rejected schedule before run() is "
        "called again), BETWEEN LEGS (the queue has run dry, actions, new "
        "sessions / recompute events at later periods, run() again; 1-2 further legs), between step() calls and "
        "between direct submissions; combined with everything above (multi-period tails, empty / shorter follow-up "
        "schedules, rejected schedules and resumes).  Station ids are registered in random (mostly NON-sorted) "
        "order and everything is observed PER STATION ID against the case's own station list (never the restored "
        "object's): the EVSE object registered under s, pilot_signals[index_of_evse(s)], the column labelled s of "
        "pilot_signals_as_df(); after every such step the whole matrix is compared per ID with the spec of the "
        "submissions made so far and with the model's matrix after its own restore / swap step. "
        "non-trivial = an accepted submission overwrites part of an earlier accepted one, or the matrix has to "
        "grow, or a submission is rejected; distinct by hash of the case")

STATION_POOL = ["S2", "S1", "ca-10", "S0"]


# ------------------------------------------------------------------ rows / schedules

INT_KINDS = ("intarray", "npint", "int32array")


def _row(spec):
    """spec: {"c": kind, "v": [numbers]} -> the Python object handed over as a row of the schedule."""
    c, v = spec["c"], spec["v"]
    if c == "tuple":
        return tuple(v)
    if c in ("array", "len1array"):
        return np.array(v, dtype=float)
    if c == "intarray":
        return np.array([int(x) for x in v], dtype=np.int64)
    if c == "int32array":
        return np.array([int(x) for x in v], dtype=np.int32)
    if c == "float32array":
        return np.array(v, dtype=np.float32)
    if c == "npscalar":
        return [np.float64(x) for x in v]
    if c == "npint":
        return [np.int64(int(x)) for x in v]
    if c == "zerod":
        return [np.array(float(x)) for x in v]           # nested 0-d arrays
    if c == "mixed":
        conv = (lambda x: int(x), float, np.float64, lambda x: np.int32(int(x)))
        return [conv[j % 4](x) for j, x in enumerate(v)]
    return list(v)


def _vals(spec):
    """the doubles the row stands for, computed without numpy's array machinery"""
    c, v = spec["c"], spec["v"]
    if c in INT_KINDS:
        return [float(int(x)) for x in v]
    if c == "float32array":
        import struct
        return [struct.unpack("<f", struct.pack("<f", float(x)))[0] for x in v]
    if c == "mixed":
        return [float(int(x)) if j % 4 in (0, 3) else float(x) for j, x in enumerate(v)]
    return [float(x) for x in v]


def _sched_obj(pairs):
    return {st: _row(r) for st, r in pairs}


def _sched_wire(pairs):
    return [[st, [f2b(x) for x in _vals(r)]] for st, r in pairs]


def _accepted(stations, pairs):
    """independent restatement: non-empty, only registered stations, all rows equally long"""
    if len(pairs) == 0:
        return False
    if any(st not in stations for st, _ in pairs):
        return False
    return len({len(r["v"]) for _, r in pairs}) == 1


def _expected_error(stations, pairs):
    if len(pairs) == 0:
        return None
    if any(st not in stations for st, _ in pairs):
        return "KeyError"
    if len({len(r["v"]) for _, r in pairs}) > 1:
        return "InvalidSchedule"
    return None


def pilot_at(stations, subs, st, tau):
    """C04's specification, written independently of the model: `subs` = [(t, pairs)] in submission
    order; value of the LATEST accepted submission with t <= tau < t + len, 0 for an omitted station,
    0 when nothing covers tau."""
    for t, pairs in reversed(subs):
        if not _accepted(stations, pairs):
            continue
        n = len(pairs[0][1]["v"])
        if t <= tau < t + n:
            for s2, r in pairs:
                if s2 == st:
                    return _vals(r)[tau - t]
            return 0.0
    return 0.0


# ------------------------------------------------------------------ implementation objects

def _network(stations, limit, maxrate=None, cls=None):
    from acnportal.acnsim.network import ChargingNetwork, Current
    from acnportal.acnsim.models import EVSE
    net = (cls or ChargingNetwork)()
    for s in stations:
        net.register_evse(EVSE(s, max_rate=(1e9 if maxrate is None else maxrate)), 208, 0)
    if limit is not None:
        net.add_constraint(Current(list(stations)), limit, name="agg")
    return net


def _queue(ts_list):
    from acnportal.acnsim.events import EventQueue, Event
    q = EventQueue()
    if ts_list:
        q.add_events([Event(int(t)) for t in ts_list])
    return q


def _mat(a):
    return [[float(x) for x in row] for row in a]


# ------------------------------------------------------------------ observation per station ID; save / restore / swap

# the simulator the logging network belongs to at the moment, the log it writes to, the station ids of the
# CASE (ground truth: the order in which the harness registered them — never read back from the object)
_CUR = {"sim": None, "log": None, "stations": None}


class _Pause(Exception):
    """raised by the scripted scheduler to hand control back to the harness in the middle of run()"""


class LogNet(_ChargingNetwork):
    """ChargingNetwork whose public extension point records, per station ID, what every EVSE received in this
    period and what the simulator recorded for it.  Module-level and without instance attributes, so that
    to_json / from_json treat it exactly like the plain class (from_json locates `props.C04.LogNet`)."""

    def post_charging_update(self):
        sim, log, stations = _CUR["sim"], _CUR["log"], _CUR["stations"]
        if sim is None or sim.network is not self:
            return
        t = sim.iteration
        w = sim.pilot_signals.shape[1]
        log.append({
            "t": int(t), "lastTs": sim.event_queue.get_last_timestamp(), "width": int(w),
            # by ID: the EVSE object registered under s; the row the public index_of_evse(s) names
            "applied": [float(self._EVSEs[s].current_pilot) for s in stations],
            "col": [float(sim.pilot_signals[sim.index_of_evse(s), t]) for s in stations] if t < w else None,
        })


def _rows_by_id(sim, stations):
    """pilot_signals, one row per station of the CASE in the case's order, located through index_of_evse"""
    return [[float(x) for x in sim.pilot_signals[sim.index_of_evse(s)]] for s in stations]


def _df_by_id(sim, stations):
    """the same through pilot_signals_as_df(): the column labelled s"""
    try:
        df = sim.pilot_signals_as_df()
        return [[float(x) for x in np.asarray(df[s].values, dtype=float).ravel()] for s in stations]
    except Exception as e:  # noqa
        return "raised " + I.err_name(e)


def _json_roundtrip(sim, via):
    from acnportal.acnsim import Simulator
    with warnings.catch_warnings():
        warnings.simplefilter("ignore")
        if via == "buf":
            b = io.StringIO()
            sim.to_json(b)
            b.seek(0)
            return Simulator.from_json(b)
        if via == "file":
            with tempfile.TemporaryDirectory(prefix="c04_") as d:
                path = os.path.join(d, "sim.json")
                sim.to_json(path)
                return Simulator.from_json(path)
        return Simulator.from_json(sim.to_json())


def _net_roundtrip(net, via):
    with warnings.catch_warnings():
        warnings.simplefilter("ignore")
        if via == "buf":
            b = io.StringIO()
            net.to_json(b)
            b.seek(0)
            return type(net).from_json(b)
        return type(net).from_json(net.to_json())


def _do_actions(ctx, actions, marks, extra=None):
    """steps that are NOT schedule submissions, performed between uses of a simulation:
      {"a":"json","via":"str"|"buf"|"file","sched":"same"|"new"|"none"[,"mr":k|None]}
            sim = Simulator.from_json(sim.to_json()) [+ update_scheduler]
      {"a":"swap","sched":"same"|"new"[,"mr":k|None]}          sim.update_scheduler(...)
    ctx = {"sim", "sched", "new_sched"(mr) -> scheduler object, "stations", "calls", "log"}.
    After every action a `mark` holds pilot_signals per station ID (index_of_evse and pilot_signals_as_df)."""
    for a in actions:
        sim = ctx["sim"]
        if a["a"] == "json":
            sim = _json_roundtrip(sim, a.get("via", "str"))
            ctx["sim"] = sim
            _CUR["sim"] = sim
        which = a.get("sched", "same")
        if which != "none":
            if which == "new":
                mr = a["mr"] if "mr" in a else ctx["sched"].max_recompute
                ctx["sched"] = ctx["new_sched"](mr)
            sim.update_scheduler(ctx["sched"])
        m = {"a": a["a"], "via": a.get("via"), "sched": which, "t": int(sim.iteration),
             "ncalls": len(ctx["calls"]), "nlog": len(ctx["log"]), "width": int(sim.pilot_signals.shape[1]),
             "order": list(sim.network.station_ids), "max_recompute": sim.max_recompute,
             "pending": bool(np.any(sim.pilot_signals[:, int(sim.iteration):] != 0)),
             "rows": _rows_by_id(sim, ctx["stations"]), "df": _df_by_id(sim, ctx["stations"])}
        if extra:
            m.update(extra)
        marks.append(m)


def _mark_op(m, i):
    return {"op": "mark", "kind": ("restore" if m["a"] == "json" else "swap"), "t": m["t"], "lastTs": None, "_mi": i}


def _oracle_marks(stations, marks, subs_upto, fails, tag=""):
    """after a restore / swap (no submission) every cell, read per station ID, is still what the schedules
    submitted SO FAR say; `subs_upto(mark)` = those submissions"""
    for i, m in enumerate(marks):
        what = (f"{tag}after {'Simulator.from_json(to_json()) via ' + str(m['via']) if m['a'] == 'json' else 'update_scheduler'}"
                f" (scheduler: {m['sched']}) at iteration {m['t']}")
        subs = subs_upto(m)
        for name, rows in (("pilot_signals[index_of_evse]", m["rows"]), ("pilot_signals_as_df()", m["df"])):
            if isinstance(rows, str):
                fails.append({"kind": "pilot_signals_unreadable_after_restore", "detail": f"{what}: {name} {rows}"})
                return
            bad = _first_diff(stations, subs, rows)
            if bad:
                kind = "pilot_signal_differs_from_spec_after_restore" if m["a"] == "json" else \
                    "pilot_signal_differs_from_spec_after_update_scheduler"
                fails.append({"kind": kind, "detail": f"{what}: {name}: {bad} (station_ids now {m['order']})"})
                return


# ------------------------------------------------------------------ direct mode

class _DirectSim:
    """one real Simulator, reusable for many scenarios over the same network"""

    def __init__(self, stations, limit, start_queue):
        from acnportal.acnsim import Simulator
        from acnportal.algorithms import BaseAlgorithm
        self.stations = list(stations)
        self.net = _network(stations, limit)
        self.sim = Simulator(self.net, BaseAlgorithm(), _queue(start_queue), datetime(2020, 1, 1), verbose=False)
        self.width0 = int(self.sim.pilot_signals.shape[1])
        self.marks = []
        self.nops = 0

    @property
    def order_ok(self):
        return list(self.sim.network.station_ids) == self.stations

    def reset(self):
        self.sim.pilot_signals = np.zeros((len(self.stations), self.width0))
        self.sim._iteration = 0

    def _new_sched(self, mr):
        from acnportal.algorithms import BaseAlgorithm
        a = BaseAlgorithm()
        a.max_recompute = mr
        return a

    def op(self, o, full=True):
        if o.get("pre"):
            # save / restore / scheduler swap between two submissions (the restored object replaces the live one)
            ctx = {"sim": self.sim, "sched": self.sim.scheduler, "new_sched": self._new_sched,
                   "stations": self.stations, "calls": [None] * self.nops, "log": []}
            _do_actions(ctx, o["pre"], self.marks)
            self.sim = ctx["sim"]
            self.net = self.sim.network
        self.nops += 1
        sim = self.sim
        sim._iteration = int(o["t"])
        sim.event_queue = _queue(o["queue"])
        before = sim.pilot_signals.copy()
        rates_before = sim.charging_rates.shape
        pairs = o["sched"]
        # the same dict with its entries in reversed insertion order, on a scratch copy of the matrix
        perm_same = True
        if len(pairs) > 1:
            sim.pilot_signals = before.copy()
            e2 = None
            try:
                sim._update_schedules(_sched_obj(list(reversed(pairs))))
            except Exception as e:  # noqa
                e2 = I.err_name(e)
            alt = (e2, sim.pilot_signals.copy())
            sim.pilot_signals = before.copy()
        err = None
        try:
            sim._update_schedules(_sched_obj(pairs))
        except Exception as e:  # noqa
            err = I.err_name(e)
        after = sim.pilot_signals
        if len(pairs) > 1:
            perm_same = alt[0] == err and alt[1].shape == after.shape and bool(np.array_equal(alt[1], after))
        unchanged = after.shape == before.shape and bool(np.array_equal(after, before))
        other_state = (sim.charging_rates.shape == rates_before and sim._iteration == int(o["t"])
                       and len(sim.event_queue._queue) == len(o["queue"]))
        st = {"err": err, "unchanged": unchanged, "perm_same": perm_same, "other_state_same": other_state,
              "lastTs": sim.event_queue.get_last_timestamp()}
        if full:
            st["rows"] = _rows_by_id(sim, self.stations)      # per station ID, in the case's order
        return st


def _run_direct(case):
    d = _DirectSim(case["stations"], case.get("limit"), case.get("start_queue", []))
    steps = [d.op(o) for o in case["ops"]]
    return {"width0": d.width0, "order_ok": d.order_ok, "steps": steps, "marks": d.marks}


def _req_direct(case, width0, brief=False, marks=()):
    """model operations; `_k` = index of the case's op a `submit` stands for, `_mi` = index of the mark"""
    ops = []
    mi = 0
    for k, o in enumerate(case["ops"]):
        while mi < len(marks) and marks[mi]["ncalls"] == k:
            ops.append(_mark_op(marks[mi], mi))
            mi += 1
        q = o["queue"]
        ops.append({"op": "submit", "t": int(o["t"]), "lastTs": (max(q) if q else None),
                    "sched": _sched_wire(o["sched"]), "_k": k})
    r = {"stations": case["stations"], "width": width0, "ops": ops}
    if brief:
        r["brief"] = True
    return r


def _cmp_rows(rows, mstep, where, out):
    mrows = [[b2f(x) for x in r] for r in mstep["rows"]]
    if len(rows) != len(mrows) or any(len(a) != len(b) for a, b in zip(rows, mrows)):
        out.append(f"{where}: shape impl={len(rows)}x{len(rows[0]) if rows else 0} model={len(mrows)}x{mstep['width']}")
        return
    for i, (a, b) in enumerate(zip(rows, mrows)):
        for j, (x, y) in enumerate(zip(a, b)):
            if not close(x, y):
                out.append(f"{where}: cell[{i}][{j}] impl={x!r} model={y!r}")
                return
    # the executable specification agrees with the executable model
    if mstep["spec"] != mstep["rows"]:
        out.append(f"{where}: model matrix differs from Lean pilotAt (refinement theorem violated?!)")


def _cmp_direct(case, obs, model, out, tag=""):
    marks = obs.get("marks") or []
    msteps = model["steps"]
    if marks:
        # the model's matrix after its own restore / swap step against the restored object's, per station ID
        ops = _req_direct(case, obs["width0"], marks=marks)["ops"]
        keep = []
        for o, m in zip(ops, msteps):
            if o["op"] == "mark":
                _cmp_rows(marks[o["_mi"]]["rows"], m, f"{tag}{o['kind']} before op {marks[o['_mi']]['ncalls']}", out)
            else:
                keep.append(m)
        msteps = keep
    for k, (a, m) in enumerate(zip(obs["steps"], msteps)):
        if a["err"] != m["err"]:
            out.append(f"{tag}op {k}: err impl={a['err']} model={m['err']}")
            return
        if "rows" in a and "rows" in m:
            _cmp_rows(a["rows"], m, f"{tag}op {k}", out)


def _oracle_direct(case, obs, fails, tag=""):
    stations = case["stations"]
    if obs.get("marks"):
        _oracle_marks(stations, obs["marks"],
                      lambda m: [(int(o["t"]), o["sched"]) for o in case["ops"][:m["ncalls"]]], fails, tag)
        if fails:
            return
    _oracle_direct_ops(case, obs, fails, tag)
    if not fails and not obs.get("order_ok", True):
        fails.append({"kind": "station_order_not_registration_order", "detail": tag})


def _oracle_direct_ops(case, obs, fails, tag=""):
    stations = case["stations"]
    subs = []
    for k, (o, st) in enumerate(zip(case["ops"], obs["steps"])):
        pairs = o["sched"]
        subs.append((int(o["t"]), pairs))
        exp = _expected_error(stations, pairs)
        where = f"{tag}op {k} (t={o['t']}, lastTs={max(o['queue']) if o['queue'] else None})"
        if exp is None and st["err"] is not None:
            kind = "accepted_schedule_raised"
            if st["err"] == "TypeError" and not o["queue"]:
                kind = "last_period_schedule_typeerror"
            fails.append({"kind": kind, "detail": f"{where}: well-formed schedule raised {st['err']}"})
            return
        if exp is not None and st["err"] != exp:
            fails.append({"kind": "wrong_error_class", "detail": f"{where}: expected {exp}, got {st['err']}"})
        if (exp is not None or len(pairs) == 0) and not st["unchanged"]:
            fails.append({"kind": "rejected_schedule_changed_state",
                          "detail": f"{where}: pilot_signals changed by a rejected / empty schedule"})
        if not st["other_state_same"]:
            fails.append({"kind": "update_schedules_touched_other_state", "detail": where})
        if not st["perm_same"]:
            fails.append({"kind": "dict_order_matters", "detail": f"{where}: reversed dict gives a different outcome"})
        if "rows" in st:
            rows = st["rows"]
            w = len(rows[0]) if rows else None
            if exp is None and len(pairs) > 0 and rows and w < int(o["t"]) + len(pairs[0][1]["v"]):
                fails.append({"kind": "matrix_too_narrow", "detail": f"{where}: width {w}"})
            bad = _first_diff(stations, subs, rows)
            if bad:
                fails.append({"kind": "pilot_signal_differs_from_spec", "detail": f"{where}: {bad}"})
                return


def _first_diff(stations, subs, rows):
    for i, s in enumerate(stations):
        for tau, x in enumerate(rows[i]):
            e = pilot_at(stations, subs, s, tau)
            if x != e:
                return f"pilot_signals[{s}][{tau}] = {x!r}, the schedules say {e!r}"
    return None


# ------------------------------------------------------------------ exhaustive small scope

EXH_STATIONS = ["B", "A"]
_EXH_SHAPES = ([("empty", 0)] + [("A", n) for n in (1, 2, 3)] + [("B", n) for n in (1, 2, 3)]
               + [("AB", n) for n in (1, 2, 3)] + [("ragged", 0), ("unknown", 0)])
_EXH_LAST = [None, 4]
_EXH_TS = [ts for n in (1, 2, 3) for ts in itertools.combinations_with_replacement(range(4), n)]


def _exh_groups():
    """(start_queue, ts, choices per submission): every submission gets every shape and every lastTs"""
    full = [(sh, n, l) for (sh, n) in _EXH_SHAPES for l in _EXH_LAST]
    out = []
    for w0 in ([], [4]):
        for ts in _EXH_TS:
            out.append((w0, ts, [full] * len(ts)))
    return out


_EXH_GROUPS = _exh_groups()


def _group_size(g):
    n = 1
    for ch in g[2]:
        n *= len(ch)
    return n


_EXH_OFFS = list(itertools.accumulate([0] + [_group_size(g) for g in _EXH_GROUPS]))


def _exh_total():
    return _EXH_OFFS[-1]


def _exh_sched(shape, n, k):  # noqa: C901
    base = 10 * (k + 1)

    def row(off, m):
        return {"c": "list", "v": [base + off + j for j in range(m)]}
    if shape == "empty":
        return []
    if shape == "A":
        return [["A", row(0, n)]]
    if shape == "B":
        return [["B", row(5, n)]]
    if shape == "AB":
        return [["A", row(0, n)], ["B", row(5, n)]]
    if shape == "ragged":
        return [["A", row(0, 1)], ["B", row(5, 2)]]
    return [["A", row(0, 1)], ["Z", row(5, 1)]]


def _exh_scenario(idx):
    """scenario number `idx` of the enumeration (mixed-radix decoding)"""
    import bisect
    gi = bisect.bisect_right(_EXH_OFFS, idx) - 1
    w0, ts, choices = _EXH_GROUPS[gi]
    r = idx - _EXH_OFFS[gi]
    ops = []
    for k in reversed(range(len(ts))):
        ch = choices[k]
        sh, n, l = ch[r % len(ch)]
        r //= len(ch)
        ops.append({"t": ts[k], "queue": ([] if l is None else [l]), "sched": _exh_sched(sh, n, k)})
    ops.reverse()
    return {"mode": "direct", "stations": EXH_STATIONS, "limit": None, "start_queue": w0, "ops": ops}


_SLICE_CACHE = {}
_EXH_FULL = [(sh, n, l) for (sh, n) in _EXH_SHAPES for l in _EXH_LAST]
_EXH_TS3 = [ts for ts in _EXH_TS if len(ts) == 3]


def _exh_sampled(seed, count):
    """3-submission scenarios with an independent lastTs per submission (the part of the small scope the
    enumeration above visits only with one lastTs per sequence): a seeded sample"""
    import random
    rng = random.Random(seed * 7919 + 11)
    out = []
    for _ in range(count):
        w0 = rng.choice(([], [4]))
        ts = rng.choice(_EXH_TS3)
        ops = []
        for k, t in enumerate(ts):
            sh, n, l = rng.choice(_EXH_FULL)
            ops.append({"t": t, "queue": ([] if l is None else [l]), "sched": _exh_sched(sh, n, k)})
        out.append({"mode": "direct", "stations": EXH_STATIONS, "limit": None, "start_queue": w0, "ops": ops})
    return out


def _exh_slice(case):
    key = (case.get("sample"), case["lo"], case["hi"])
    if key not in _SLICE_CACHE:
        _SLICE_CACHE.clear()
        if case.get("sample") is not None:
            _SLICE_CACHE[key] = _exh_sampled(case["sample"], case["hi"] - case["lo"])
        else:
            _SLICE_CACHE[key] = [_exh_scenario(i) for i in range(case["lo"], case["hi"])]
    return _SLICE_CACHE[key]


def _run_exh(case):
    sims = {}
    res = []
    for sc in _exh_slice(case):
        key = tuple(sc["start_queue"])
        if key not in sims:
            sims[key] = _DirectSim(sc["stations"], None, sc["start_queue"])
        d = sims[key]
        d.reset()
        n = len(sc["ops"])
        steps = [d.op(o, full=(k == n - 1)) for k, o in enumerate(sc["ops"])]
        res.append({"width0": d.width0, "order_ok": d.order_ok, "steps": steps})
    return {"n": len(res), "res": res}


# ------------------------------------------------------------------ run mode

def _run_run(case):
    """a whole simulation: run() [, at chosen scheduler calls the scheduler hands control back (`breaks`) and the
    harness saves / restores / swaps the scheduler before calling run() again] [, after the queue has run dry
    further `legs`: actions, new events, run() again]"""
    from acnportal.acnsim import Simulator
    from acnportal.acnsim.events import EventQueue, PluginEvent, RecomputeEvent
    from acnportal.acnsim.models import EV, Battery
    from acnportal.algorithms import BaseAlgorithm

    stations = case["stations"]
    script = case["script"]
    breaks = case.get("breaks") or {}
    rec = {"calls": [], "attempt": {}, "paused": set()}

    def _state(sim):
        h = sim.schedule_history
        return {"resolve": bool(sim._resolve), "lsu": sim._last_schedule_update, "iteration": int(sim.iteration),
                "hist_keys": sorted(int(k) for k in h) if h is not None else None}

    class Script(BaseAlgorithm):
        """only `schedule` is overridden: the simulator reaches it through the real BaseAlgorithm.run().
        All instances (update_scheduler with a different object) share the script and the record."""

        def __init__(self, max_recompute):
            super().__init__()
            self.max_recompute = max_recompute

        def schedule(self, active_sessions):
            sim = self.interface._simulator
            t = int(sim.iteration)
            if str(t) in breaks and t not in rec["paused"]:
                rec["paused"].add(t)
                raise _Pause()
            k = rec["attempt"].get(t, 0)
            rec["attempt"][t] = k + 1
            pairs = script.get(str(t) if k == 0 else f"{t}r{k}", [])
            # what the scheduler sees of the pilots applied in the previous period
            try:
                la = sorted([k2, float(v)] for k2, v in self.interface.last_applied_pilot_signals.items())
            except Exception as e:  # noqa
                la = "raised " + I.err_name(e)
            active = sorted([ev.session_id, ev.station_id, int(ev.arrival)] for ev in sim.get_active_evs())
            rec["calls"].append({"t": t, "lastTs": sim.event_queue.get_last_timestamp(), "sched": pairs,
                                 "before": _mat(sim.pilot_signals), "last_applied": la, "active": active,
                                 "n_sessions": len(active_sessions), "state": _state(sim), "raised": None})
            return _sched_obj(pairs)

    net = _network(stations, case.get("limit"), maxrate=case.get("maxrate"), cls=LogNet)
    if case.get("net_json"):
        # "before use": the network itself goes through JSON before the simulator is built on it
        net = _net_roundtrip(net, case["net_json"])
    log = []
    evs = []
    for s in case["sessions"]:
        evs.append(PluginEvent(s["arrival"], EV(s["arrival"], s["departure"], 50, s["station"], s["session"],
                                                 Battery(100, 0, 100))))
    evs += [RecomputeEvent(int(t)) for t in case.get("recompute", [])]
    sched = Script(case.get("max_recompute"))
    sim = Simulator(net, sched, EventQueue(evs), datetime(2020, 1, 1), verbose=False, store_schedule_history=True)
    _CUR.update(sim=sim, log=log, stations=list(stations))
    ctx = {"sim": sim, "sched": sched, "new_sched": Script, "stations": list(stations), "calls": rec["calls"],
           "log": log}
    marks = []
    width0 = int(sim.pilot_signals.shape[1])
    err = None
    runs = 0
    retries = 0
    legs = list(case.get("legs") or [])
    try:
        _do_actions(ctx, case.get("start") or [], marks, {"at": "start"})
        while True:
            sim = ctx["sim"]
            runs += 1
            try:
                sim.run()
            except _Pause:
                _do_actions(ctx, breaks[str(int(sim.iteration))], marks, {"at": "break"})
                continue
            except Exception as e:  # noqa
                name = I.err_name(e)
                calls = rec["calls"]
                c = calls[-1] if calls else None
                in_call = (c is not None and c["raised"] is None and c["t"] == int(sim.iteration)
                           and not any(x["t"] == c["t"] for x in log))
                if in_call and name in ("KeyError", "InvalidSchedule", "TypeError", "ValueError"):
                    # the exception came out of _update_schedules(schedule of this call)
                    c["raised"] = name
                    c["state_after"] = _state(sim)
                    c["after_same"] = _mat(sim.pilot_signals) == c["before"]
                    retries += 1
                    if case.get("resume") and retries < 6:
                        # catch the error [save / restore / swap the scheduler] and call run() again
                        _do_actions(ctx, case.get("on_reject") or [], marks, {"at": "reject"})
                        continue
                err = name
                break
            if not legs:
                break
            # the queue has run dry: the same simulation is continued with new events
            leg = legs.pop(0)
            _do_actions(ctx, leg.get("actions") or [], marks, {"at": "leg"})
            sim = ctx["sim"]
            base = int(sim.iteration)
            new = []
            for s in leg.get("sessions") or []:
                a, d = base + s["off"], base + s["off"] + s["dur"]
                new.append(PluginEvent(a, EV(a, d, 50, s["station"], s["session"], Battery(100, 0, 100))))
            new += [RecomputeEvent(base + int(o)) for o in leg.get("recompute") or []]
            if new:
                sim.event_queue.add_events(new)
        sim = ctx["sim"]
        hist = None
        if sim.schedule_history is not None:
            hist = sorted([int(t), sorted([st, [float(x) for x in np.asarray(row, dtype=float).ravel()]]
                                         for st, row in d.items())] for t, d in sim.schedule_history.items())
        return {"width0": width0, "order_ok": list(sim.network.station_ids) == list(stations), "err": err,
                "runs": runs, "iteration": int(sim.iteration), "log": log, "calls": rec["calls"], "history": hist,
                "marks": marks, "final": _rows_by_id(sim, stations), "final_df": _df_by_id(sim, stations),
                "rates_w": int(sim.charging_rates.shape[1])}
    finally:
        _CUR.update(sim=None, log=None, stations=None)


def _run_ops(obs):
    """the periods of the observed run as model operations (`_li` = index into obs["log"], `_ci` = index
    into obs["calls"]; the driver ignores these fields).  A call whose schedule was rejected is a `submit`
    (the model must reject it too and keep its state); on resume the same period has another call."""
    calls = obs["calls"]
    ops = []
    ci = 0

    def rejected(c, i):
        ops.append({"op": "submit", "t": c["t"], "lastTs": c["lastTs"], "sched": _sched_wire(c["sched"]),
                    "_err": c["raised"], "_ci": i})

    marks = obs.get("marks") or []
    mi = 0

    def marks_upto(nlog):
        nonlocal mi
        while mi < len(marks) and marks[mi]["nlog"] <= nlog:
            ops.append(_mark_op(marks[mi], mi))
            mi += 1

    for li, e in enumerate(obs["log"]):
        marks_upto(li)       # restores / swaps made before this period's scheduler call
        while ci < len(calls) and calls[ci]["t"] == e["t"] and calls[ci].get("raised"):
            rejected(calls[ci], ci)
            ci += 1
        c = None
        if ci < len(calls) and calls[ci]["t"] == e["t"]:
            c = calls[ci]
            if "active" in c:
                ops.append({"op": "last_applied", "t": e["t"], "lastTs": None, "active": c["active"], "_ci": ci})
            ci += 1
        ops.append({"op": "period", "t": e["t"], "lastTs": e["lastTs"], "_li": li,
                    "sched": _sched_wire(c["sched"]) if c is not None else None})
    marks_upto(len(obs["log"]))
    # the period in which the run died for good (if any)
    tail = False
    while ci < len(calls):
        c = calls[ci]
        tail = True
        if c.get("raised"):
            rejected(c, ci)
        else:
            ops.append({"op": "submit", "t": c["t"], "lastTs": c["lastTs"], "sched": _sched_wire(c["sched"])})
            if obs["err"] == "InvalidRate":
                ops.append({"op": "grow", "t": c["t"], "lastTs": c["lastTs"]})
        ci += 1
    if not tail and obs["err"] == "InvalidRate":
        # died in update_pilots of a period without scheduler call: growth had happened
        t = obs["iteration"]
        last = obs["log"][-1]["lastTs"] if obs["log"] else None
        ops.append({"op": "grow", "t": t, "lastTs": last, "approx": True})
    return ops


def _step_ops(obs):
    """the loop trips of a step()-driven simulation as model operations"""
    ops = []
    li = 0
    marks = obs.get("marks") or []
    mi = 0
    for ci, c in enumerate(obs["calls"]):
        while mi < len(marks) and marks[mi]["ncalls"] <= ci:
            ops.append(_mark_op(marks[mi], mi))
            mi += 1
        for _ in range(c["trips"]):
            e = obs["log"][li]
            ops.append({"op": "period", "by": "step", "t": e["t"], "lastTs": e["lastTs"], "_li": li,
                        "sched": _sched_wire(c["sched"])})
            li += 1
        if c["err"] is not None:
            ops.append({"op": "submit", "t": c["t0"], "lastTs": c["lastTs0"], "sched": _sched_wire(c["sched"]),
                        "_err": c["err"]})
    return ops


def _req_run(case, obs):
    ops = _step_ops(obs) if case["mode"] == "step" else _run_ops(obs)
    if not ops:
        return None
    return {"stations": case["stations"], "width": obs["width0"], "ops": ops}


def _cmp_run(case, obs, model, out):
    ops = _step_ops(obs) if case["mode"] == "step" else _run_ops(obs)
    steps = model["steps"]
    for o, m in zip(ops, steps):
        if o["op"] == "period":
            e = obs["log"][o["_li"]]
            if m["err"] is not None:
                out.append(f"period {e['t']}: model raises {m['err']}, implementation went on")
                return
            if m["width"] != e["width"]:
                out.append(f"period {e['t']}: width impl={e['width']} model={m['width']}")
            col = [b2f(x) for x in m["col"]]
            if len(col) != len(e["applied"]) or not all(close(a, b) for a, b in zip(e["applied"], col)):
                out.append(f"period {e['t']}: applied pilots impl={e['applied']} model={col}")
            if e["col"] is None or not all(close(a, b) for a, b in zip(e["col"], col)):
                out.append(f"period {e['t']}: pilot_signals column impl={e['col']} model={col}")
        elif o["op"] == "submit":
            exp = m["err"]
            got = o.get("_err", obs.get("err"))
            if exp is not None and got != exp:
                out.append(f"period {o['t']}: model raises {exp}, implementation {got}")
            if exp is None and got in ("KeyError", "InvalidSchedule", "TypeError"):
                out.append(f"period {o['t']}: implementation raises {got}, model accepts")
        elif o["op"] == "mark":
            mk = obs["marks"][o["_mi"]]
            if m["err"] is not None:
                out.append(f"{o['kind']} at iteration {mk['t']}: model {m['err']}")
            else:
                _cmp_rows(mk["rows"], m, f"{o['kind']} at iteration {mk['t']}", out)
        elif o["op"] == "last_applied":
            c = obs["calls"][o["_ci"]]
            ml = None if m["last"] is None else sorted([k, b2f(v)] for k, v in m["last"])
            if ml != c["last_applied"]:
                out.append(f"period {o['t']}: last_applied_pilot_signals impl={c['last_applied']} model={ml}")
    if steps and not any(o.get("approx") for o in ops):
        _cmp_rows(obs["final"], steps[-1], "final matrix", out)
    elif steps:
        last = steps[-1]
        mrows = [[b2f(x) for x in r] for r in last["rows"]]
        for i, (a, b) in enumerate(zip(obs["final"], mrows)):
            n = min(len(a), len(b))
            if not all(close(x, y) for x, y in zip(a[:n], b[:n])) or any(x != 0 for x in a[n:]) or any(y != 0 for y in b[n:]):
                out.append(f"final matrix row {i}: impl={a} model={b}")


# ------------------------------------------------------------------ step mode

def _run_step(case):
    """a simulation driven through the public `Simulator.step(new_schedule)`; a call may be preceded by steps that
    are not submissions (`pre`: JSON save / restore, update_scheduler)"""
    from acnportal.acnsim import Simulator
    from acnportal.acnsim.events import EventQueue, PluginEvent, RecomputeEvent
    from acnportal.acnsim.models import EV, Battery
    from acnportal.algorithms import BaseAlgorithm

    stations = case["stations"]
    net = _network(stations, case.get("limit"), cls=LogNet)
    if case.get("net_json"):
        net = _net_roundtrip(net, case["net_json"])
    log = []
    evs = []
    for s in case["sessions"]:
        evs.append(PluginEvent(s["arrival"], EV(s["arrival"], s["departure"], 50, s["station"], s["session"],
                                                 Battery(100, 0, 100))))
    evs += [RecomputeEvent(int(t)) for t in case.get("recompute", [])]
    mr = case.get("max_recompute")

    def new_sched(k):
        a = BaseAlgorithm()
        a.max_recompute = k
        return a

    # to_json needs a scheduler object (step() itself never asks it): only cases with `pre` steps get one
    with_sched = any(c.get("pre") for c in case["calls"])
    algo = new_sched(mr) if with_sched else None
    sim = Simulator(net, algo, EventQueue(evs), datetime(2020, 1, 1), verbose=False)
    _CUR.update(sim=sim, log=log, stations=list(stations))
    sim.max_recompute = mr
    if mr is not None and case.get("seed_lsu"):
        sim._last_schedule_update = 0      # (before the fix of F17 step() needed a number here)
    width0 = int(sim.pilot_signals.shape[1])
    calls = []
    marks = []
    ctx = {"sim": sim, "sched": algo, "new_sched": new_sched, "stations": list(stations), "calls": calls, "log": log}
    try:
        for c in case["calls"]:
            if c.get("pre"):
                _do_actions(ctx, c["pre"], marks)
                sim = ctx["sim"]
            if c.get("unstick"):
                # what a caller has to do to make step() move again once a recompute is pending
                sim._resolve = False
                if mr is not None:
                    sim._last_schedule_update = sim._iteration
            rec = {"sched": c["sched"], "t0": int(sim.iteration), "lastTs0": sim.event_queue.get_last_timestamp(),
                   "queue_empty": bool(sim.event_queue.empty()), "resolve": bool(sim._resolve),
                   "before": _mat(sim.pilot_signals), "err": None, "ret": None}
            n0 = len(log)
            try:
                rec["ret"] = bool(sim.step(_sched_obj(c["sched"])))
            except Exception as e:  # noqa
                rec["err"] = I.err_name(e)
            rec["trips"] = len(log) - n0
            rec["after_same"] = _mat(sim.pilot_signals) == rec["before"]
            del rec["before"]
            calls.append(rec)
            if rec["err"] is not None:
                break
        return {"width0": width0, "order_ok": list(sim.network.station_ids) == list(stations), "log": log,
                "calls": calls, "marks": marks, "final": _rows_by_id(sim, stations),
                "final_df": _df_by_id(sim, stations), "iteration": int(sim.iteration)}
    finally:
        _CUR.update(sim=None, log=None, stations=None)


def _final_checks(stations, subs, obs, fails, when):
    """the whole matrix at the end, per station ID through index_of_evse and through pilot_signals_as_df()"""
    bad = _first_diff(stations, subs, obs["final"])
    if bad:
        fails.append({"kind": "pilot_signal_differs_from_spec", "detail": f"{when}: {bad}"})
        return
    df = obs.get("final_df")
    if isinstance(df, str):
        fails.append({"kind": "pilot_signals_unreadable_after_restore", "detail": f"{when}: pilot_signals_as_df() {df}"})
    elif df is not None:
        bad = _first_diff(stations, subs, df)
        if bad:
            fails.append({"kind": "pilot_signals_df_differs_from_spec", "detail": f"{when}: pilot_signals_as_df(): {bad}"})
    if not fails and not obs["order_ok"]:
        fails.append({"kind": "station_order_not_registration_order", "detail": ""})


def _oracle_step(case, obs, fails):
    stations = case["stations"]
    if obs.get("marks"):
        trip_subs = [c["sched"] for c in obs["calls"] for _ in range(c["trips"])]
        trip_subs = [(e["t"], sc) for e, sc in zip(obs["log"], trip_subs)]
        _oracle_marks(stations, obs["marks"], lambda m: trip_subs[:m["nlog"]], fails)
        if fails:
            return
    subs = []
    li = 0
    for ci, c in enumerate(obs["calls"]):
        exp = _expected_error(stations, c["sched"])
        where = f"step call {ci} (iteration {c['t0']}, lastTs {c['lastTs0']})"
        if c["err"] is not None:
            if c["err"] not in ("KeyError", "InvalidSchedule", "TypeError", "ValueError"):
                # an exception of the event handling (e.g. StationOccupied), not of the schedule path: not C04
                break
            if c["err"] != exp:
                kind = "wrong_error_class" if exp is not None else "accepted_schedule_raised"
                fails.append({"kind": kind, "detail": f"{where}: raised {c['err']}, the schedule calls for {exp}"})
                return
            if c["trips"] != 0 or not c["after_same"]:
                fails.append({"kind": "rejected_schedule_changed_state", "detail": where})
            continue
        if c["trips"] > 0 and exp is not None:
            fails.append({"kind": "malformed_schedule_accepted", "detail": f"{where}: {c['sched']} should raise {exp}"})
        if c["trips"] == 0 and not c["queue_empty"]:
            # the schedule handed to step() was dropped although the simulation is not over
            fails.append({"kind": "step_ignored_schedule",
                          "detail": f"{where}: events are pending, yet step() simulated no period and did not "
                                    f"apply the schedule (_resolve={c['resolve']}, max_recompute={case.get('max_recompute')})"})
        for _ in range(c["trips"]):
            e = obs["log"][li]
            li += 1
            subs.append((e["t"], c["sched"]))
            want = [pilot_at(stations, subs, s, e["t"]) for s in stations]
            if e["applied"] != want:
                fails.append({"kind": "applied_pilot_differs_from_spec",
                              "detail": f"{where}, period {e['t']}: EVSEs received {e['applied']}, the schedules say {want}"})
                return
            if e["col"] != want:
                fails.append({"kind": "pilot_signal_differs_from_spec",
                              "detail": f"{where}, period {e['t']}: pilot_signals[:, t] = {e['col']}, the schedules say {want}"})
                return
    ts = [e["t"] for e in obs["log"]]
    if ts != list(range(len(ts))):
        fails.append({"kind": "periods_not_consecutive", "detail": str(ts)})
    _final_checks(stations, subs, obs, fails, "after the last step")


def _oracle_run(case, obs, fails):
    stations = case["stations"]
    calls = obs["calls"]
    if obs.get("marks"):
        _oracle_marks(stations, obs["marks"], lambda m: [(c["t"], c["sched"]) for c in calls[:m["ncalls"]]], fails)
        if fails:
            return
    # periods are simulated once each, in order
    ts = [e["t"] for e in obs["log"]]
    if ts != list(range(len(ts))):
        fails.append({"kind": "periods_not_consecutive", "detail": str(ts)})
        return
    # every scheduler call: accepted, or rejected with the right exception and NO change of state
    err = obs["err"]
    maxrate = case.get("maxrate")
    for i, c in enumerate(calls):
        exp = _expected_error(stations, c["sched"])
        where = f"period {c['t']} (scheduler call {i}, lastTs {c['lastTs']})"
        if c.get("raised"):
            if c["raised"] != exp:
                kind = "wrong_error_class"
                if exp is None:
                    kind = ("last_period_schedule_typeerror" if c["raised"] == "TypeError" and c["lastTs"] is None
                            else "accepted_schedule_raised")
                fails.append({"kind": kind, "detail": f"{where}: {c['sched']} raised {c['raised']}, expected {exp}"})
                return
            if not c["after_same"]:
                fails.append({"kind": "rejected_schedule_changed_state",
                              "detail": f"{where}: pilot_signals differ from what they were when the scheduler was called"})
            if c["state_after"] != c["state"]:
                fails.append({"kind": "rejected_schedule_changed_scheduling_state",
                              "detail": f"{where}: before {c['state']}, after the rejection {c['state_after']}"})
            # after catching the error and calling run() again the scheduler is asked again in the same period
            resumed = i + 1 < len(calls) or (case.get("resume") and err is None)
            if resumed and (i + 1 >= len(calls) or calls[i + 1]["t"] != c["t"]):
                fails.append({"kind": "not_rescheduled_after_rejection",
                              "detail": f"{where}: run() was resumed; next scheduler call "
                                        f"{calls[i + 1]['t'] if i + 1 < len(calls) else None}"})
        elif exp is not None:
            fails.append({"kind": "malformed_schedule_accepted", "detail": f"{where}: {c['sched']} should raise {exp}"})
    if err == "InvalidRate":
        t = obs["iteration"]
        subs = [(c["t"], c["sched"]) for c in calls]
        sent = [pilot_at(stations, subs, s, t) for s in stations]
        if maxrate is None or all(-1e-3 - 1e-9 <= p <= maxrate + 1e-3 + 1e-9 for p in sent):
            fails.append({"kind": "valid_pilot_refused", "detail": f"period {t}: pilots {sent} raised InvalidRate"})
    elif err is not None and not (calls and calls[-1].get("raised") == err):
        fails.append({"kind": "accepted_schedule_raised",
                      "detail": f"run ended with {err} in period {obs['iteration']} outside any schedule rejection"})
        return
    # schedule_history holds exactly what was accepted (or empty), never a rejected schedule
    if obs.get("history") is not None:
        want_h = {}
        for c in calls:
            if not c.get("raised"):
                want_h[c["t"]] = sorted([st, _vals(r)] for st, r in c["sched"])
        want_h = sorted([t, v] for t, v in want_h.items())
        if obs["history"] != want_h:
            fails.append({"kind": "schedule_history_wrong",
                          "detail": f"schedule_history = {obs['history']}, the accepted schedules are {want_h}"})
    # what the EVSEs received and what was recorded, period by period
    subs = []
    ci = 0
    for e in obs["log"]:
        while ci < len(calls) and calls[ci]["t"] <= e["t"]:
            subs.append((calls[ci]["t"], calls[ci]["sched"]))
            ci += 1
        want = [pilot_at(stations, subs, s, e["t"]) for s in stations]
        if e["applied"] != want:
            fails.append({"kind": "applied_pilot_differs_from_spec",
                          "detail": f"period {e['t']}: EVSEs received {e['applied']}, the schedules say {want}"})
            return
        if e["col"] != want:
            fails.append({"kind": "pilot_signal_differs_from_spec",
                          "detail": f"period {e['t']}: pilot_signals[:, t] = {e['col']}, the schedules say {want}"})
            return
    # what the scheduler saw of the previous period's pilots (interface.py: only if iteration - 1 > 0)
    by_t = {e["t"]: e for e in obs["log"]}
    for c in calls:
        if "last_applied" not in c:
            continue
        i = c["t"] - 1
        if i > 0:
            prev = by_t[i]["applied"]
            want = sorted([sess, prev[stations.index(st)]] for sess, st, arr in c["active"] if arr <= i)
        else:
            want = []
        if c["last_applied"] != want:
            fails.append({"kind": "last_applied_differs_from_applied_column",
                          "detail": f"period {c['t']}: scheduler saw {c['last_applied']}, the EVSEs had received "
                                    f"{want} in period {i} (active: {c['active']})"})
            break
    allsubs = [(c["t"], c["sched"]) for c in calls]
    _final_checks(stations, allsubs, obs, fails, "after the run")
    w = len(obs["final"][0]) if obs["final"] else None
    for t, pairs in allsubs:
        if _accepted(stations, pairs) and w is not None and w < t + len(pairs[0][1]["v"]):
            fails.append({"kind": "matrix_too_narrow", "detail": f"width {w} after a schedule of length "
                          f"{len(pairs[0][1]['v'])} at {t}"})


# ------------------------------------------------------------------ generation

# 2^24+1 and 123456789 are exact as doubles but not as float32: catches a lossy intermediate dtype
_NICE = [0, 0, 6, 8, 16, 32, 13, 24, 7.5, 6.25, 0.1 + 0.2, 31.999, 1e-3, 48, 64, 1e6, 16777217, 123456789]


_KINDS = ["list", "list", "list", "tuple", "array", "npscalar", "intarray", "npint", "int32array",
          "float32array", "zerod", "mixed"]
BIG = 2 ** 53 + 1          # not representable: int -> double must round the same way on both sides


def _gen_row(rng, n, nonneg=True, vmax=None):
    c = rng.choice(_KINDS)
    if n == 1 and rng.random() < 0.3:
        c = "len1array"
    v = []
    for _ in range(n):
        r = rng.random()
        if r < 0.5:
            x = rng.choice(_NICE)
        elif r < 0.8:
            x = rng.randint(0, 40)
        else:
            x = round(rng.uniform(0, 40), rng.choice([1, 3, 12]))
        if not nonneg and c in ("list", "intarray", "npint") and rng.random() < 0.03:
            x = rng.choice([BIG, 2 ** 31 + 1, 2 ** 62 + 3, 2 ** 53 - 1])
        if not nonneg and rng.random() < 0.1:
            x = -x
        if vmax is not None:
            x = min(x, vmax)
        if c in INT_KINDS:
            x = int(x)
        v.append(x)
    return {"c": c, "v": v}


def _gen_sched(rng, stations, maxlen=6, nonneg=True, p_bad=0.12, p_empty=0.1, allow_len0=False, vmax=None):
    r = rng.random()
    if r < p_empty:
        return []
    n = rng.choice([1, 1, 2, 3, 3, 4, 5, 6][:max(1, min(8, maxlen + 2))])
    n = min(n, maxlen)
    if allow_len0 and rng.random() < 0.04:
        n = 0
    k = rng.randint(1, len(stations))
    chosen = rng.sample(stations, k)
    pairs = [[s, _gen_row(rng, n, nonneg, vmax)] for s in chosen]
    if r < p_empty + p_bad:
        kind = rng.choice(["unknown", "ragged", "both", "unknown_first", "ragged_single_empty"])
        if kind in ("unknown", "both"):
            pairs.insert(rng.randint(0, len(pairs)), [rng.choice(["Z9", "s1", "S1 ", ""]), _gen_row(rng, n, nonneg, vmax)])
        if kind == "unknown_first":
            pairs.insert(0, ["nope", _gen_row(rng, n, nonneg, vmax)])
        if kind in ("ragged", "both", "ragged_single_empty"):
            if len(pairs) == 1:
                others = [s for s in stations if s != pairs[0][0]]
                if others:
                    pairs.append([others[0], _gen_row(rng, n, nonneg, vmax)])
            j = rng.randrange(len(pairs))
            m = 0 if kind == "ragged_single_empty" else rng.choice([x for x in (n - 1, n + 1, n + 2) if x >= 0])
            pairs[j][1] = _gen_row(rng, m, nonneg, vmax)
    return pairs


def _gen_direct(rng):
    ns = rng.choice([1, 2, 2, 3])
    stations = rng.sample(STATION_POOL, ns)
    horizon = rng.choice([0, 1, 3, 5, 8, 12])
    start_queue = [] if rng.random() < 0.3 else sorted(rng.sample(range(0, horizon + 1), min(horizon + 1, rng.randint(1, 3))))
    limit = rng.choice([None, None, None, 20, 5])
    ops = []
    t = 0
    arbitrary = rng.random() < 0.1
    for _ in range(rng.randint(1, 7)):
        if arbitrary:
            t = rng.randint(0, horizon + 3)
        else:
            t += rng.choice([0, 0, 1, 1, 1, 2, 3])
        pairs = _gen_sched(rng, stations, nonneg=False, allow_len0=True)
        n = len(pairs[0][1]["v"]) if pairs else 1
        r = rng.random()
        if r < 0.3:
            q = []
        elif r < 0.5:
            q = [t + n - 1 + rng.choice([-1, 0, 1])]          # lastTs+1 around t+len
        elif r < 0.7:
            q = [max(t, horizon), t + 1]
        elif r < 0.8:
            q = [max(0, t - 2)]                               # behind the clock (not reachable in run())
        else:
            q = [t + n + rng.randint(1, 6), t]
        q = [x for x in q if x >= 0]
        ops.append({"t": t, "queue": q, "sched": pairs})
    if rng.random() < 0.3:
        # save / restore / scheduler swap before some of the submissions (before the first = "before use")
        for o in ops:
            if rng.random() < 0.4:
                o["pre"] = _gen_actions(rng, allow_none=True)
    return {"mode": "direct", "stations": stations, "limit": limit, "start_queue": start_queue, "ops": ops}


def _gen_actions(rng, allow_none=False, allow_mr=False):
    """1-2 steps that are not submissions: JSON save / restore (string, buffer, file; then update_scheduler with
    the same object, a new one, or not at all) or a bare update_scheduler (same object / a new one)"""
    out = []
    for _ in range(rng.choice([1, 1, 1, 2])):
        if rng.random() < 0.55:
            a = {"a": "json", "via": rng.choice(["str", "str", "buf", "file"]),
                 "sched": rng.choice(["same", "new"] + (["none"] if allow_none else []))}
        else:
            a = {"a": "swap", "sched": rng.choice(["same", "new"])}
        if allow_mr and a["sched"] == "new" and rng.random() < 0.4:
            a["mr"] = rng.choice([None, 1, 2, 3])
        out.append(a)
    return out


def _gen_leg(rng, stations, k0):
    """a further leg of a simulation whose queue has run dry: offsets relative to the iteration reached"""
    sessions = []
    k = k0
    for s in stations:
        if rng.random() < 0.6:
            off = rng.choice([0, 0, 1, 2, 3])
            sessions.append({"station": s, "off": off, "dur": rng.choice([1, 1, 2, 3, 4]), "session": f"y{k}"})
            k += 1
    recompute = sorted(set(rng.randint(0, 4) for _ in range(rng.choice([0, 0, 1, 2]))))
    if not sessions and not recompute:
        recompute = [rng.choice([0, 1, 3])]
    end = max([x["off"] + x["dur"] for x in sessions] + recompute) + 1
    return {"actions": (_gen_actions(rng, allow_mr=True) if rng.random() < 0.85 else []),
            "sessions": sessions, "recompute": recompute}, end, k


def _gen_run(rng):
    ns = rng.choice([1, 2, 2, 3])
    stations = rng.sample(STATION_POOL, ns)
    sessions = []
    k = 0
    horizon = 0
    for s in stations:
        t = rng.choice([0, 0, 1, 2])
        for _ in range(rng.choice([0, 1, 1, 2])):
            a = t + rng.choice([0, 0, 1, 2])
            d = a + rng.choice([1, 1, 2, 3, 5])
            sessions.append({"station": s, "arrival": a, "departure": d, "session": f"x{k}"})
            k += 1
            t = d + rng.choice([0, 0, 1])
            horizon = max(horizon, d)
    if not sessions and rng.random() < 0.8:
        sessions.append({"station": stations[0], "arrival": 0, "departure": rng.choice([1, 3, 6]), "session": "x0"})
        horizon = sessions[0]["departure"]
    recompute = sorted(set(rng.randint(0, horizon + 1) for _ in range(rng.choice([0, 0, 1, 2, 3]))))
    horizon = max([horizon] + recompute)
    # histories with steps that are not submissions: JSON save / restore and update_scheduler before use, in the
    # middle of run() (the scheduler hands control back at `breaks`), and between legs (queue dry, new events)
    hist = {}
    if rng.random() < 0.5:
        if rng.random() < 0.2:
            hist["start"] = _gen_actions(rng, allow_mr=True)
        if rng.random() < 0.15:
            hist["net_json"] = rng.choice(["str", "buf"])
        end = horizon + 1 if (sessions or recompute) else 0
        if rng.random() < 0.6:
            legs = []
            for _ in range(rng.choice([1, 1, 2])):
                leg, n, k = _gen_leg(rng, stations, k)
                legs.append(leg)
                end += n
            hist["legs"] = legs
            horizon = max(horizon, end - 1)
        if rng.random() < 0.7 or not hist:
            marks = sorted({x["arrival"] for x in sessions} | {x["departure"] for x in sessions} | set(recompute))
            cand = (marks + marks + list(range(horizon + 1))) or [0]
            hist["breaks"] = {str(t): _gen_actions(rng, allow_mr=True)
                              for t in set(rng.choice(cand) for _ in range(rng.choice([1, 2, 3])))}
    max_recompute = rng.choice([None, None, 1, 1, 2, 3])
    r = rng.random()
    maxrate = None
    p_bad = 0.0
    if r < 0.2:
        p_bad = 0.15           # a malformed schedule somewhere: the run raises (and is resumed, see below)
    elif r < 0.27:
        maxrate = 32           # pilots above the EVSE's range: InvalidRateError path
    script = {}
    vmax = 40 if maxrate else None
    tail_stream = rng.random() < 0.35
    if tail_stream:
        # max_recompute = k, schedules LONGER than k followed by empty / shorter ones: some periods are
        # covered only by the tail of an older schedule
        max_recompute = rng.choice([1, 1, 2, 3])
        long_next = True
        for t in range(horizon + 2):
            if long_next:
                n = rng.randint(max_recompute + 1, 6)
                k = rng.randint(1, len(stations))
                script[str(t)] = [[st, _gen_row(rng, n, True, vmax)] for st in rng.sample(stations, k)]
                long_next = rng.random() < 0.25
            else:
                r2 = rng.random()
                if r2 < 0.5:
                    script[str(t)] = []
                else:
                    n = rng.randint(1, max(1, max_recompute))
                    k = rng.randint(1, len(stations))
                    script[str(t)] = [[st, _gen_row(rng, n, True, vmax)] for st in rng.sample(stations, k)]
                long_next = rng.random() < 0.5
    else:
        for t in range(horizon + 2):
            if rng.random() < 0.85:
                script[str(t)] = _gen_sched(rng, stations, nonneg=True, p_bad=p_bad, p_empty=0.12, vmax=vmax)
    resume = False
    if p_bad > 0:
        # the caller catches the rejection and calls run() again: the scheduler's retries for that period
        resume = rng.random() < 0.75
        for t in range(horizon + 2):
            script[f"{t}r1"] = _gen_sched(rng, stations, nonneg=True, p_bad=0.25, p_empty=0.2, vmax=vmax)
            script[f"{t}r2"] = _gen_sched(rng, stations, nonneg=True, p_bad=0.0, p_empty=0.2, vmax=vmax)
        if resume and rng.random() < 0.35:
            hist["on_reject"] = _gen_actions(rng)      # ... and saves / restores before trying again
    limit = rng.choice([None, None, None, 30, 5])
    return dict({"mode": "run", "stations": stations, "limit": limit, "maxrate": maxrate, "sessions": sessions,
                 "recompute": recompute, "max_recompute": max_recompute, "script": script, "resume": resume}, **hist)


def _r(v):
    return {"c": "list", "v": v}


def corpus():
    return [
        # (the F2 scenarios live in harness/corpus/C04/f2_last_period_*.json)
        # overlay: later, shorter schedule omitting a station inside an earlier longer one
        {"mode": "direct", "stations": ["B", "A"], "limit": None, "start_queue": [9],
         "ops": [{"t": 0, "queue": [9], "sched": [["A", _r([1, 2, 3, 4, 5, 6])], ["B", _r([7, 8, 9, 10, 11, 12])]]},
                 {"t": 2, "queue": [9], "sched": [["B", {"c": "array", "v": [20.5, 21]}]]},
                 {"t": 2, "queue": [9], "sched": []},
                 {"t": 3, "queue": [9], "sched": [["A", _r([1])], ["Q", _r([1])]]},
                 {"t": 3, "queue": [9], "sched": [["A", _r([1])], ["B", _r([1, 2])]]},
                 {"t": 8, "queue": [9], "sched": [["A", {"c": "tuple", "v": [3, 4, 5, 6]}]]}]},
        # value transport: every row kind into the float matrix, integers that are not exact in float32 / float64
        {"mode": "direct", "stations": ["A", "B"], "limit": None, "start_queue": [3],
         "ops": [{"t": 0, "queue": [3], "sched": [["A", {"c": "intarray", "v": [16777217, 2 ** 53 + 1]}],
                                                   ["B", {"c": "float32array", "v": [0.1, 16777217]}]]},
                 {"t": 1, "queue": [3], "sched": [["A", {"c": "len1array", "v": [0.30000000000000004]}],
                                                   ["B", {"c": "zerod", "v": [123456789]}]]},
                 {"t": 2, "queue": [3], "sched": [["A", {"c": "mixed", "v": [7, 7.5, 8.25, 9]}],
                                                   ["B", {"c": "npint", "v": [2 ** 62 + 3, 1, 2, 3]}]]}]},
        # step(): three calls, the driver clears the pending recompute before each (see F17 for what happens if not)
        {"mode": "step", "stations": ["S1", "S0"], "limit": None, "max_recompute": 2, "recompute": [3],
         "sessions": [{"station": "S1", "arrival": 1, "departure": 5, "session": "a"},
                      {"station": "S0", "arrival": 2, "departure": 4, "session": "b"}],
         "calls": [{"sched": [["S1", _r([1, 2, 3])]], "unstick": True}, {"sched": [["S0", _r([7, 8])]], "unstick": True},
                   {"sched": [], "unstick": True}, {"sched": [["S1", _r([4])], ["S0", _r([5])]], "unstick": True},
                   {"sched": [["S1", _r([6, 6, 6, 6, 6, 6])]], "unstick": True}]},
        # infeasible schedule only warns; every period rescheduled; last period reaches beyond the horizon
        {"mode": "run", "stations": ["S1", "S0"], "limit": 5, "maxrate": None,
         "sessions": [{"station": "S1", "arrival": 0, "departure": 3, "session": "a"},
                      {"station": "S0", "arrival": 1, "departure": 4, "session": "b"}], "recompute": [2],
         "max_recompute": 1,
         "script": {"0": [["S1", _r([30, 31, 32, 33, 34, 35])]], "1": [["S0", _r([6])]], "2": [],
                    "3": [["S0", _r([9, 9])], ["S1", _r([1, 1])]], "4": [["S1", _r([2, 2, 2, 2])]]}},
        # a history with steps that are not submissions.  Station ids registered in non-sorted order, every
        # station with its own pilots; long schedules at 0 and 1; the scheduler hands control back at 2 (restore
        # from a JSON string, same scheduler object) — the periods 2.. are covered only by the old schedule;
        # queue dry after period 4 with the schedule of period 1 still reaching to 8: restore through a buffer and
        # a NEW scheduler object with max_recompute 2, new session two periods later, then a bare swap, a third leg
        {"mode": "run", "stations": ["n2", "e1", "w3"], "limit": None, "maxrate": None, "max_recompute": None,
         "sessions": [{"station": "n2", "arrival": 0, "departure": 4, "session": "a"},
                      {"station": "e1", "arrival": 0, "departure": 4, "session": "b"},
                      {"station": "w3", "arrival": 1, "departure": 2, "session": "c"}], "recompute": [],
         "script": {"0": [["n2", _r([8] * 8)], ["e1", _r([16.0] * 8)]],
                    "1": [["w3", _r([25] * 8)], ["e1", _r([17.5] * 8)], ["n2", {"c": "array", "v": [9.0] * 8}]],
                    "2": [], "4": [], "7": [["e1", _r([30, 31])]], "9": [], "10": [["w3", _r([5])]]},
         "start": [{"a": "swap", "sched": "same"}],
         "breaks": {"2": [{"a": "json", "via": "str", "sched": "same"}]},
         "legs": [{"actions": [{"a": "json", "via": "buf", "sched": "new", "mr": 2}],
                   "sessions": [{"station": "e1", "off": 2, "dur": 2, "session": "d"}], "recompute": []},
                  {"actions": [{"a": "swap", "sched": "new", "mr": None}],
                   "sessions": [{"station": "w3", "off": 0, "dur": 1, "session": "e"}], "recompute": []}]},
        # the same class through step(): restore (file, no update_scheduler at all) and swaps between the calls,
        # the first call's schedule reaching past them; follow-up schedules empty or one period long
        {"mode": "step", "stations": ["S2", "ca-10", "S0"], "limit": None, "max_recompute": 3, "recompute": [6],
         "sessions": [{"station": "S2", "arrival": 1, "departure": 7, "session": "a"}],
         "calls": [{"sched": [["S2", _r([1, 2, 3, 4, 5, 6, 7])], ["ca-10", _r([11, 12, 13, 14, 15, 16, 17])]]},
                   {"sched": [], "pre": [{"a": "json", "via": "file", "sched": "none"}]},
                   {"sched": [["S0", _r([9])]], "pre": [{"a": "swap", "sched": "new"}]},
                   {"sched": [], "pre": [{"a": "json", "via": "str", "sched": "same"}, {"a": "swap", "sched": "same"}]}]},
        # and between direct submissions
        {"mode": "direct", "stations": ["S2", "S1", "ca-10"], "limit": 40, "start_queue": [6],
         "ops": [{"t": 0, "queue": [6], "sched": [["S1", _r([1, 2, 3, 4, 5])], ["ca-10", _r([6, 7, 8, 9, 10])]],
                  "pre": [{"a": "json", "via": "buf", "sched": "none"}]},
                 {"t": 2, "queue": [6], "sched": [["S2", _r([20.5])]], "pre": [{"a": "json", "via": "str", "sched": "new"}]},
                 {"t": 3, "queue": [], "sched": [["S1", _r([30, 31])]], "pre": [{"a": "swap", "sched": "same"}]}]},
    ]


def _exh_cases(rng):
    total = _exh_total()
    step = 2500
    out = [{"mode": "exh", "lo": lo, "hi": min(total, lo + step)} for lo in range(0, total, step)]
    return out


def _gen_step(rng):
    """a simulation driven through Simulator.step(): a list of calls, each with its own schedule"""
    base = _gen_run(rng)
    stations = base["stations"]
    p_bad = 0.12 if rng.random() < 0.15 else 0.0
    # the plain multi-call sequence is the default; a few cases also poke the private flags between calls
    unstick_all = rng.random() < 0.1
    calls = []
    for _ in range(rng.randint(1, 12)):
        calls.append({"sched": _gen_sched(rng, stations, nonneg=True, p_bad=p_bad, p_empty=0.1),
                      "unstick": unstick_all})
    # step() handles the events of period t only after the trip of period t-1, so a scenario is in step with
    # the clock only if nothing happens at time 0: shift everything by one period
    sessions = [dict(x, arrival=x["arrival"] + 1, departure=x["departure"] + 1) for x in base["sessions"]]
    recompute = [t + 1 for t in base["recompute"]]
    out = {"mode": "step", "stations": stations, "limit": base["limit"], "sessions": sessions,
           "recompute": recompute, "max_recompute": rng.choice([None, None, 1, 2, 3, 5]), "calls": calls,
           "seed_lsu": rng.random() < 0.3}
    if rng.random() < 0.45:
        # save / restore / update_scheduler between step() calls (before the first = before use)
        for c in calls:
            if rng.random() < 0.3:
                c["pre"] = _gen_actions(rng, allow_none=True)
        if rng.random() < 0.15:
            out["net_json"] = rng.choice(["str", "buf"])
    return out


def generate(rng, n, tier):
    out = []
    for i in range(n):
        j = i % 10
        out.append(_gen_run(rng) if j in (1, 3, 6, 8) else _gen_step(rng) if j in (4, 9) else _gen_direct(rng))
    if tier == "thorough":
        out.extend(_exh_cases(rng))
    return out


# ------------------------------------------------------------------ interface for check.py

def run_impl(case):
    if case["mode"] == "direct":
        return _run_direct(case)
    if case["mode"] == "exh":
        return _run_exh(case)
    if case["mode"] == "step":
        return _run_step(case)
    return _run_run(case)


def model_request(case, obs):
    if case["mode"] == "direct":
        return _req_direct(case, obs["width0"], marks=obs.get("marks") or [])
    if case["mode"] == "exh":
        return {"batch": [_req_direct(sc, o["width0"], brief=True)
                          for sc, o in zip(_exh_slice(case), obs["res"])]}
    return _req_run(case, obs)


def compare(case, obs, model):
    out = []
    if case["mode"] == "direct":
        _cmp_direct(case, obs, model, out)
    elif case["mode"] == "exh":
        for k, (sc, o, m) in enumerate(zip(_exh_slice(case), obs["res"], model["batch"])):
            _cmp_direct(sc, o, m, out, tag=f"scenario {case['lo'] + k}: ")
            if len(out) > 3:
                break
    else:
        _cmp_run(case, obs, model, out)
    return out


def oracle(case, obs):
    fails = []
    if case["mode"] == "direct":
        _oracle_direct(case, obs, fails)
    elif case["mode"] == "exh":
        for k, (sc, o) in enumerate(zip(_exh_slice(case), obs["res"])):
            _oracle_direct(sc, o, fails, tag=f"scenario {case['lo'] + k}: ")
            if fails:
                break
    elif case["mode"] == "step":
        _oracle_step(case, obs, fails)
    else:
        _oracle_run(case, obs, fails)
    return fails


def shrink(case, kind):
    """an exhaustive slice shrinks to its first failing scenario; a direct case to its shortest failing prefix
    with single operations dropped"""
    if case["mode"] == "exh":
        for sc in _exh_slice(case):
            if any(f["kind"] == kind for f in oracle(sc, run_impl(sc))):
                return shrink(sc, kind)
        return case
    if case["mode"] == "direct":
        cur = case
        changed = True
        while changed and len(cur["ops"]) > 1:
            changed = False
            for i in range(len(cur["ops"])):
                cand = dict(cur, ops=cur["ops"][:i] + cur["ops"][i + 1:])
                if any(f["kind"] == kind for f in oracle(cand, run_impl(cand))):
                    cur = cand
                    changed = True
                    break
        return cur
    if case["mode"] == "step":
        cur = case
        changed = True
        while changed and len(cur["calls"]) > 1:
            changed = False
            for i in reversed(range(len(cur["calls"]))):
                cand = dict(cur, calls=cur["calls"][:i] + cur["calls"][i + 1:])
                if any(f["kind"] == kind for f in oracle(cand, run_impl(cand))):
                    cur = cand
                    changed = True
                    break
        return cur
    if case["mode"] == "run":
        cur = case

        def still(cand):
            try:
                return any(f["kind"] == kind for f in oracle(cand, run_impl(cand)))
            except Exception:
                return False
        for fld in ("start", "net_json", "on_reject"):
            if cur.get(fld) and still({k: v for k, v in cur.items() if k != fld}):
                cur = {k: v for k, v in cur.items() if k != fld}
        for t in sorted(cur.get("breaks") or {}):
            cand = dict(cur, breaks={k: v for k, v in cur["breaks"].items() if k != t})
            if still(cand):
                cur = cand
        while cur.get("legs") and still(dict(cur, legs=cur["legs"][:-1])):
            cur = dict(cur, legs=cur["legs"][:-1])
        for key in sorted(case["script"], key=lambda k: (int(k.split("r")[0]), k)):
            cand = dict(cur, script={k: v for k, v in cur["script"].items() if k != key})
            try:
                if any(f["kind"] == kind for f in oracle(cand, run_impl(cand))):
                    cur = cand
            except Exception:
                pass
        return cur
    return case


def _direct_feats(case, obs, out):
    stations = case["stations"]
    acc = []
    width = obs["width0"]
    for o, st in zip(case["ops"], obs["steps"]):
        pairs = o["sched"]
        out.append("lastTs:" + ("none" if not o["queue"] else "some"))
        if st["err"]:
            out.append("err:" + st["err"])
            continue
        if not pairs:
            out.append("sched:empty")
            continue
        n = len(pairs[0][1]["v"])
        out.append(f"len:{min(n, 6)}")
        out.append("stations:" + ("all" if len(pairs) == len(stations) else "subset"))
        for _, r in pairs:
            out.append("row:" + r["c"])
        t = int(o["t"])
        if t + n > width:
            out.append("grow")
            if not o["queue"]:
                out.append("grow_with_empty_queue")
            elif max(o["queue"]) + 1 > t + n:
                out.append("grow_to_lastTs")
            width = max(width, t + n, (max(o["queue"]) + 1) if o["queue"] else 0)
        if any(a < t + n and t < a + m for a, m in acc):
            out.append("overwrites_earlier")
        acc.append((t, n))


def _mark_feats(case, obs, out):
    marks = obs.get("marks") or []
    if not marks:
        return
    stations = case["stations"]
    out.append("history_with_restore_or_swap")
    unsorted = list(stations) != sorted(stations)
    for m in marks:
        what = ("json_" + str(m["via"])) if m["a"] == "json" else "update_scheduler"
        out.append(f"action:{what}:scheduler_{m['sched']}")
        if m.get("at"):
            out.append("action_at:" + m["at"])
        out.append("action_when:" + ("before_use" if m["ncalls"] == 0 and m["nlog"] == 0 else "mid_history"))
        if m["pending"]:
            # an earlier schedule still reaches past the current period: the step must not lose / misplace it
            out.append(("restore" if m["a"] == "json" else "swap") + "_with_pending_pilots")
            rows = m["rows"]
            if m["a"] == "json" and unsorted and not isinstance(rows, str) and len({tuple(r[m["t"]:]) for r in rows}) > 1:
                out.append("restore_unsorted_ids_distinct_pending_rows")
    if case.get("net_json"):
        out.append("network_json_before_use:" + case["net_json"])
    # a period simulated after a restore / swap whose pilots come from a schedule submitted BEFORE it
    for m in marks:
        later = [e for e in obs["log"][m["nlog"]:]] if "log" in obs else []
        if m["pending"] and later:
            out.append("periods_simulated_after_" + ("restore" if m["a"] == "json" else "swap") + "_with_pending_pilots")


def features(case, obs):
    out = ["mode:" + case["mode"]]
    if case["mode"] != "exh":
        out.append("station_ids:" + ("single" if len(case["stations"]) == 1 else
                                     "sorted" if list(case["stations"]) == sorted(case["stations"]) else "unsorted"))
        _mark_feats(case, obs, out)
    if case["mode"] == "direct":
        if case.get("limit") is not None:
            out.append("constrained_network")
        _direct_feats(case, obs, out)
    elif case["mode"] == "exh":
        out.append(f"exh_scenarios:{obs['n']}")
    elif case["mode"] == "step":
        out.append("step_max_recompute:" + str(case.get("max_recompute")))
        out.append(f"step_trips_total:{min(len(obs['log']), 12)}")
        for c in obs["calls"]:
            out.append(f"step_trips:{min(c['trips'], 4)}")
            if c["err"]:
                out.append("step_err:" + c["err"])
            if c["trips"] == 0 and not c["queue_empty"]:
                out.append("step_noop_with_pending_events")
            if c["ret"]:
                out.append("step_returned_done")
        if obs["final"] and len(obs["final"][0]) > obs["width0"]:
            out.append("grow")
        if any(e["applied"] != [0.0] * len(e["applied"]) for e in obs["log"]):
            out.append("nonzero_pilots_applied")
    else:
        for c in obs["calls"]:
            la = c.get("last_applied")
            if isinstance(la, list):
                out.append("last_applied:" + ("empty_early" if c["t"] - 1 <= 0 else "nonempty" if la else "empty"))
            for _, r in c["sched"]:
                out.append("row:" + r["c"])
        out.append("max_recompute:" + str(case.get("max_recompute")))
        out.append("run_err:" + str(obs["err"]))
        out.append(f"run_calls_of_run():{obs.get('runs', 1)}")
        for i, c in enumerate(obs["calls"]):
            if c.get("raised"):
                out.append("rejected_in_run:" + c["raised"])
                if i + 1 < len(obs["calls"]) and obs["calls"][i + 1]["t"] == c["t"]:
                    out.append("rescheduled_in_same_period_after_rejection")
        # a period whose pilots come from the tail of an older schedule although the scheduler has been
        # called (and answered with nothing or something shorter) since
        ok = [(i, c) for i, c in enumerate(obs["calls"]) if not c.get("raised")]
        tails = 0
        for e in obs["log"]:
            made = [(i, c) for i, c in ok if c["t"] <= e["t"]]
            win = None
            for i, c in made:
                if _accepted(case["stations"], c["sched"]) and c["t"] <= e["t"] < c["t"] + len(c["sched"][0][1]["v"]):
                    win = i
            if win is not None and made and made[-1][0] > win:
                tails += 1
        if tails:
            out.append("period_covered_only_by_old_tail")
            out.append(f"old_tail_periods:{min(tails, 6)}")
        out.append(f"periods:{min(len(obs['log']), 12)}")
        out.append(f"calls:{min(len(obs['calls']), 12)}")
        for c in obs["calls"]:
            if c["lastTs"] is None:
                out.append("call_with_empty_queue")
                if c["sched"] and _accepted(case["stations"], c["sched"]) and len(c["sched"][0][1]["v"]) > 1:
                    out.append("last_period_multi_period_schedule")
            if not c["sched"]:
                out.append("sched:empty")
            elif _accepted(case["stations"], c["sched"]):
                out.append(f"len:{min(len(c['sched'][0][1]['v']), 6)}")
                out.append("stations:" + ("all" if len(c["sched"]) == len(case["stations"]) else "subset"))
        if obs["final"] and len(obs["final"][0]) > obs["width0"]:
            out.append("grow")
        if any(e["applied"] != [0.0] * len(e["applied"]) for e in obs["log"]):
            out.append("nonzero_pilots_applied")
    return out


def nontrivial(case, obs):
    if case["mode"] == "exh":
        return True
    if case["mode"] == "step":
        return len(obs["log"]) >= 2 or any(c["err"] for c in obs["calls"])
    f = features(case, obs)
    return any(x in f for x in ("overwrites_earlier", "grow")) or any(x.startswith("err:") or
                                                                      (x.startswith("run_err:") and x != "run_err:None") for x in f) \
        or (case["mode"] == "run" and len(obs["calls"]) >= 2)
