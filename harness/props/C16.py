"""C16 — the predefined site networks never admit more power than the transformer ratings."""
from __future__ import annotations

import math
import warnings
from fractions import Fraction

import numpy as np

from core.common import f2b, b2f, close

ID = "C16"
LEAN_MODULES = ["AcnProofs.C16", "AcnProofs.C16Simple"]
DRIVER = "drv_C16"
REQUIRED_THEOREMS = [
    "Acn.C16.site_structure_caltech", "Acn.C16.site_structure_jpl", "Acn.C16.site_structure_office001",
    "Acn.C16.site_instances", "Acn.C16.wye_power", "Acn.C16.line_current_sq", "Acn.C16.site_power_bound",
    "Acn.C16.site_power_bound_nominal208", "Acn.C16.pod_panel_within_rating", "Acn.C16.generated_sites_power_bound",
    "Acn.C16.site_structure_all_voltages", "Acn.C16.feasible_iff", "Acn.C16.secondary_feasible_iff",
    "Acn.C16.wye_power_attained", "Acn.C16.balanced_draws_full_allowance", "Acn.C16.office001_bound_attained", "Acn.C16.caltech_bound_attained",
    "Acn.C16.primary_implied", "Acn.C16.site_default_ratings",
    "Acn.C16.simple_formula", "Acn.C16.simple_defaults_documented", "Acn.C16.simple_instances",
    "Acn.C16.simple_acn_structure", "Acn.C16.simple_acn_feasible_iff", "Acn.C16.simple_acn_power_le_cap",
    "Acn.C16.simple_acn_power_le_cap_explicit", "Acn.C16.simple_acn_tight", "Acn.C16.simple_acn_above_rejected",
]
BUDGET = {"quick": 700, "thorough": 12000, "search": 4000}
TRUSTED = [
    "numpy complex arithmetic (exp(1j·deg2rad φ), @, abs) — modelled with the exact unit phasors "
    "(√3/2, 1/2), (0, −1), (−√3/2, 1/2) and squared magnitudes; differences ≤ 1e-13 relative, compared with 1e-9 slack",
    "translate_sites.py: dump of the executed factories; the dependence of every limit on the capacity (simple_acn: capacity and "
    "voltage) arguments is FITTED by probing the factory (1, 8, 1000 kW) and normalised to one canonical rational monomial — the "
    "generated data are a function of the networks built, not of the spelling of the source; the AST is read only as a hint for "
    "the driver's floating-point operation order (Gen/SitesSrc.lean, no theorem imports it)",
]
ASSUMPTIONS = [
    "theorems are over an arbitrary linear ordered field with r·r = 3 (√3); the implementation computes in doubles",
    "transformer ratings are derived in the code from 120 V line-to-neutral; the nominal 208 V is allowed the factor "
    "208/(120√3) and the declared feasibility tolerance max(1e-5, 1e-7·limit) A per line, nothing more (DESIGN §8)",
    "membership of stations in transformers / pods / sub-panels used by the oracle is pinned in this file "
    "(documented topology), not read from the implementation",
    "documented default ratings pinned in this file (SPEC / SIMPLE_DEFAULTS): Caltech 150 kW, JPL 45 / 150 kW, Office001 50 kW, "
    "simple_acn 150 kW, all at 208 V, real EVSEs for the sites and BASIC for simple_acn; pods 80 A, panels 100 / 225 A",
    "simple_acn: station ids are distinct (registering one id twice is outside the factory's contract; DESIGN §16); its power is "
    "judged at the EVSE voltage passed to the factory, with the declared tolerance max(vt, rt·limit) A and nothing more",
]
RULE = ("per case one real site object (caltech/jpl/office001 × basic/real EVSEs × default or other capacities), "
        "a non-negative direction matrix stations×T (random sparse, single-line-pair heavy, balanced, two-pair, "
        "pod-only, panel-only, one-transformer, single-EVSE, allowable-rate grids) and a mode: raw, scaled by bisection on "
        "is_feasible to the boundary·(1∓1e-8), exact −90° edge (value = bound / bound+1ulp), malformed shape, negative; "
        "voltage argument default / 208 / 240, caltech also through the deprecated CaltechACN wrapper (keyword and positional), "
        "12 % of the site objects after a JSON save and reload (from_json(to_json())), 12 % of the raw/boundary cases ask "
        "through is_feasible(linear=True) (oracle only); "
        "every period is also judged alone (is_feasible of the single column); Office001 exhaustively over {0,16,32}^8 "
        "(27 chunks × 243 periods; all chunks at three capacities in the thorough tier, three random chunks in quick); "
        "non-trivial = schedule reported feasible with a transformer above 99 % of its allowance, or a boundary/edge case; "
        "distinct by hash of the case; 18 % of the site objects are built WITHOUT passing the capacities (or with no argument at "
        "all) and judged against the pinned documented ratings; "
        "simple stream (one simple_acn object per case): 1 … 64 distinct station ids, EVSE type BASIC / AeroVironment / "
        "ClipperCreek / omitted, voltage 120 / 208 / 240 / 277 / other / omitted, capacity default / integer / fractional / 0 / "
        "negative / omitted, positional or keyword call, network_type omitted / ChargingNetwork / a subclass / StochasticNetwork, "
        "JSON reload, own tolerances; schedules of 1-3 periods: random EV-like rates, every period at the first-principles "
        "bound·(1−1e-8) (must be accepted), one period at bound·(1+1e-8) (must be refused), the mirror images with negative "
        "currents, exact edge (integer multiples of ulp(bound) summing to the bound exactly / one ulp more), wrong number of "
        "rows, voltage 0 (ZeroDivisionError); non-trivial = boundary / edge case or a feasible schedule above 99 % of the cap")

VLL_NOM = 208.0
KV = VLL_NOM / (120.0 * math.sqrt(3.0))
DELTA = 1e-8
DEFAULT_TOL = (1e-5, 1e-7)

# ------------------------------------------------------------------ pinned (documented) topology

CC_POD = ["CA-322", "CA-493", "CA-496", "CA-320", "CA-495", "CA-321", "CA-323", "CA-494"]
AV_POD = ["CA-324", "CA-325", "CA-326", "CA-327", "CA-489", "CA-490", "CA-491", "CA-492"]
SPEC = {
    "caltech": {
        "factory": "caltech_acn", "cap_names": ["transformer_cap"], "defaults": [150], "n": 54,
        "xfmrs": [("", 0, lambda s: s.startswith("CA-"))],
        "pods": [("CC Pod", 80.0, CC_POD), ("AV Pod", 80.0, AV_POD)], "panels": [],
    },
    "jpl": {
        "factory": "jpl_acn", "cap_names": ["first_transformer_cap", "third_fourth_transformer_cap"],
        "defaults": [45, 150], "n": 52,
        "xfmrs": [("First Floor Transformer", 0, lambda s: s.startswith("AG-1F")),
                  ("Third/Fourth Floor Transformer", 1, lambda s: s.startswith("AG-3F") or s.startswith("AG-4F"))],
        "pods": [],
        "panels": [("First Floor SP1", 100.0, lambda s: s in ("AG-1F11", "AG-1F12", "AG-1F13", "AG-1F14")),
                   ("First Floor SP2", 100.0, lambda s: s in ("AG-1F01", "AG-1F02", "AG-1F03", "AG-1F04", "AG-1F05", "AG-1F06")),
                   ("Third Floor Panel", 225.0, lambda s: s.startswith("AG-3F")),
                   ("Fourth Floor Panel", 225.0, lambda s: s.startswith("AG-4F"))],
    },
    "office001": {
        "factory": "office001_acn", "cap_names": ["transformer_cap"], "defaults": [50], "n": 8,
        "xfmrs": [("", 0, lambda s: True)], "pods": [], "panels": [],
    },
}
OTHER_CAPS = {
    "caltech": [[80], [225.5], [150.0], [40], [1000], [61.7]],
    "jpl": [[30, 112.5], [75, 300], [45, 45], [10, 500], [45.5, 149.9]],
    "office001": [[150], [33.3], [50.0], [20], [75]],
}

_NETS = {}


def _net(site, basic, caps, voltage=None, wrapper=None, omit=None):
    """omit = "caps": the capacities are NOT passed (the case's caps are the pinned documented defaults);
       omit = "all": the factory is called with no argument at all (documented: real EVSEs, 208 V, default ratings)"""
    key = (site, bool(basic), tuple(float(c) for c in caps), voltage, wrapper, omit)
    if key not in _NETS:
        import contextlib
        import io
        from acnportal.acnsim.network import sites as S
        sp = SPEC[site]
        kw = dict(zip(sp["cap_names"], caps)) if omit is None else {}
        if voltage is not None and omit != "all":
            kw["voltage"] = voltage
        bkw = {} if omit == "all" else {"basic_evse": bool(basic)}
        with warnings.catch_warnings(), contextlib.redirect_stdout(io.StringIO()):
            warnings.simplefilter("ignore")
            # "the predefined site" is what a FRESH call of the factory returns, whatever was done to networks built earlier:
            # an earlier network of the same arguments is built first and stripped (constraints removed, tolerances blown up,
            # an uncontrolled baseline experiment), then the network under judgement is built
            try:
                decoy = getattr(S, sp["factory"])(**bkw, **kw)
                for nm in list(decoy.constraint_index):
                    decoy.remove_constraint(nm)
                decoy.violation_tolerance = 1e9
                decoy.relative_tolerance = 1e9
            except Exception:  # noqa: BLE001  (a factory that cannot build is reported by the real build below)
                pass
            if wrapper == "pos" and omit is None:      # deprecated wrapper, positional (caltech only)
                net = S.CaltechACN(bool(basic), 208 if voltage is None else voltage, *caps)
            elif wrapper in ("kw", "pos"):
                net = S.CaltechACN(**bkw, **kw)
            elif wrapper == "json":    # the site network after a JSON save and reload (still the predefined site)
                net0 = getattr(S, sp["factory"])(**bkw, **kw)
                net = type(net0).from_json(net0.to_json())
            else:
                net = getattr(S, sp["factory"])(**bkw, **kw)
        if len(_NETS) > 64:
            _NETS.clear()
        _NETS[key] = net
    return _NETS[key]


def _case_net(case):
    return _net(case["site"], case["basic"], case["caps"], case.get("voltage"), case.get("wrapper"), case.get("omit"))


def _case_voltage(case):
    v = case.get("voltage")
    return VLL_NOM if v is None or case.get("omit") == "all" else float(v)


# ------------------------------------------------------------------ generation
# Directions are generated WITHOUT looking at the implementation: station order / groups come from the
# pinned spec sizes only (index based); the implementation supplies the scale factor in run_impl.

def _rand_rate(rng):
    r = rng.random()
    if r < 0.35:
        return 0.0
    if r < 0.55:
        return float(rng.choice([6, 8, 16, 24, 32]))
    if r < 0.65:
        return 32.0
    return round(rng.uniform(0, 32), 3)


def _direction(rng, site, T):
    n = SPEC[site]["n"]
    kind = rng.choice(["random", "random", "pair_heavy", "balanced", "two_pair", "group_only", "xfmr_only",
                       "single", "grid", "subset"])
    D = [[0.0] * T for _ in range(n)]
    # index-residue classes stand in for line pairs (the real grouping is the implementation's business);
    # "by_angle" kinds are resolved in run_impl from the network's own angle vector
    if kind == "random":
        for j in range(n):
            for t in range(T):
                D[j][t] = _rand_rate(rng)
    elif kind == "grid":
        for j in range(n):
            for t in range(T):
                D[j][t] = float(rng.choice([0, 6, 7, 8, 9, 10, 12, 16, 24, 30, 32]))
    elif kind == "single":
        j = rng.randrange(n)
        for t in range(T):
            D[j][t] = 1.0
    elif kind == "subset":
        k = rng.randint(1, max(1, n // 3))
        for j in rng.sample(range(n), k):
            for t in range(T):
                D[j][t] = round(rng.uniform(1, 32), 2)
    else:
        # resolved against the network's angles in run_impl
        w = {"pair_heavy": rng.sample([1.0, rng.choice([0.0, 0.05, 0.2]), rng.choice([0.0, 0.1])], 3),
             "balanced": [1.0, 1.0, 1.0],
             "two_pair": rng.sample([1.0, 1.0, 0.0], 3) if rng.random() < 0.5 else rng.sample([1.0, round(rng.uniform(0.2, 1), 2), 0.0], 3),
             "group_only": [1.0, 1.0, 1.0], "xfmr_only": [1.0, 1.0, 1.0]}[kind]
        return {"kind": kind, "w": w, "jitter": [[round(rng.uniform(0.5, 1.0), 3) if rng.random() < 0.5 else 1.0
                                                  for _ in range(T)] for _ in range(n)],
                "pick": rng.randrange(8), "T": T, "equalize": rng.random() < 0.6}
    return {"kind": kind, "D": D, "T": T}


def _gen_case(rng, i):
    site = rng.choice(["caltech", "jpl", "office001", "office001", "jpl"])
    sp = SPEC[site]
    caps = list(sp["defaults"]) if rng.random() < 0.5 else list(rng.choice(OTHER_CAPS[site]))
    T = rng.choice([1, 1, 1, 2, 3])
    case = {"site": site, "basic": rng.random() < 0.5, "caps": caps, "dir": _direction(rng, site, T)}
    v = rng.random()
    if v < 0.12:
        case["voltage"] = 240          # the dump carries the 208 V and the 240 V topology of every site
    elif v < 0.2:
        case["voltage"] = rng.choice([208, 208.0])
    if site == "caltech" and rng.random() < 0.25:
        case["wrapper"] = rng.choice(["kw", "pos"])
    elif rng.random() < 0.12:
        case["wrapper"] = "json"
    # the documented DEFAULTS: the capacities are not passed / nothing is passed; judged against the pinned ratings
    if list(caps) == list(sp["defaults"]) and rng.random() < 0.36:
        if rng.random() < 0.5:
            case["omit"] = "all"
            case["basic"] = False
            case.pop("voltage", None)
        else:
            case["omit"] = "caps"
    r = rng.random()
    if i % 11 == 10:
        case["mode"] = rng.choice(["edge0", "edge+"])
        case["dir"] = {"kind": "edge", "pick": rng.randrange(64), "T": 1}
    elif r < 0.30:
        case["mode"] = "raw"
        case["scale"] = rng.choice([1.0, 1.0, 0.5, 0.25, 2.0, 0.1])
    elif r < 0.62:
        case["mode"] = "boundary-"
    elif r < 0.90:
        case["mode"] = "boundary+"
    elif r < 0.94:
        case["mode"] = "malformed"
        case["drop"] = rng.choice([1, -1])
    elif r < 0.97:
        case["mode"] = "negative"
        case["scale"] = 1.0
    else:
        case["mode"] = "boundary-"
        case["tol"] = rng.choice([[0.0, 0.0], [1e-3, 0.0], [0.0, 1e-4], [1e-5, 1e-7]])
    if case["mode"] in ("raw", "boundary-", "boundary+") and rng.random() < 0.12:
        case["linear"] = True          # ask through the 'linear' relaxation of is_feasible
    return case


def corpus():
    out = []
    # balanced at the secondary limits (DESIGN §8: 150.00 kW at 120√3 V, 150.11 kW at 208 V)
    for site in ("caltech", "jpl", "office001"):
        for basic in (False, True):
            out.append({"site": site, "basic": basic, "caps": list(SPEC[site]["defaults"]), "mode": "boundary-",
                        "dir": {"kind": "balanced", "w": [1.0, 1.0, 1.0], "jitter": None, "pick": 0, "T": 1, "equalize": True}})
            out.append({"site": site, "basic": basic, "caps": list(SPEC[site]["defaults"]), "mode": "boundary+",
                        "dir": {"kind": "balanced", "w": [1.0, 1.0, 1.0], "jitter": None, "pick": 0, "T": 2, "equalize": True}})
    # every single EVSE pushed to the boundary: an EVSE missing from a row can be pushed without bound
    for site in ("caltech", "jpl", "office001"):
        n = SPEC[site]["n"]
        for j in range(n):
            D = [[0.0] for _ in range(n)]
            D[j][0] = 1.0
            out.append({"site": site, "basic": True, "caps": list(SPEC[site]["defaults"]), "mode": "boundary-",
                        "dir": {"kind": "single", "D": D, "T": 1}})
    # pods and panels pushed alone
    for pick in range(4):
        out.append({"site": "caltech", "basic": False, "caps": [150], "mode": "boundary-",
                    "dir": {"kind": "group_only", "w": [1.0, 1.0, 1.0], "jitter": None, "pick": pick, "T": 1, "equalize": False}})
        out.append({"site": "jpl", "basic": False, "caps": [45, 150], "mode": "boundary-",
                    "dir": {"kind": "group_only", "w": [1.0, 1.0, 1.0], "jitter": None, "pick": pick, "T": 1, "equalize": True}})
    for pick in range(2):
        for w in ([1.0, 1.0, 1.0], [1.0, 0.0, 0.0], [0.0, 1.0, 0.0], [0.0, 0.0, 1.0], [1.0, 1.0, 0.0], [0.0, 1.0, 1.0], [1.0, 0.0, 1.0]):
            out.append({"site": "jpl", "basic": True, "caps": [45, 150], "mode": "boundary-",
                        "dir": {"kind": "xfmr_only", "w": w, "jitter": None, "pick": pick, "T": 1, "equalize": True}})
    for site in ("caltech", "office001"):
        for w in ([1.0, 0.0, 0.0], [0.0, 1.0, 0.0], [0.0, 0.0, 1.0], [1.0, 1.0, 0.0], [0.0, 1.0, 1.0], [1.0, 0.0, 1.0]):
            out.append({"site": site, "basic": True, "caps": list(SPEC[site]["defaults"]), "mode": "boundary-",
                        "dir": {"kind": "two_pair", "w": w, "jitter": None, "pick": 0, "T": 1, "equalize": True}})
    # non-default voltage argument and the deprecated wrapper (positional call: basic, voltage, cap)
    bal = {"kind": "balanced", "w": [1.0, 1.0, 1.0], "jitter": None, "pick": 0, "T": 1, "equalize": True}
    for site in ("caltech", "jpl", "office001"):
        out.append({"site": site, "basic": False, "caps": list(SPEC[site]["defaults"]), "voltage": 240,
                    "mode": "boundary-", "dir": dict(bal)})
    for wrapper, volt, caps in (("kw", None, [150]), ("pos", 240, [80]), ("pos", 208, [225.5]), ("kw", 240, [150])):
        c = {"site": "caltech", "basic": True, "caps": caps, "wrapper": wrapper, "mode": "boundary-", "dir": dict(bal)}
        if volt is not None:
            c["voltage"] = volt
        out.append(c)
    for site in ("caltech", "jpl", "office001"):
        for pick in range(6):
            out.append({"site": site, "basic": True, "caps": list(SPEC[site]["defaults"]), "mode": "edge0",
                        "dir": {"kind": "edge", "pick": pick * 7, "T": 1}})
            out.append({"site": site, "basic": True, "caps": list(SPEC[site]["defaults"]), "mode": "edge+",
                        "dir": {"kind": "edge", "pick": pick * 7, "T": 1}})
    # the documented default ratings: nothing passed / only the EVSE type passed; at and just above the allowance
    for site in ("caltech", "jpl", "office001"):
        for omit, basic in (("all", False), ("caps", True), ("caps", False)):
            for mode in ("boundary-", "boundary+"):
                out.append({"site": site, "basic": basic, "caps": list(SPEC[site]["defaults"]), "omit": omit, "mode": mode, "dir": dict(bal)})
    out.append({"site": "caltech", "basic": False, "caps": [150], "omit": "all", "wrapper": "kw", "mode": "boundary-", "dir": dict(bal)})
    out += _simple_corpus()
    return out


def _exhaustive(chunk, caps):
    """Office001, every schedule in {0,16,32}^8 (6561 = 27 chunks × 243 periods; one period per schedule)"""
    return {"site": "office001", "basic": True, "caps": caps, "mode": "exhaustive", "chunk": chunk,
            "dir": {"kind": "exhaustive", "T": 243}}


def generate(rng, n, tier):
    out = [_gen_case(rng, i) for i in range(n)]
    out += [_simple_case(rng, i) for i in range(max(40, (n * 3) // 5))]
    if tier == "quick":
        out += [_exhaustive(rng.randrange(27), rng.choice([[33.3], [50], [20]])) for _ in range(3)]
    else:  # thorough / search: the complete small scope, at three capacities (all / part / few accepted)
        out += [_exhaustive(k, caps) for caps in ([33.3], [50], [20]) for k in range(27)]
    return out


# ------------------------------------------------------------------ implementation

def _resolve_direction(case, net):
    """the direction matrix (stations × T) for kinds that refer to the network's own groups"""
    d = case["dir"]
    if "D" in d:
        return np.array(d["D"], dtype=float)
    ids = net.station_ids
    n = len(ids)
    T = d["T"]
    ang = np.array(net._phase_angles, dtype=float)
    sp = SPEC[case["site"]]
    D = np.zeros((n, T))
    kind = d["kind"]
    if kind in ("edge", "exhaustive"):
        return D
    w = d["w"]
    member = np.ones(n, dtype=bool)
    if kind == "xfmr_only":
        _, _, pred = sp["xfmrs"][d["pick"] % len(sp["xfmrs"])]
        member = np.array([pred(s) for s in ids])
    elif kind == "group_only":
        groups = [lambda s, L=L: s in L for (_, _, L) in sp["pods"]] + [p for (_, _, p) in sp["panels"]]
        if groups:
            pred = groups[d["pick"] % len(groups)]
            member = np.array([pred(s) for s in ids])
    for g, a in enumerate((30.0, -90.0, 150.0)):
        idx = [j for j in range(n) if member[j] and ang[j] == a]
        if not idx:
            continue
        share = w[g] / len(idx) if d.get("equalize") else w[g]
        for j in idx:
            D[j, :] = share
    # EVSEs with an angle outside the three line pairs still get current
    for j in range(n):
        if member[j] and ang[j] not in (30.0, -90.0, 150.0):
            D[j, :] = 1.0
    if d.get("jitter"):
        J = np.array(d["jitter"], dtype=float)
        if J.shape == D.shape:
            D = D * J
    return D


def _feas(net, S, tol, linear=False):
    kw = {"linear": True} if linear else {}   # the 'linear' relaxation is a way of asking the network too
    if tol is None:
        return bool(net.is_feasible(S, **kw))
    return bool(net.is_feasible(S, violation_tolerance=tol[0], relative_tolerance=tol[1], **kw))


def _boundary_scale(net, D, tol, linear=False):
    """largest λ (to ~1 ulp) with is_feasible(λ·D); None if D is zero; capped when nothing ever binds"""
    if not np.any(D > 0):
        return None
    lo, hi = 0.0, 1.0
    k = 0
    while _feas(net, hi * D, tol, linear):
        lo, hi = hi, hi * 2.0
        k += 1
        if k > 40:  # ~1e12 A and still accepted: some EVSE is constrained by nothing
            return lo
    for _ in range(70):
        mid = 0.5 * (lo + hi)
        if mid == lo or mid == hi:
            break
        if _feas(net, mid * D, tol, linear):
            lo = mid
        else:
            hi = mid
    return lo


def _edge_schedule(case, net, tol):
    """exact edge: one −90° EVSE (unit phasor (6e-17, −1): magnitudes are exact in doubles) at the smallest
    bound_i/|coef_i|; returns (S, expected feasibility) or (None, None)"""
    ang = np.array(net._phase_angles, dtype=float)
    cand = [j for j in range(len(ang)) if ang[j] == -90.0]
    if not cand:
        return None, None
    j = cand[case["dir"]["pick"] % len(cand)]
    vt, rt = tol if tol is not None else (net.violation_tolerance, net.relative_tolerance)
    bounds = net.magnitudes + np.maximum(vt, net.magnitudes * rt)
    best = None
    for i in range(len(bounds)):
        c = abs(float(net.constraint_matrix[i, j]))
        if c == 0:
            continue
        v = Fraction(float(bounds[i])) / Fraction(c)
        if best is None or v < best:
            best = v
    if best is None or Fraction(float(best)) != best:
        return None, None
    v = float(best)
    S = np.zeros((len(ang), 1))
    if case["mode"] == "edge0":
        S[j, 0] = v
        return S, True
    S[j, 0] = np.nextafter(v, np.inf)
    return S, False


def run_impl(case):
    if case.get("stream") == "simple":
        return _simple_run(case)
    net = _case_net(case)
    tol = case.get("tol")
    lin = bool(case.get("linear"))
    ids = list(net.station_ids)
    n = len(ids)
    obs = {
        "stations": ids, "names": list(net.constraint_index),
        "angles": [float(a) for a in net._phase_angles], "voltages": [float(v) for v in net._voltages],
        "limits": [float(x) for x in net.magnitudes],
        "tol": [float(net.violation_tolerance), float(net.relative_tolerance)] if tol is None else [float(tol[0]), float(tol[1])],
        "max_rates": sorted({float(x) for x in net.max_pilot_signals}),
        "continuous": [bool(x) for x in net.is_continuous],
    }
    M = np.array(net.constraint_matrix, dtype=float)
    # coverage: stations without a non-zero coefficient in a Secondary row of their (pinned) transformer
    unc = []
    for (xname, _, pred) in SPEC[case["site"]]["xfmrs"]:
        rows = [i for i, nm in enumerate(net.constraint_index)
                if nm.startswith(xname) and "Secondary" in nm]
        for j, s in enumerate(ids):
            if pred(s) and not any(M[i, j] != 0 for i in rows):
                unc.append(s)
    obs["uncovered"] = sorted(unc)
    mode = case["mode"]
    D = _resolve_direction(case, net)
    lam = None
    expected = None
    if mode == "exhaustive":
        base = case["chunk"] * 243
        S = np.zeros((n, 243))
        for t in range(243):
            x = base + t
            for j in range(n):
                S[j, t] = 16.0 * (x % 3)
                x //= 3
    elif mode in ("edge0", "edge+"):
        S, expected = _edge_schedule(case, net, tol)
        if S is None:
            obs["skip"] = "no exact edge"
            return obs
    elif mode in ("boundary-", "boundary+"):
        lam = _boundary_scale(net, D, tol, lin)
        if lam is None:
            obs["skip"] = "zero direction"
            return obs
        lam = lam * (1 - DELTA) if mode == "boundary-" else lam * (1 + DELTA)
        S = lam * D
    elif mode == "negative":
        S = -D
    elif mode == "malformed":
        S = D[:-1, :] if case.get("drop", 1) == 1 else np.vstack([D, D[:1, :]])
    else:
        S = case.get("scale", 1.0) * D
    obs["S"] = [[f2b(x) for x in row] for row in S.tolist()]
    obs["lam"] = lam
    obs["edge_expected"] = expected
    try:
        feas = _feas(net, S, tol, lin)
        mags = np.abs(net.constraint_current(S))
    except ValueError:
        obs["err"] = "ValueError"
        return obs
    obs["err"] = None
    obs["feasible"] = feas
    obs["feas_t"] = [_feas(net, S[:, t:t + 1], tol, lin) for t in range(S.shape[1])]
    # a caller that keeps ONE schedule array and fills it in place (a greedy loop: raise a rate, ask, lower it again): the
    # network is asked about the array while it is all zero, then the schedule is written INTO THE SAME ARRAY and it is asked again
    try:
        A = np.zeros_like(S, dtype=float)
        first = _feas(net, A, tol, lin)
        A[...] = S
        obs["feasible_inplace"] = [bool(first), bool(_feas(net, A, tol, lin))]
        A *= 0.0
        obs["feasible_inplace"].append(bool(_feas(net, A, tol, lin)))
    except ValueError:
        obs["feasible_inplace"] = None
    obs["mags"] = [[float(x) for x in row] for row in mags.tolist()]
    return obs


def _S(obs):
    return np.array([[b2f(x) for x in row] for row in obs["S"]], dtype=float)


# ------------------------------------------------------------------ model

def model_request(case, obs):
    if case.get("stream") == "simple":
        return _simple_request(case, obs)
    if "S" not in obs or case.get("linear"):
        return None   # linear-mode answers are judged by the oracle only (the site model is the phasor check)
    return {"site": case["site"], "voltage": f2b(_case_voltage(case)), "caps": [f2b(float(c)) for c in case["caps"]],
            "vt": f2b(obs["tol"][0]), "rt": f2b(obs["tol"][1]), "S": obs["S"]}


def _razor(obs, t=None):
    """is some |aggregate| (of period t / of any period) within 1e-9 (relative) of its bound?"""
    vt, rt = obs["tol"]
    for lim, row in zip(obs["limits"], obs["mags"]):
        b = lim + max(vt, rt * lim)
        for m in (row if t is None else row[t:t + 1]):
            if abs(m - b) <= 1e-9 * max(1.0, abs(b)):
                return True
    return False


def compare(case, obs, model):
    if case.get("stream") == "simple":
        return _simple_compare(case, obs, model)
    out = []
    if model.get("stations") != obs["stations"]:
        out.append("station ids differ between the regenerated model data and the site object")
    if model.get("names") != obs["names"]:
        out.append(f"constraint names differ: impl={obs['names']} model={model.get('names')}")
    ma = [a[0] / a[1] for a in model.get("angles", [])]
    if ma != obs["angles"]:
        out.append("phase angles differ between the regenerated model data and the site object")
    if model.get("err") == "no such topology in the dump":
        return [f"the regenerated site data have no {case['site']} topology at {_case_voltage(case)} V"]
    if not model.get("structure_ok", False):
        out.append("model: topoOk is false on the regenerated site data: " + "; ".join(model.get("structure_diag", [])[:6]))
    if obs.get("err") is not None or model.get("err") is not None:
        if (obs.get("err") == "ValueError") != (model.get("err") == "shape") or (
                model.get("err") not in (None, "shape")):
            out.append(f"error class: impl={obs.get('err')} model={model.get('err')}")
        return out
    ml = [b2f(x) for x in model["limits"]]
    if len(ml) != len(obs["limits"]) or not all(close(a, b) for a, b in zip(obs["limits"], ml)):
        out.append(f"limits impl={obs['limits']} model={ml}")
    mm = [[b2f(x) for x in row] for row in model["mags"]]
    for i, (ra, rm) in enumerate(zip(obs["mags"], mm)):
        for t, (a, m) in enumerate(zip(ra, rm)):
            if not close(a, m):
                out.append(f"|aggregate| row {i} ({obs['names'][i]}) period {t}: impl={a!r} model={m!r}")
                break
    if len(mm) != len(obs["mags"]):
        out.append("number of constraint rows differs")
    # exact-edge decisions are compared exactly when the model evaluates the very doubles of the implementation (it does when
    # the driver has the source's operation order, Gen/SitesSrc.lean); with limits that differ in the last bits an edge case is
    # a razor-edge case like any other
    exact_edge = case["mode"] in ("edge0", "edge+") and len(ml) == len(obs["limits"]) and all(a == b for a, b in zip(obs["limits"], ml))
    if model["feasible"] != obs["feasible"] and (exact_edge or not _razor(obs)):
        out.append(f"is_feasible impl={obs['feasible']} model={model['feasible']}")
    for t, (a, m) in enumerate(zip(obs["feas_t"], model.get("feas_t", []))):
        if a != m and (exact_edge or not _razor(obs, t)):
            out.append(f"is_feasible of period {t} alone: impl={a} model={m}")
            break
    if len(model.get("feas_t", [])) != len(obs["feas_t"]):
        out.append("number of periods differs")
    # per-transformer sums / power, pods: model (its own EVSE sets) vs implementation-side sums (pinned sets)
    S = _S(obs)
    sp = SPEC[case["site"]]
    mx = {x["name"]: x for x in model["xfmrs"]}
    for (xname, capi, pred) in sp["xfmrs"]:
        if xname not in mx:
            out.append(f"model has no transformer {xname!r}")
            continue
        sel = np.array([pred(s) for s in obs["stations"]])
        p_impl = VLL_NOM * S[sel, :].sum(axis=0)          # W at the nominal 208 V
        p_model = [b2f(x) for x in mx[xname]["powerW"]]  # W at 120√3 V
        for t in range(S.shape[1]):
            if not close(p_impl[t] / KV, p_model[t]):
                out.append(f"transformer {xname!r} period {t}: Σ V·I /KV impl={p_impl[t] / KV!r} model={p_model[t]!r}")
                break
        if not close(b2f(mx[xname]["cap"]), float(case["caps"][capi])):
            out.append(f"transformer {xname!r}: model reads capacity {b2f(mx[xname]['cap'])}, spec {case['caps'][capi]}")
    mp = {p["name"]: p for p in model["pods"]}
    for (pname, rating, members) in sp["pods"]:
        if pname not in mp:
            out.append(f"model has no pod {pname!r}")
            continue
        sel = np.array([s in members for s in obs["stations"]])
        tot = S[sel, :].sum(axis=0)
        pm = [b2f(x) for x in mp[pname]["sum"]]
        if not all(close(a, b) for a, b in zip(tot, pm)):
            out.append(f"pod {pname!r}: Σ impl={tot.tolist()} model={pm}")
    return out


# ------------------------------------------------------------------ property oracle (implementation only)

def _tolterm(vt, rt, lim):
    return max(vt, rt * lim)


def oracle(case, obs):
    if case.get("stream") == "simple":
        return _simple_oracle(case, obs)
    fails = []
    sp = SPEC[case["site"]]
    ids = obs["stations"]
    # (a) every EVSE carries a line-to-line angle, nominal voltage, and sits under a transformer row
    bad = [ids[j] for j, a in enumerate(obs["angles"]) if a not in (30.0, -90.0, 150.0)]
    if bad:
        fails.append({"kind": "evse_angle_not_line_to_line", "detail": f"{bad[:5]} angles {sorted(set(obs['angles']))}"})
    if len(ids) != sp["n"] or len(set(ids)) != len(ids):
        fails.append({"kind": "station_set_changed", "detail": f"{len(ids)} stations, expected {sp['n']}"})
    if any(v != _case_voltage(case) for v in obs["voltages"]):
        fails.append({"kind": "evse_voltage_not_as_requested",
                      "detail": f"{sorted(set(obs['voltages']))} for voltage argument {_case_voltage(case)}"})
    if obs["uncovered"]:
        fails.append({"kind": "evse_not_under_transformer", "detail": f"{obs['uncovered'][:6]}"})
    # (a') the limits the object carries are the documented ratings: secondary rows cap·1000/3/120 A for the capacities asked
    #      for — the pinned documented defaults when they were not passed —, pods and panels their literal ratings
    want = {}
    for (xname, capi, _) in sp["xfmrs"]:
        for ph in "ABC":
            want[(xname + " Secondary " + ph).strip()] = float(case["caps"][capi]) * 1000.0 / 3.0 / 120.0
    for (pname, rating, _) in sp["pods"]:
        want[pname] = rating
    for (pname, rating, _) in sp["panels"]:
        for ph in "abc":
            want[pname + " I_" + ph] = rating
    got = dict(zip(obs["names"], obs["limits"]))
    for nm, w in want.items():
        if nm not in got or not close(got[nm], w):
            fails.append({"kind": "default_rating_not_documented" if case.get("omit") else "limit_not_the_rating",
                          "detail": f"{case['site']} {'built with its default arguments' if case.get('omit') else 'built for ' + str(case['caps'])}"
                                    f": constraint {nm!r} carries {got.get(nm)!r} A, the documented rating gives {w!r} A"})
            break
    # (a'') EVSE types: BASIC (continuous, 32 A) when asked for, the real finite-rate types otherwise (the documented default)
    cont = obs.get("continuous")
    if cont is not None and len(cont) == len(ids):
        if case["basic"] and not (all(cont) and obs["max_rates"] == [32.0]):
            fails.append({"kind": "evse_type_not_as_requested", "detail": "basic_evse=True but not every EVSE is a continuous 32 A EVSE"})
        if not case["basic"] and any(cont):
            fails.append({"kind": "evse_type_not_as_requested",
                          "detail": ("no argument passed (documented default basic_evse=False)" if case.get("omit") == "all" else "basic_evse=False")
                                    + f" but {sum(cont)} of {len(cont)} EVSEs are continuous (BASIC)"})
    lonely = [s for s in ids if sum(1 for (_, _, pred) in sp["xfmrs"] if pred(s)) != 1]
    if lonely:
        fails.append({"kind": "evse_not_under_transformer", "detail": f"no pinned transformer for {lonely[:6]}"})
    if "S" not in obs or obs.get("err") is not None:
        return fails
    S = _S(obs)
    if S.shape[0] != len(ids) or (S < 0).any():
        return fails
    vt, rt = obs["tol"]
    # exact-edge decisions
    if obs.get("edge_expected") is not None and obs["feasible"] != obs["edge_expected"]:
        fails.append({"kind": "edge_decision_wrong",
                      "detail": f"mode {case['mode']}: is_feasible={obs['feasible']} expected={obs['edge_expected']}"})
    fi = obs.get("feasible_inplace")
    if fi is not None and (fi[1] != obs["feasible"] or fi[0] != fi[2]):
        fails.append({"kind": "answer_depends_on_earlier_query_of_same_array",
                      "detail": f"zeros -> {fi[0]}, schedule written into the same array -> {fi[1]} (a fresh array with the same contents: "
                                f"{obs['feasible']}), zeroed again -> {fi[2]}"})
    if obs["feasible"] != all(obs["feas_t"]):
        fails.append({"kind": "feasible_not_conjunction_of_periods",
                      "detail": f"is_feasible={obs['feasible']} but per period {obs['feas_t'][:8]}"})
    ok_t = [t for t, f in enumerate(obs["feas_t"]) if f]
    if not ok_t:
        return fails
    S = S[:, ok_t]   # every accepted period is judged on its own (power at the nominal 208 V)
    ang = np.array(obs["angles"])
    slack = 1e-9
    # (b) power through every transformer
    for (xname, capi, pred) in sp["xfmrs"]:
        sel = np.array([pred(s) for s in ids])
        cap = float(case["caps"][capi])
        lim = cap * 1000.0 / 360.0
        allowed_kw = KV * (cap * 1000.0 + 360.0 * _tolterm(vt, rt, lim)) / 1000.0
        p_kw = VLL_NOM * S[sel, :].sum(axis=0) / 1000.0
        for t, p in zip(ok_t, p_kw):
            if p > allowed_kw * (1 + slack) + slack:
                fails.append({"kind": "transformer_power_above_rating",
                              "detail": f"{case['site']} transformer {xname!r} rated {cap} kW: feasible schedule draws {p:.6f} kW "
                                        f"(allowed {allowed_kw:.6f} incl. 208/(120√3) and tolerance) in period {t}"})
                break
    # (c) pods: plain sums (same line pair)
    for (pname, rating, members) in sp["pods"]:
        sel = np.array([s in members for s in ids])
        tot = S[sel, :].sum(axis=0)
        b = rating + _tolterm(vt, rt, rating)
        for t, x in zip(ok_t, tot):
            if x > b * (1 + slack) + slack:
                fails.append({"kind": "pod_current_above_rating",
                              "detail": f"{pname}: {x:.6f} A > {rating} A (+tolerance) in period {t}"})
                break
    # (d) panels: the three line currents, from the exact 120° algebra
    for (pname, rating, pred) in sp["panels"]:
        sel = np.array([pred(s) for s in ids])
        b = rating + _tolterm(vt, rt, rating)
        for t in range(S.shape[1]):
            x = S[sel & (ang == 30.0), t].sum()
            y = S[sel & (ang == -90.0), t].sum()
            z = S[sel & (ang == 150.0), t].sum()
            worst = max(x * x + x * z + z * z, x * x + x * y + y * y, y * y + y * z + z * z)
            if math.sqrt(worst) > b * (1 + slack) + slack:
                fails.append({"kind": "panel_current_above_rating",
                              "detail": f"{pname}: line current {math.sqrt(worst):.6f} A > {rating} A (+tolerance) in period {ok_t[t]}"})
                break
    return fails


def _headroom(case, obs):
    """largest ratio power / allowance over the transformers (feasible schedules only)"""
    if "S" not in obs or obs.get("err") is not None or not any(obs.get("feas_t", [])):
        return None
    S = _S(obs)
    if S.shape[0] != len(obs["stations"]):
        return None
    S = S[:, [t for t, f in enumerate(obs["feas_t"]) if f]]
    best = 0.0
    for (xname, capi, pred) in SPEC[case["site"]]["xfmrs"]:
        sel = np.array([pred(s) for s in obs["stations"]])
        cap = float(case["caps"][capi])
        p = VLL_NOM * S[sel, :].sum(axis=0).max() / 1000.0
        best = max(best, p / (KV * cap))
    return best


def nontrivial(case, obs):
    if case.get("stream") == "simple":
        return _simple_nontrivial(case, obs)
    if case["mode"] in ("boundary-", "boundary+", "edge0", "edge+", "exhaustive") and "S" in obs:
        return True
    h = _headroom(case, obs)
    return h is not None and h > 0.99


def features(case, obs):
    if case.get("stream") == "simple":
        return _simple_features(case, obs)
    out = ["site:" + case["site"], "basic:" + str(bool(case["basic"])), "mode:" + case["mode"],
           "dir:" + case["dir"]["kind"], "T:" + str(case["dir"]["T"]),
           "caps:" + ("default" if list(case["caps"]) == list(SPEC[case["site"]]["defaults"]) else "other"),
           "voltage:" + str(case.get("voltage", "default")), "factory:" + str(case.get("wrapper") or "site function"),
           "arguments:" + {None: "capacities passed", "caps": "capacities omitted", "all": "none at all"}[case.get("omit")]]
    if "skip" in obs:
        out.append("skip:" + obs["skip"])
        return out
    if obs.get("err"):
        out.append("err:" + obs["err"])
        return out
    out.append("feasible:" + str(obs["feasible"]))
    if case["mode"] == "exhaustive":
        out.append(f"exhaustive_periods_accepted:{sum(obs['feas_t'])}/243")
    # which constraint class binds (largest |aggregate| / bound)
    vt, rt = obs["tol"]
    best, who = -1.0, None
    for nm, lim, row in zip(obs["names"], obs["limits"], obs["mags"]):
        b = lim + max(vt, rt * lim)
        u = max(row) / b if b > 0 else 0
        if u > best:
            best, who = u, nm
    if who is not None and best > 0.999:
        cls = ("secondary" if "Secondary" in who else "primary" if "Primary" in who else
               "panel" if " I_" in who else "pod")
        out.append("binding:" + cls)
    h = _headroom(case, obs)
    if h is not None:
        out.append("power/allowance:" + (">0.999" if h > 0.999 else ">0.99" if h > 0.99 else ">0.9" if h > 0.9 else "<=0.9"))
    S = _S(obs)
    if S.size and S.max() <= max(obs["max_rates"]) + 1e-9 and S.min() >= 0:
        out.append("within_evse_max")
    return out


# ====================================================================== simple_acn (auto_acn.py)
# One case = one `simple_acn(...)` object and one schedule.  Everything the oracle expects is computed here from the
# documented contract (n single-phase stations at the requested voltage and 0°, one constraint Σ I ≤ cap/voltage·1000 A),
# never from the object under test.

SIMPLE_DEFAULTS = {"evse_type": "BASIC", "voltage": 208, "cap": 150}      # documented defaults (docstring / signature)
EVSE_DOC = {"BASIC": (True, [0.0, 32.0]),
            "AeroVironment": (False, [0.0] + [float(i) for i in range(6, 33)]),
            "ClipperCreek": (False, [0.0, 8.0, 16.0, 24.0, 32.0])}
SIMPLE_VOLTAGES = [120, 208, 240, 277]
SIMPLE_CAPS = [150, 80, 40, 7.5, 0.5, 33.3, 225.5, 1000, 61.7, 12.25]

_SUBCLS = {}


def _net_class(name):
    from acnportal.acnsim.network import ChargingNetwork
    if name in (None, "base"):
        return ChargingNetwork
    if name == "stochastic":
        from acnportal.contrib.acnsim.network.stochastic_network import StochasticNetwork
        return StochasticNetwork
    if "sub" not in _SUBCLS:
        class HarnessSubNetwork(ChargingNetwork):     # a user's subclass
            pass
        _SUBCLS["sub"] = HarnessSubNetwork
    return _SUBCLS["sub"]


def _simple_params(case):
    """(evse type, voltage, cap) the object must have been built for: what was passed, else the documented default"""
    ty = case.get("evse_type") or SIMPLE_DEFAULTS["evse_type"]
    v = case.get("voltage")
    c = case.get("cap")
    return ty, float(SIMPLE_DEFAULTS["voltage"] if v is None else v), float(SIMPLE_DEFAULTS["cap"] if c is None else c)


def _simple_bound(case, tol):
    """(L, B) in doubles, in the documented operation order: L = cap / voltage · 1000, B = L + max(vt, rt·L)"""
    _, v, c = _simple_params(case)
    L = (c / v) * 1000
    vt, rt = tol
    return L, L + max(vt, rt * L)


def _simple_net(case):
    key = ("simple", tuple(case["ids"]), case.get("evse_type"), repr(case.get("voltage")), repr(case.get("cap")),
           case.get("net_type"), bool(case.get("positional")), case.get("wrapper"))
    if key not in _NETS:
        from acnportal.acnsim.network.sites import simple_acn
        ids = list(case["ids"])
        with warnings.catch_warnings():
            warnings.simplefilter("ignore")
            if case.get("positional"):   # simple_acn(station_ids, evse_type, voltage, aggregate_cap, network_type)
                ty, v, c = case["evse_type"], case["voltage"], case["cap"]
                args = [ids, ty, v, c] + ([_net_class(case["net_type"])] if case.get("net_type") else [])
                net = simple_acn(*args)
            else:
                kw = {}
                if case.get("evse_type") is not None:
                    kw["evse_type"] = case["evse_type"]
                if case.get("voltage") is not None:
                    kw["voltage"] = case["voltage"]
                if case.get("cap") is not None:
                    kw["aggregate_cap"] = case["cap"]
                if case.get("net_type") is not None:
                    kw["network_type"] = _net_class(case["net_type"])
                net = simple_acn(ids, **kw)
            if case.get("wrapper") == "json":
                net = type(net).from_json(net.to_json())
        if len(_NETS) > 64:
            _NETS.clear()
        _NETS[key] = net
    return _NETS[key]


def _simple_ids(rng):
    r = rng.random()
    n = 1 if r < 0.14 else rng.randint(2, 9) if r < 0.6 else rng.randint(10, 49) if r < 0.82 else rng.randint(50, 64)
    style = rng.choice(["ca", "s", "num", "odd", "mixed"])
    if style == "ca":
        pool = ["CA-%d" % k for k in rng.sample(range(100, 600), n)]
    elif style == "s":
        pool = ["s%d" % k for k in range(n)]
        rng.shuffle(pool)
    elif style == "num":
        pool = ["%02d" % k for k in rng.sample(range(0, 99), n)]
    elif style == "odd":
        base = ["a b", "Ünï", "x/1", "0", "-1", "PS 001", "é", "ID#7", "q.r", "A", "a", "B-"]
        pool = (base + ["odd%d" % k for k in range(n)])[:n]
        rng.shuffle(pool)
    else:
        pool = ["AG-1F%02d" % k for k in range(1, n // 2 + 1)] + ["PS-%03d" % k for k in range(n - n // 2)]
    return pool


def _simple_case(rng, i):
    ids = _simple_ids(rng)
    n = len(ids)
    case = {"stream": "simple", "ids": ids}
    if rng.random() < 0.7:
        case["evse_type"] = rng.choice(["BASIC", "AeroVironment", "ClipperCreek"])
    r = rng.random()
    if r < 0.6:
        case["voltage"] = rng.choice(SIMPLE_VOLTAGES)
    elif r < 0.72:
        case["voltage"] = rng.choice([208.0, 207.85, 480, 230.5, 1000])
    r = rng.random()
    if r < 0.6:
        case["cap"] = rng.choice(SIMPLE_CAPS)
    elif r < 0.72:
        case["cap"] = round(rng.uniform(0.2, 400.0), rng.choice([0, 1, 3]))
    if rng.random() < 0.35:
        case["net_type"] = rng.choice(["base", "sub", "sub", "stochastic"])
    if rng.random() < 0.12:      # positional call: every argument must be given
        case["positional"] = True
        case.setdefault("evse_type", rng.choice(["BASIC", "AeroVironment", "ClipperCreek"]))
        case.setdefault("voltage", rng.choice(SIMPLE_VOLTAGES))
        case.setdefault("cap", rng.choice(SIMPLE_CAPS))
    if rng.random() < 0.1:
        case["wrapper"] = "json"        # from_json(to_json()) of the object (a class of the package: the harness subclass cannot be reloaded)
        if case.get("net_type") == "sub":
            case["net_type"] = "base"
    T = rng.choice([1, 1, 2, 3])
    case["T"] = T
    # non-negative weights, every period has a positive one; sparse and dense
    dense = rng.random() < 0.5
    W = [[(round(rng.uniform(0.05, 1.0), 3) if (dense or rng.random() < 0.3) else 0.0) for _ in range(T)] for _ in range(n)]
    for t in range(T):
        if not any(W[j][t] > 0 for j in range(n)):
            W[rng.randrange(n)][t] = 1.0
    case["w"] = W
    case["hot"] = rng.randrange(T)          # the period that is pushed over the bound in the "+" modes
    r = rng.random()
    if i % 9 == 8:
        case["mode"] = rng.choice(["edge0", "edge+"])
        case["split"] = [rng.random() for _ in range(n)]
        if rng.random() < 0.5:
            case["tol"] = [0.0, 0.0]
    elif r < 0.20:
        case["mode"] = "raw"
        case["scale"] = rng.choice([1.0, 1.0, 0.5, 2.0, 4.0, 0.1])
    elif r < 0.48:
        case["mode"] = "boundary-"
    elif r < 0.76:
        case["mode"] = "boundary+"
    elif r < 0.82:
        case["mode"] = rng.choice(["negative-", "negative+"])
    elif r < 0.86:
        case["mode"] = "mixed"
    elif r < 0.90:
        case["mode"] = "malformed"
        case["drop"] = rng.choice([1, -1])
    elif r < 0.93:
        case["mode"] = "zero_voltage"
        case["voltage"] = rng.choice([0, 0.0])
        case.pop("wrapper", None)
    elif r < 0.96:
        case["mode"] = "boundary-"
        case["cap"] = rng.choice([0, 0.0, -5, -0.001])
        if case.get("positional"):
            pass
    else:
        case["mode"] = rng.choice(["boundary-", "boundary+"])
        case["tol"] = rng.choice([[0.0, 0.0], [1e-3, 0.0], [0.0, 1e-4], [1e-5, 1e-7], [0.5, 0.0]])
    if case["mode"] in ("raw", "boundary-", "boundary+") and rng.random() < 0.1:
        case["linear"] = True
    return case


def _simple_corpus():
    out = []
    one = lambda n, T=1: [[1.0] * T for _ in range(n)]
    # the documented defaults, nothing but the ids passed: at the bound and just above, 1 / 3 / 54 stations
    for ids in (["s0"], ["a", "b", "c"], ["PS-%03d" % k for k in range(54)]):
        for mode in ("boundary-", "boundary+", "edge0", "edge+"):
            c = {"stream": "simple", "ids": ids, "T": 1, "w": one(len(ids)), "hot": 0, "mode": mode}
            if mode.startswith("edge"):
                c["split"] = [0.5] * len(ids)
            out.append(c)
    # every EVSE type × every documented voltage, fractional capacity
    for ty in ("BASIC", "AeroVironment", "ClipperCreek"):
        for v in SIMPLE_VOLTAGES:
            out.append({"stream": "simple", "ids": ["x", "y", "z", "w"], "evse_type": ty, "voltage": v, "cap": 7.5, "T": 2,
                        "w": [[1.0, 0.2], [0.5, 0.0], [0.0, 1.0], [0.25, 0.25]], "hot": 1, "mode": "boundary+"})
    # each argument omitted on its own
    for kw in ({"voltage": 240}, {"cap": 80}, {"evse_type": "ClipperCreek"}, {"net_type": "sub"}, {"net_type": "stochastic"}):
        c = {"stream": "simple", "ids": ["p", "q"], "T": 1, "w": one(2), "hot": 0, "mode": "boundary-"}
        c.update(kw)
        out.append(c)
    out.append({"stream": "simple", "ids": ["p", "q"], "evse_type": "BASIC", "voltage": 0, "cap": 10, "T": 1, "w": one(2), "hot": 0,
                "mode": "zero_voltage"})
    out.append({"stream": "simple", "ids": ["p", "q", "r"], "evse_type": "AeroVironment", "voltage": 277, "cap": 33.3, "positional": True,
                "net_type": "sub", "T": 3, "w": one(3, 3), "hot": 2, "mode": "boundary+"})
    return out


def _simple_schedule(case, tol, lim_impl=None):
    """the schedule of the case (n × T numpy array) and, for the modes that have one, the expected decision per period.
    The boundary modes stand 1e-8 (relative) off the DOCUMENTED bound; the exact-edge modes stand exactly ON / one grid step
    above the bound of the limit the object carries (`lim_impl`; the oracle judges that limit against the documented one
    separately), so that they test `≤` versus `<` whatever the last bit of the limit is."""
    n, T = len(case["ids"]), case["T"]
    W = np.array(case["w"], dtype=float).reshape(n, T)
    L, B = _simple_bound(case, tol)
    if case["mode"] in ("edge0", "edge+") and lim_impl is not None:
        B = lim_impl + max(tol[0], tol[1] * lim_impl)
    mode = case["mode"]
    hot = case.get("hot", 0) % T
    if mode in ("raw", "mixed"):
        rates = np.array([[0.0, 6.0, 8.0, 16.0, 24.0, 32.0][int(W[j, t] * 997) % 6] if W[j, t] > 0 else 0.0
                          for j in range(n) for t in range(T)]).reshape(n, T)
        S = case.get("scale", 1.0) * rates
        if mode == "mixed":
            S = S * np.where((np.arange(n) % 3 == 0)[:, None], -1.0, 1.0)
        return S, None
    if mode in ("edge0", "edge+"):
        if not (B > 0) or not math.isfinite(B):
            return None, None
        g = math.ulp(B)
        m = int(round(B / g))            # B = m·g exactly (m < 2^53)
        if m * g != B:
            return None, None
        sp = np.array(case.get("split") or [1.0] * n, dtype=float)
        sp = sp / sp.sum()
        S = np.zeros((n, T))
        exp = []
        for t in range(T):
            ks = [int(m * x) for x in sp]
            ks[t % n] += m - sum(ks)    # the integer parts sum to m exactly
            over = mode == "edge+" and t == hot
            if over:
                ks[(t + 1) % n] += 1
            for j in range(n):
                S[j, t] = ks[j] * g     # integer multiples of g below 2^53·g: exact, and so is every partial sum
            exp.append(not over)
        return S, exp
    if mode == "malformed" or mode == "zero_voltage":
        S = W * 1.0
        if mode == "malformed":
            # (a ONE-row schedule is broadcast by numpy to every station — not an error —, so a row is only dropped when ≥ 2 remain)
            S = S[:-1, :] if (case.get("drop", 1) == 1 and n > 2) else np.vstack([S, S[:1, :]])
        return S, None
    # boundary modes: every period totals B·(1−δ); in the "+" modes the hot period totals B·(1+δ)
    if not (B > 0):
        # nothing positive can be drawn: the all-zero schedule is accepted iff 0 ≤ B
        return np.zeros((n, T)), [bool(B >= 0)] * T
    S = np.zeros((n, T))
    exp = []
    for t in range(T):
        over = mode in ("boundary+", "negative+") and t == hot
        tot = B * (1 + DELTA) if over else B * (1 - DELTA)
        S[:, t] = W[:, t] / W[:, t].sum() * tot
        exp.append(not over)
    if mode.startswith("negative"):
        S = -S
    return S, exp


def _simple_run(case):
    tol = case.get("tol")
    if case["mode"] == "zero_voltage":
        try:
            _simple_net(case)
        except ZeroDivisionError:
            return {"err": "ZeroDivisionError", "tol": list(tol or DEFAULT_TOL)}
        return {"err": None, "built_with_zero_voltage": True, "tol": list(tol or DEFAULT_TOL)}
    net = _simple_net(case)
    want_cls = _net_class(case.get("net_type"))
    M = net.constraint_matrix
    obs = {
        "stations": list(net.station_ids), "names": list(net.constraint_index),
        "angles": [float(a) for a in net._phase_angles], "voltages": [float(v) for v in net._voltages],
        "limits": [float(x) for x in net.magnitudes],
        "M": [] if M is None else [[float(x) for x in row] for row in np.array(M, dtype=float).reshape(len(net.constraint_index), -1).tolist()],
        "tol": [float(net.violation_tolerance), float(net.relative_tolerance)] if tol is None else [float(tol[0]), float(tol[1])],
        "max_rates": [float(x) for x in net.max_pilot_signals],
        "continuous": [bool(x) for x in net.is_continuous],
        "levels": [sorted({float(x) for x in a}) for a in net.allowable_rates],
        "net_class": type(net).__name__, "net_class_ok": type(net) is want_cls,
    }
    if len(obs["limits"]) != 1 or M is None:
        return obs      # not the documented one-constraint network: the oracle says so (no schedule is judged)
    S, expected = _simple_schedule(case, obs["tol"], obs["limits"][0])
    if S is None:
        obs["skip"] = "no exact edge"
        return obs
    lin = bool(case.get("linear"))
    obs["S"] = [[f2b(x) for x in row] for row in S.tolist()]
    obs["expected_t"] = expected
    try:
        feas = _feas(net, S, tol, lin)
        mags = np.abs(net.constraint_current(S))
    except ValueError:
        obs["err"] = "ValueError"
        return obs
    obs["err"] = None
    obs["feasible"] = feas
    obs["feas_t"] = [_feas(net, S[:, t:t + 1], tol, lin) for t in range(S.shape[1])]
    # a caller that keeps ONE schedule array and fills it in place (a greedy loop: raise a rate, ask, lower it again): the
    # network is asked about the array while it is all zero, then the schedule is written INTO THE SAME ARRAY and it is asked again
    try:
        A = np.zeros_like(S, dtype=float)
        first = _feas(net, A, tol, lin)
        A[...] = S
        obs["feasible_inplace"] = [bool(first), bool(_feas(net, A, tol, lin))]
        A *= 0.0
        obs["feasible_inplace"].append(bool(_feas(net, A, tol, lin)))
    except ValueError:
        obs["feasible_inplace"] = None
    obs["mags"] = [[float(x) for x in row] for row in mags.tolist()]
    return obs


def _simple_request(case, obs):
    req = {"kind": "simple", "ids": case["ids"], "voltage": None if case.get("voltage") is None else f2b(float(case["voltage"])),
           "cap": None if case.get("cap") is None else f2b(float(case["cap"])),
           "vt": f2b(obs["tol"][0]), "rt": f2b(obs["tol"][1]), "S": obs.get("S")}
    return req


def _simple_razor(case, obs, t=None):
    _, B = _simple_bound(case, obs["tol"])
    for m in (obs["mags"][0] if t is None else obs["mags"][0][t:t + 1]) if obs.get("mags") else []:
        if abs(m - B) <= 1e-9 * max(1.0, abs(B)):
            return True
    return False


def _simple_compare(case, obs, model):
    out = []
    if not model.get("limit_fitted", False):
        out.append("model: the limit of the networks simple_acn builds is not a monomial n/d · cap^±1 · voltage^±1 (Gen/SimpleAcn.lean: limitMono = none)")
    if case["mode"] == "zero_voltage":
        if (obs.get("err") == "ZeroDivisionError") != (model.get("err") == "ZeroDivisionError"):
            out.append(f"voltage 0: impl err={obs.get('err')} model err={model.get('err')}")
        return out
    if model.get("err") not in (None, "shape"):
        return out + [f"model refuses the network: {model.get('err')}"]
    if model.get("stations") != obs["stations"]:
        out.append(f"stations impl={obs['stations'][:6]} model={model.get('stations', [])[:6]}")
    if model.get("names") != obs["names"]:
        out.append(f"constraint names impl={obs['names']} model={model.get('names')}")
    for key in ("angles", "voltages", "limits"):
        mv = [b2f(x) for x in model.get(key, [])]
        if len(mv) != len(obs[key]) or not all(close(a, b) for a, b in zip(obs[key], mv)):
            out.append(f"{key} impl={obs[key][:6]} model={mv[:6]}")
    mm = [[b2f(x) for x in row] for row in model.get("M", [])]
    if mm != obs["M"]:
        out.append(f"constraint matrix impl={[r[:6] for r in obs['M'][:3]]} model={[r[:6] for r in mm[:3]]}")
    if "S" not in obs:
        return out
    if (obs.get("err") == "ValueError") != (model.get("err") == "shape"):
        out.append(f"error class: impl={obs.get('err')} model={model.get('err')}")
    if obs.get("err") is not None or model.get("err") is not None:
        return out
    exact = case["mode"] in ("edge0", "edge+") and [b2f(x) for x in model.get("limits", [])] == obs["limits"]
    if model["feasible"] != obs["feasible"] and (exact or not _simple_razor(case, obs)):
        out.append(f"is_feasible impl={obs['feasible']} model={model['feasible']}")
    for t, (a, m) in enumerate(zip(obs["feas_t"], model.get("feas_t", []))):
        if a != m and (exact or not _simple_razor(case, obs, t)):
            out.append(f"is_feasible of period {t} alone: impl={a} model={m}")
            break
    if len(model.get("feas_t", [])) != len(obs["feas_t"]):
        out.append("number of periods differs")
    tot = [b2f(x) for x in model.get("total", [])]
    if len(obs["mags"]) != 1 or len(tot) != len(obs["mags"][0]) or not all(close(abs(a), b) for a, b in zip(tot, obs["mags"][0])):
        out.append(f"|aggregate current| impl={obs['mags']} model Σ={tot}")
    _, v, _c = _simple_params(case)
    S = _S(obs)
    pk = [b2f(x) for x in model.get("powerKW", [])]
    if not all(close(v * S[:, t].sum() / 1000.0, pk[t]) for t in range(min(len(pk), S.shape[1]))):
        out.append(f"power [kW] impl-side V·ΣS/1000={[v * S[:, t].sum() / 1000.0 for t in range(S.shape[1])]} model={pk}")
    return out


def _simple_oracle(case, obs):
    fails = []
    ids = list(case["ids"])
    n = len(ids)
    ty, v, c = _simple_params(case)
    how = "" if all(case.get(k) is not None for k in ("evse_type", "voltage", "cap")) else " (omitted arguments: documented defaults BASIC / 208 V / 150 kW)"
    if case["mode"] == "zero_voltage":
        if obs.get("err") != "ZeroDivisionError":
            fails.append({"kind": "simple_zero_voltage_accepted", "detail": "simple_acn(voltage=0) returned a network (limit inf/nan?) instead of raising"})
        return fails
    # (a) structure
    if obs["stations"] != ids:
        fails.append({"kind": "simple_stations_not_the_ids", "detail": f"asked for {ids[:8]}… ({n}), registered {obs['stations'][:8]}… ({len(obs['stations'])})"})
    if not obs.get("net_class_ok"):
        fails.append({"kind": "simple_network_type_not_as_requested", "detail": f"network_type={case.get('net_type')}: got {obs['net_class']}"})
    if len(obs["angles"]) != n or any(a != 0.0 for a in obs["angles"]):
        fails.append({"kind": "simple_phase_angle_not_zero", "detail": f"single-phase network, angles {sorted(set(obs['angles']))[:4]} ({len(obs['angles'])} for {n} stations)"})
    if len(obs["voltages"]) != n or any(x != v for x in obs["voltages"]):
        fails.append({"kind": "simple_voltage_not_as_requested", "detail": f"requested {v} V{how}: EVSE voltages {sorted(set(obs['voltages']))[:4]}"})
    cont, levels = EVSE_DOC[ty]
    if (len(obs["continuous"]) != n or any(x != cont for x in obs["continuous"]) or any(lv != levels for lv in obs["levels"])
            or any(m != 32.0 for m in obs["max_rates"])):
        fails.append({"kind": "simple_evse_type_not_as_requested", "detail": f"evse_type {ty}{how}: continuous={sorted(set(obs['continuous']))}, "
                                                                             f"levels of the first EVSE {obs['levels'][:1]}"})
    # exactly one constraint, coefficient 1 on every station
    if len(obs["M"]) != 1 or len(obs["limits"]) != 1 or len(obs["names"]) != 1:
        fails.append({"kind": "simple_not_exactly_one_constraint", "detail": f"{len(obs['M'])} rows, {len(obs['limits'])} limits, names {obs['names']}"})
        return fails
    if len(obs["M"][0]) != n or any(x != 1.0 for x in obs["M"][0]):
        bad = [ids[j] for j, x in enumerate(obs["M"][0][:n]) if x != 1.0]
        fails.append({"kind": "simple_station_not_under_the_constraint", "detail": f"coefficients ≠ 1 for {bad[:6]} (row length {len(obs['M'][0])}, {n} stations)"})
    L, B = _simple_bound(case, obs["tol"])
    if not close(obs["limits"][0], L):
        fails.append({"kind": "simple_limit_not_cap_over_voltage", "detail": f"{c} kW at {v} V{how}: limit {obs['limits'][0]!r} A, documented cap/voltage·1000 = {L!r} A"})
    if "S" not in obs or obs.get("err") is not None:
        if case["mode"] == "malformed" and obs.get("err") != "ValueError" and "S" in obs:
            fails.append({"kind": "simple_malformed_schedule_accepted", "detail": "a schedule with the wrong number of rows was not refused"})
        return fails
    S = _S(obs)
    if S.shape[0] != n:
        return fails
    # (b) decisions that are fixed by construction (boundary ∓ 1e-8 relative, exact edges)
    exp = obs.get("expected_t")
    if exp is not None:
        for t, (e, a) in enumerate(zip(exp, obs["feas_t"])):
            if e != a:
                tot = S[:, t].sum()
                fails.append({"kind": "simple_power_above_cap" if (a and not e) else "simple_rejects_within_cap",
                              "detail": f"mode {case['mode']}, {n} stations, {c} kW at {v} V{how}: period {t} totals {tot!r} A = {v * tot / 1000.0:.9f} kW, "
                                        f"bound {B!r} A; is_feasible={a}, expected {e}"})
                break
    fi = obs.get("feasible_inplace")
    if fi is not None and (fi[1] != obs["feasible"] or fi[0] != fi[2]):
        fails.append({"kind": "answer_depends_on_earlier_query_of_same_array",
                      "detail": f"zeros -> {fi[0]}, schedule written into the same array -> {fi[1]} (a fresh array with the same contents: "
                                f"{obs['feasible']}), zeroed again -> {fi[2]}"})
    if obs["feasible"] != all(obs["feas_t"]):
        fails.append({"kind": "feasible_not_conjunction_of_periods", "detail": f"is_feasible={obs['feasible']} but per period {obs['feas_t'][:8]}"})
    # (c) the property itself, for every period judged alone:  accepted ⇒ V·ΣS/1000 ≤ cap + V·max(vt, rt·L)/1000;
    #     and 0 ≤ bound, |Σ S| below the bound by more than the rounding slack ⇒ accepted
    vt, rt = obs["tol"]
    slack = 1e-9
    allowed_kw = c + v * max(vt, rt * L) / 1000.0
    for t, a in enumerate(obs["feas_t"]):
        tot = float(S[:, t].sum())
        p = v * tot / 1000.0
        if a and v > 0 and p > allowed_kw + slack * (1 + abs(allowed_kw)):
            fails.append({"kind": "simple_power_above_cap",
                          "detail": f"{n} stations, cap {c} kW at {v} V{how}: accepted period {t} draws {p:.9f} kW > {allowed_kw:.9f} kW (cap + declared tolerance)"})
            break
        if a and abs(tot) > B + slack * (1 + abs(B)):
            fails.append({"kind": "simple_power_above_cap", "detail": f"accepted period {t}: |Σ S| = {abs(tot)!r} A above the bound {B!r} A"})
            break
        if not a and B >= 0 and abs(tot) < B - slack * (1 + abs(B)):
            fails.append({"kind": "simple_rejects_within_cap",
                          "detail": f"{n} stations, cap {c} kW at {v} V{how}: period {t} totals {tot!r} A ({p:.9f} kW), below the bound {B!r} A, and is refused"})
            break
    return fails


def _simple_nontrivial(case, obs):
    if "S" not in obs or obs.get("err") is not None:
        return False
    if case["mode"] in ("boundary-", "boundary+", "negative-", "negative+", "edge0", "edge+"):
        return True
    _, v, c = _simple_params(case)
    S = _S(obs)
    return any(a and c > 0 and v * S[:, t].sum() / 1000.0 > 0.99 * c for t, a in enumerate(obs.get("feas_t", [])))


def _simple_features(case, obs):
    n = len(case["ids"])
    out = ["stream:simple", "site:simple_acn", "mode:" + case["mode"], "T:" + str(case["T"]),
           "n:" + ("1" if n == 1 else "2-9" if n < 10 else "10-49" if n < 50 else "50+"),
           "evse:" + str(case.get("evse_type") or "omitted"),
           "voltage:" + ("omitted" if case.get("voltage") is None else str(case["voltage"]) if case["voltage"] in SIMPLE_VOLTAGES else "other"),
           "cap:" + ("omitted" if case.get("cap") is None else "fractional" if float(case["cap"]) != int(float(case["cap"])) else
                     "non-positive" if float(case["cap"]) <= 0 else "integer"),
           "network_type:" + str(case.get("net_type") or "omitted"),
           "call:" + ("positional" if case.get("positional") else "keyword"),
           "factory:" + ("simple_acn + json reload" if case.get("wrapper") == "json" else "simple_acn")]
    if case.get("tol") is not None:
        out.append("tolerances:own")
    if case.get("linear"):
        out.append("asked:linear")
    if "skip" in obs:
        out.append("skip:" + obs["skip"])
    elif obs.get("err"):
        out.append("err:" + obs["err"])
    elif "feasible" in obs:
        out.append("feasible:" + str(obs["feasible"]))
    return out
