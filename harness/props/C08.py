"""C08 — priority allocation: greedy grants the max feasible rate; round robin stops only when blocked.

Generator, implementation runner, model request and correspondence are shared with C07
(`props/C07.py`); the ORACLE here is independent of the model: sort order vs independently computed
keys, each greedy grant vs the closed-form maximum feasible rate (continuous) / the largest passing
level under the real network feasibility function (finite), round robin vs a replay on
`ChargingNetwork.is_feasible`, uncontrolled = max pilot.
"""
from __future__ import annotations

import cmath
import math

import numpy as np

from core.common import close
from core import impl as I
from props import C07 as B

ID = "C08"
LEAN_MODULES = ["AcnProofs.C08"]
DRIVER = "drv_C08"
REQUIRED_THEOREMS = [
    "Acn.C08.gen_eps", "Acn.C08.sorted_by_key", "Acn.C08.discrete_is_max", "Acn.C08.short_circuit",
    "Acn.C08.bisection_within_eps", "Acn.C08.feasible_set_is_interval", "Acn.C08.bisection_within_eps_alg",
    "Acn.C08.greedy_sequential", "Acn.C08.rr_stop_reason", "Acn.C08.rr_continues",
    "Acn.C08.rr_measure_decreases", "Acn.C08.rr_terminates", "Acn.C08.uncontrolled_lookup",
    "Acn.C08.uncontrolled_spec", "Acn.C08.uncontrolled_mem",
]
BUDGET = {"quick": 700, "thorough": 5000, "search": 1000}
TRUSTED = B.TRUSTED + ["ChargingNetwork.is_feasible as the feasibility reference of the oracle (C06)"]
ASSUMPTIONS = B.ASSUMPTIONS + [
    "optimality of the bisection uses that the feasible values of one coordinate form an interval; this is PROVED "
    "for the phasor check (feasible_set_is_interval via Acn.Feas.algFeasible_interval) and is a hypothesis only for "
    "other predicates",
]
RULE = B.RULE + ("; C08 counts a case as non-trivial when some grant is strictly inside its own [lb, ub] "
                 "(a constraint decided it)")

EPS = 0.01          # eps passed to max_feasible_rate by sorting_algorithm (Gen.Consts.greedyEps)
ATOL, RTOL = 1e-5, 1e-7


def corpus():
    return B.corpus()


def generate(rng, n, tier):
    out = []
    if tier == "thorough":
        out.extend(B.enumerate_small())
    for i in range(n):
        r = i % 12
        if r == 11:
            c = B._gen_sim(rng)
        elif r in (4, 8):
            c = B._gen_direct(rng, exact=True)
        else:
            c = B._gen_direct(rng)
        if c["algo"] == "uncontrolled" and rng.random() < 0.5:
            c["algo"] = rng.choice(["greedy", "rr"])
        out.append(c)
    return out


run_impl = B.run_impl
model_request = B.model_request
compare = B.compare
nontrivial = B.nontrivial


# ------------------------------------------------------------------ oracle

def _rap(s, inf, i, period):
    return (s["requested"] - s["delivered"]) * 1000 / inf["volt"][i] * 60 / period


def _survivors(c, inf, idx, period):
    out = []
    for s in c["sessions"]:
        i = idx[s["station"]]
        thr = inf["minp"][i] * inf["volt"][i] / (60 / period) / 1000
        if s["requested"] - s["delivered"] > thr:
            out.append(s)
    return out


def _key(sort, s, inf, i, period, t):
    maxp = I.num(inf["maxp"][i])
    if sort == "fcfs":
        return s["arrival"], False
    if sort == "lcfs":
        return s["arrival"], True
    if sort == "edf":
        return s["est"], False
    if sort == "llf":
        return (s["est"] - t) - _rap(s, inf, i, period) / maxp, False
    return _rap(s, inf, i, period) / maxp, True


def _closed_form_max(inf, x, i):
    """sup { w : every constraint holds with coordinate i set to w }, others as in x (math only)."""
    U = math.inf
    e = [cmath.exp(1j * math.radians(p)) for p in inf["phases"]]
    for row, lim in zip(inf["M"], inf["lims"]):
        v = row[i]
        if v == 0:
            continue
        Bj = lim + max(ATOL, RTOL * lim)
        a = sum(row[k] * x[k] * e[k] for k in range(len(x)) if k != i)
        p = v * (a * e[i].conjugate()).real
        disc = p * p - v * v * (abs(a) ** 2 - Bj * Bj)
        if disc < 0:
            return -math.inf
        U = min(U, (-p + math.sqrt(disc)) / (v * v))
    return U


def oracle(case, obs):
    fails = []
    inf = obs["infra"]
    ids = inf["ids"]
    idx = {s: i for i, s in enumerate(ids)}
    period = case["period"]
    net = None
    inf0 = inf
    for k, c in enumerate(obs["calls"]):
        if c["err"] is not None:
            continue
        inf = inf0
        if "net" in c:      # the network was changed under the same names: judge against the network of THIS call
            inf = dict(inf0, M=c["net"]["M"], lims=c["net"]["lims"])
            net = None
        if case["algo"] == "uncontrolled":
            want = {s["station"]: I.num(inf["maxp"][idx[s["station"]]]) for s in c["sessions"]}
            got = {s: v[0] for s, v in c["schedule"].items()}
            if set(want) != set(got) or any(want[s] != got[s] for s in want):
                fails.append({"kind": "uncontrolled_not_max_pilot", "detail": f"call {k}: got={got} want={want}"})
            continue
        surv = _survivors(c, inf, idx, period)
        if case["uninterrupted"]:
            surv = sorted(surv, key=lambda s: s["remaining_time"])
        by_id = {s["session"]: s for s in surv}
        order = c["order"]
        # ---- sort order vs independent keys
        if order is None or sorted(order) != sorted(by_id):
            fails.append({"kind": "sort_not_a_permutation", "detail": f"call {k}: order={order} sessions={sorted(by_id)}"})
            continue
        keys = []
        for sid in order:
            s = by_id[sid]
            kv, rev = _key(case["sort"], s, inf, idx[s["station"]], period, c["time"])
            keys.append(-kv if rev else kv)
        pos = {s["session"]: n for n, s in enumerate(surv)}
        for a in range(len(order) - 1):
            if keys[a] > keys[a + 1] + 1e-12 * (1 + abs(keys[a])):
                fails.append({"kind": "sort_order_wrong",
                              "detail": f"call {k}: {case['sort']} order={order} keys={keys}"})
                break
            if keys[a] == keys[a + 1] and pos[order[a]] > pos[order[a + 1]]:
                fails.append({"kind": "sort_not_stable", "detail": f"call {k}: {case['sort']} order={order} keys={keys}"})
                break
        # ---- allocation
        if net is None:
            net = B.network_from_matrix(case, inf) if "net" in c else B.build_network(case)
        n = len(ids)

        def feasible(x):
            return bool(net.is_feasible(np.array([[v] for v in x], dtype=float)))

        bounds = {}
        for sid in order:
            s = by_id[sid]
            i = idx[s["station"]]
            post = c["post"][sid]
            rap = _rap(s, inf, i, period)
            lb = max(0.0, I.num(post[0]))
            bounds[sid] = (i, lb, I.num(post[1]), rap)
        final = [c["schedule"][st][0] for st in ids]
        if case["algo"] == "greedy":
            x = [0.0] * n
            for sid in order:
                i, lb, mx, rap = bounds[sid]
                x[i] = lb
            for sid in order:
                i, lb, mx, rap = bounds[sid]
                ub = min(mx, rap)
                r = final[i]
                if inf["cont"][i]:
                    U = _closed_form_max(inf, x, i)
                    if ub < lb:
                        want_lo = want_hi = lb
                    elif U >= ub + 1e-7:
                        want_lo = want_hi = ub
                    elif U <= ub - 1e-7:
                        want_lo, want_hi = max(lb, U - EPS), max(lb, U)
                    else:
                        want_lo, want_hi = max(lb, ub - EPS), ub      # razor: abstain between
                    if not (want_lo - 1e-9 <= r <= want_hi + 1e-9):
                        kind = "greedy_not_max_feasible" if r < want_lo else "greedy_above_max_feasible"
                        fails.append({"kind": kind,
                                      "detail": f"call {k}: session {sid} (station {ids[i]}) grant {r!r}, max feasible {min(U, ub)!r} "
                                                f"(lb={lb}, ub={ub}, eps={EPS}) given earlier grants {x}"})
                else:
                    levels = [I.num(a) for a in inf["allow"][i] if lb <= I.num(a) <= ub]
                    want = 0.0
                    for a in reversed(levels):
                        y = list(x)
                        y[i] = a
                        if feasible(y):
                            want = a
                            break
                    if not close(r, want):
                        fails.append({"kind": "greedy_not_largest_level",
                                      "detail": f"call {k}: session {sid} (station {ids[i]}) grant {r!r}, largest feasible level {want!r} "
                                                f"of {levels} given earlier grants {x}"})
                x[i] = r
        else:
            inc = case["inc"]
            levels = {}
            x = [0.0] * n
            for sid in order:
                i, lb, mx, rap = bounds[sid]
                mn = I.num(c["post"][sid][0])
                if inf["cont"][i]:
                    cnt = max(0, math.ceil((mx + inc / 2 - mn) / inc))
                    base = [mn + j * inc for j in range(cnt)]
                else:
                    base = [I.num(a) for a in inf["allow"][i]]
                ub = min(mx, I.num(inf["maxp"][i]), rap)
                levels[sid] = [a for a in base if lb <= a <= ub]
                x[i] = levels[sid][0] if levels[sid] else 0.0
            at = {sid: 0 for sid in order}
            queue = list(order)
            reasons = {}
            steps = 0
            while queue and steps < 100000:
                steps += 1
                sid = queue.pop(0)
                i = bounds[sid][0]
                if at[sid] + 1 < len(levels[sid]):
                    y = list(x)
                    y[i] = levels[sid][at[sid] + 1]
                    if feasible(y):
                        x = y
                        at[sid] += 1
                        queue.append(sid)
                    else:
                        reasons[sid] = "blocked"
                else:
                    reasons[sid] = "own_bound"
            for sid in order:
                i = bounds[sid][0]
                if not close(final[i], x[i]):
                    fails.append({"kind": "round_robin_stop_wrong",
                                  "detail": f"call {k}: session {sid} (station {ids[i]}) got {final[i]!r}; replay of one-level-at-a-time "
                                            f"in order {order} on network.is_feasible gives {x[i]!r} ({reasons.get(sid)})"})
                    break
            c["_reasons"] = reasons
    return fails


def features(case, obs):
    out = B.features(case, obs)
    for c in obs["calls"]:
        for sid, r in (c.get("_reasons") or {}).items():
            out.append("rr_stop:" + r)
        if c.get("order") is not None and len(c["order"]) >= 2:
            out.append("sorted_n>=2")
    return out
