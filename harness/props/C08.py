"""C08 — priority allocation: greedy grants the max feasible rate; round robin stops only when blocked.

Generator, implementation runner, model request and correspondence are shared with C07
(`props/C07.py`); the ORACLE here is independent of the model: sort order vs independently computed
keys, each greedy grant vs the closed-form maximum feasible rate (continuous) / the largest passing
level under the real network feasibility function (finite), round robin vs a replay on
`ChargingNetwork.is_feasible`, uncontrolled = max pilot.

"Feasible" means feasible for the NETWORK AS IT IS AT THE MOMENT OF THE CALL.  The oracle therefore never
takes the constraints from what the Interface handed to the algorithm: it replays the case's network
history (add / update / remove / rename of constraints between `schedule()` calls, `update_constraint` from the
post-charging hook of a simulation) on a fresh `ChargingNetwork` of its own (`_Truth`) and judges every call
against that network.  The model, in contrast, is fed what the Interface handed out (that is the algorithm's
input), so a stale / wrong view in the Interface shows as an oracle failure, not as a disagreement.
C08 adds its own stream of NETWORK HISTORIES on one Simulator/Interface (`_gen_history`, `_run_history`) and the class
ONE ALGORITHM OBJECT, SEVERAL NETWORKS (`_gen_multi`, `_run_multi`): the algorithm object of a case has served other
networks (same station ids, other EVSEs / voltages / constraints / sessions) before; only the last use is judged, against
its own network, and modelled by an independent model call.

"Own bound": the clauses of the property are relative to each session's OWN bound.  The oracle computes it from first
principles (`_own_bounds`): the session as handed to schedule(), its EVSE's maximum / minimum pilot, its remaining
demand, and the dict the upper-bound estimator returned in that call read AT THE SESSION'S OWN SESSION ID -- never from
what the implementation left in the SessionInfo objects.  The estimator is ANY UpperBoundEstimatorBase subclass (table
estimators, stateless and stateful, next to SimpleRampdown); drv_C08 runs the estimator-parametric model
`Sorted.scheduleCallEst` (shared with C07), the returned dict is an input of each model call.
"""
from __future__ import annotations

import cmath
import copy
import math
from datetime import datetime

import numpy as np

from core.common import close
from core import impl as I
from props import C07 as B

ID = "C08"
LEAN_MODULES = ["AcnProofs.C08", "AcnProofs.C08Est", "AcnProofs.C08Multi"]
TIE_MODULES = ["AcnProofs.Lemmas.CodeTieSorted"]
DRIVER = "drv_C08"
REQUIRED_THEOREMS = [
    "Acn.C08.gen_eps", "Acn.C08.sorted_by_key", "Acn.C08.discrete_is_max", "Acn.C08.short_circuit",
    "Acn.C08.bisection_within_eps", "Acn.C08.feasible_set_is_interval", "Acn.C08.bisection_within_eps_alg",
    "Acn.C08.greedy_sequential", "Acn.C08.rr_stop_reason", "Acn.C08.rr_continues",
    "Acn.C08.rr_measure_decreases", "Acn.C08.rr_terminates", "Acn.C08.uncontrolled_lookup",
    "Acn.C08.uncontrolled_spec", "Acn.C08.uncontrolled_mem",
    # every clause for an ARBITRARY upper-bound estimator (AcnProofs/C08Est.lean; model: Sorted.scheduleCallEst)
    "Acn.C08.own_bound_any_estimator", "Acn.C08.greedy_call_is_sortingAlgorithm",
    "Acn.C08.greedy_sequential_any_estimator", "Acn.C08.greedy_max_feasible_any_estimator",
    "Acn.C08.greedy_max_feasible_any_estimator_alg", "Acn.C08.greedy_discrete_largest_any_estimator",
    "Acn.C08.rr_stop_iff_blocked_any_estimator",
    # one algorithm object, several networks: the modelled algorithms have no memory (AcnProofs/C08Multi.lean)
    "Acn.C08.no_memory_across_networks",
]
BUDGET = {"quick": 700, "thorough": 5000, "search": 1000}
TRUSTED = B.TRUSTED + [
    "ChargingNetwork.is_feasible as the feasibility reference of the oracle (C06)",
    "ChargingNetwork.add_constraint / update_constraint / remove_constraint (C12): the oracle replays the case's "
    "network history on a fresh ChargingNetwork of its own and takes the constraints of each call from there, "
    "never from the Interface / Simulator under test",
]
ASSUMPTIONS = B.ASSUMPTIONS + [
    "optimality of the bisection uses that the feasible values of one coordinate form an interval; this is PROVED "
    "for the phasor check (feasible_set_is_interval via Acn.Feas.algFeasible_interval) and is a hypothesis only for "
    "other predicates",
]
ASSUMPTIONS = ASSUMPTIONS + [
    "the theorems for an arbitrary estimator (C08Est) are about the preprocessed sessions of the call; lb <= ub for the "
    "session and enough bisection fuel (ub - lb <= eps 2^fuel) are hypotheses of the continuous greedy clause; finite "
    "level lists are ascending",
    "'feasible' is judged against the network as it is at the moment of each schedule() call; stations are fixed for "
    "the life of a network (register_evse refuses once a constraint exists), constraints may be added, updated "
    "(same or new name), removed and re-added at any time between calls",
]
RULE = B.RULE + ("; C08 counts a case as non-trivial when some grant is strictly inside its own [lb, ub] "
                 "(a constraint decided it); C08 adds NETWORK HISTORIES (3 of 12 cases, one of them on the exact "
                 "dyadic stream): 2-4 schedule() calls through ONE Simulator / Interface / algorithm object, with and "
                 "without estimator, sessions that persist, progress, leave and are replaced, and between the calls one "
                 "mutation class of the same ChargingNetwork: new limit for the last-added constraint under its name "
                 "(3/12), for any constraint (moves the row to the end), new coefficients, every constraint in order "
                 "(same name list, all contents new), remove + re-add under the old name, rename, remove (2/12), add, "
                 "none; 30 % single-constraint networks; new limits are drawn relative to the full-load aggregate of "
                 "the row so that most mutations flip whether the row binds (evidence: history_binding:a->b); the "
                 "thorough tier also enumerates two-call histories exhaustively in a small scope (2 stations x kind "
                 "combinations x limit grid^2 x every single mutation x occupancy x both algorithms); every call, "
                 "in every stream, is judged against the network rebuilt from the case's own history (oracle "
                 "reference), while the model receives the constraint view the Interface handed out; "
                 "ARBITRARY ESTIMATORS (a further fifth of the budget, private sub-generator, the stream above is "
                 "unchanged; C07's table-estimator corpus cases are no longer filtered out): table estimators returning any "
                 "dict -- bounds above the EVSE maximum, inf, zero, negative, below the minimum pilot, between / on finite "
                 "levels, key missing, keys of idle sessions, of no session, STATION ids, session ids that are another "
                 "session's station id; 3/8 direct calls with distinct priority keys, 3/8 NETWORK HISTORIES of 2-4 calls "
                 "through one algorithm object with a STATEFUL table estimator (it counts how often it was handed each "
                 "session: sessions that joined later sit at different columns), 1/8 exact dyadic, 1/8 whole simulations; "
                 "the thorough tier adds C07's exhaustive estimator scope and an exhaustive scope of three-call histories "
                 "with the stateful estimator under a binding pod limit (2 stations x kinds x 2 limits x 36 answer pairs x "
                 "algorithms x fcfs/lcfs x uninterrupted); the oracle derives every session's own bound from the "
                 "estimator's dict + EVSE + demand and judges greedy (max feasible within the own bound, exact largest "
                 "level) and round robin (replay: stops only when blocked or at the own bound) against it; "
                 "ONE ALGORITHM OBJECT, SEVERAL NETWORKS (a third private sub-generator, max(24, n/28) groups x 4 cases, "
                 "the streams above are unchanged; 12 corpus cases): per group three independently drawn networks A, B, C "
                 "that re-use the station ids st-0.. with other EVSE classes (continuous <-> finite), maximum pilots (half of "
                 "the EVSEs from a pool of maxima 16..80 A), voltages, lines, constraints and sessions, each used through "
                 "direct calls, a network history or a whole Simulator.run, and ONE UncontrolledCharging (25 %) / "
                 "SortedSchedulingAlgo / RoundRobin object that is handed to a new Simulator per network; cases: B after A, "
                 "A after B, C after A and B, A after A and B (return); in 60 % of the direct groups the first call on B "
                 "carries exactly the SET of session ids of the first call on A in another priority order, under a binding "
                 "pod limit; estimators: none, a table estimator (stateless / stateful, the same object for every network) "
                 "or SimpleRampdown (its dict is estimator state, an input: replaced or emptied by the caller before each "
                 "further use); the LAST use is the case proper -- modelled by an independent model call (the model has no "
                 "memory), whole simulations also through the composition model, and judged by every clause of the oracle "
                 "against a network built from that use alone (uncontrolled: exactly the maximum pilot of the station as "
                 "registered NOW); the infrastructure view the Interface hands out is checked against the case's stations")

EPS = 0.01          # eps passed to max_feasible_rate by sorting_algorithm (Gen.Consts.greedyEps)
ATOL, RTOL = 1e-5, 1e-7


def _site_limit_history(algo, finite, sort="fcfs", limits=(70, 40, 88, 24)):
    """one site limit 'main' over three stations that varies in time under its name (time-varying site limit):
    every call must be allocated against the limit in force at that call"""
    evse = {"t": "finite", "rates": B.CC} if finite else {"t": "cont", "min": 0, "max": 32}
    ids = ["S0", "S1", "S2"]
    coef = {s: 1.0 for s in ids}
    evs = [{"session": f"sess{k}", "station": s, "arrival": k, "departure": 100 + k, "est": 100 + k, "requested": 50.0,
            "delivered": 0.0, "prev_pilot": 0, "rate": 0, "max_override": None} for k, s in enumerate(ids)]
    calls = []
    for n, lim in enumerate(limits):
        ops = [] if n == 0 else [{"op": "update", "name": "main", "coef": coef, "limit": lim}]
        calls.append({"time": 3 + n, "evs": evs, "order": [0, 1, 2], "ops": ops})
    return {"mode": "direct", "history": ["limit_last"] * (len(limits) - 1), "period": 5, "algo": algo, "sort": sort,
            "uninterrupted": False, "estimate": False, "inc": 1, "ramp": {"up": 1, "down": 1, "inc": 1},
            "stations": [{"id": s, "line": "AB", "evse": evse, "volt": 208, "phase": 0} for s in ids],
            "constraints": [{"name": "main", "coef": coef, "limit": limits[0]}], "calls": calls}


def corpus():
    # C07's corpus INCLUDING its table-estimator cases (est_spec: an arbitrary UpperBoundEstimatorBase subclass):
    # drv_C08 runs the estimator-parametric model (Sorted.scheduleCallEst), the dict the estimator returned is an
    # input of every model call
    return B.corpus() + [_site_limit_history("greedy", False), _site_limit_history("greedy", True, "lcfs"),
                         _site_limit_history("rr", False)] + _est_corpus() + _multi_corpus()


def _est_corpus():
    """arbitrary estimators under a BINDING limit, session ids that are other sessions' station ids, a STATEFUL
    table estimator over three calls of one algorithm object: every column of the table is used; the bounds are above
    the EVSE maximum, inf, zero, below the minimum pilot, between finite levels, missing; foreign keys"""
    stations = [{"id": "st-0", "line": "AB", "evse": {"t": "cont", "min": 0, "max": 32}, "volt": 208, "phase": 0},
                {"id": "st-1", "line": "AB", "evse": {"t": "finite", "rates": B.CC}, "volt": 208, "phase": 0},
                {"id": "st-2", "line": "AB", "evse": {"t": "finite", "rates": B.AV}, "volt": 240, "phase": 0},
                {"id": "st-3", "line": "AB", "evse": {"t": "cont", "min": 0, "max": 48}, "volt": 208, "phase": 0}]
    coef = {s["id"]: 1.0 for s in stations}
    evs = [{"session": "st-1", "station": "st-0", "arrival": 1, "departure": 40, "est": 40, "requested": 40.0,
            "delivered": 1.0, "prev_pilot": 32, "rate": 30.0, "max_override": None},
           {"session": "st-0", "station": "st-1", "arrival": 2, "departure": 35, "est": 30, "requested": 40.0,
            "delivered": 2.0, "prev_pilot": 16, "rate": 16.0, "max_override": None},
           {"session": "sess-2", "station": "st-2", "arrival": 3, "departure": 50, "est": 50, "requested": 64.0,
            "delivered": 0.5, "prev_pilot": 0, "rate": 0.0, "max_override": None},
           {"session": "st-2", "station": "st-3", "arrival": 4, "departure": 50, "est": 45, "requested": 64.0,
            "delivered": 0.5, "prev_pilot": 0, "rate": 0.0, "max_override": None}]
    table = {"st-1": [100, 5, None, 20.5],        # the session ON st-0
             "st-0": [None, 10, 1e6, 24],          # the session ON st-1 (levels 0 8 16 24 32)
             "sess-2": ["inf", 3, 0, 17.5],        # on st-2 (levels 0, 6..32)
             "st-2": [40, 12.5, 60, None],         # the session ON st-3 (continuous up to 48)
             "st-3": [0], "idle-9": [1], "": [7]}
    out = []
    for algo, sort in (("greedy", "fcfs"), ("greedy", "lcfs"), ("rr", "edf")):
        for un in (False, True):
            for lim in (60.0, 95.0):
                calls = []
                for c in range(4):
                    ops = [] if c != 2 else [{"op": "update", "name": "main", "coef": coef, "limit": lim - 20}]
                    calls.append({"time": 6 + c, "evs": evs, "order": [2, 0, 3, 1], "ops": ops})
                out.append({"mode": "direct", "history": ["limit_last"], "period": 5, "algo": algo, "sort": sort,
                            "uninterrupted": un, "estimate": True, "inc": 0.5, "ramp": {"up": 1, "down": 1, "inc": 1},
                            "stations": stations, "constraints": [{"name": "main", "coef": coef, "limit": lim}],
                            "est_spec": {"table": table, "stateful": True}, "calls": calls})
    return out


# ------------------------------------------------------------------ network histories on ONE Interface
#
# A case of this stream is a `mode: "direct"` case whose calls carry "ops": mutations of the SAME
# ChargingNetwork object between two schedule() calls through the SAME Simulator / Interface / algorithm
# object.  Op formats (all JSON):
#   {"op": "update", "name": n, "coef": {...}, "limit": x [, "new_name": m]}   ChargingNetwork.update_constraint
#   {"op": "remove", "name": n}                                                 ChargingNetwork.remove_constraint
#   {"op": "add",    "name": n, "coef": {...}, "limit": x}                      ChargingNetwork.add_constraint
# `update_constraint` removes the row and appends it again, i.e. updating anything but the last constraint
# reorders the rows; the generator tracks the resulting order so that it can aim at "same names, same order,
# different contents" (limit-only update of the last constraint, update of every constraint in order,
# remove + re-add under the old name) as well as at changed name lists (remove, add, rename).

HISTORY_KINDS = ["limit_last", "limit_last", "limit_last", "limit_any", "update", "cycle", "readd", "rename",
                 "remove", "remove", "add", "none"]


def _row_full(coef, load, phase):
    z = sum(v * load.get(s, 0.0) * cmath.exp(1j * phase[s]) for s, v in coef.items())
    return abs(z)


def _new_limit(rng, coef, load, phase, old, exact):
    """a limit for this row that (mostly) changes whether the row binds: relative to the full-load aggregate"""
    full = _row_full(coef, load, phase)
    r = rng.random()
    if full < 1e-6 or r < 0.2:
        lim = old * rng.choice([0.3, 0.5, 0.8, 1.5, 3.0])
    elif r < 0.65:
        lim = full * rng.uniform(0.2, 0.9)         # binds
    else:
        lim = full * rng.uniform(1.1, 2.5)         # does not bind
    lim = max(lim, 0.5)
    if exact:
        lim = float(max(1, round(lim))) + rng.choice([0.0, 0.0, 0.5, 0.25])
    if lim == old:
        lim = old + (1.0 if exact else 0.37)
    return lim


def _gen_ops(rng, cons, stations, load, exact, tag):
    """(ops, constraint list afterwards, kind).  `cons` is the network's constraint list IN ITS CURRENT ORDER."""
    cons = [dict(c, coef=dict(c["coef"])) for c in cons]
    ids = [s["id"] for s in stations]
    phase = {s["id"]: math.radians(s["phase"]) for s in stations}
    kind = rng.choice(HISTORY_KINDS)
    if not cons and kind not in ("add", "none"):
        kind = "add"
    ops = []

    def upd(c, coef=None, new_name=None):
        coef = dict(c["coef"]) if coef is None else coef
        lim = _new_limit(rng, coef, load, phase, c["limit"], exact)
        op = {"op": "update", "name": c["name"], "coef": coef, "limit": lim}
        if new_name is not None:
            op["new_name"] = new_name
        ops.append(op)
        cons.remove(c)
        cons.append({"name": new_name or c["name"], "coef": coef, "limit": lim})

    if kind == "limit_last":
        upd(cons[-1])
    elif kind == "limit_any":
        upd(rng.choice(cons))
    elif kind == "update":
        c = rng.choice(cons)
        coef = dict(c["coef"])
        r = rng.random()
        if r < 0.4 and len(coef) > 1:
            k = rng.choice(sorted(coef))
            coef[k] = coef[k] * rng.choice([2.0, -1.0, 0.5])
        elif r < 0.7 and len(coef) > 1:
            del coef[rng.choice(sorted(coef))]
        else:
            free = [s for s in ids if s not in coef]
            if free:
                coef[rng.choice(free)] = rng.choice([1.0, -1.0, 0.5])
        upd(c, coef)
    elif kind == "cycle":
        for c in list(cons):            # every constraint once, in order: the name list ends up unchanged
            upd(c)
    elif kind == "rename":
        c = rng.choice(cons)
        upd(c, new_name=f"{c['name']}.{tag}")
    elif kind == "readd":
        c = rng.choice(cons)
        lim = _new_limit(rng, c["coef"], load, phase, c["limit"], exact)
        ops.append({"op": "remove", "name": c["name"]})
        ops.append({"op": "add", "name": c["name"], "coef": dict(c["coef"]), "limit": lim})
        cons.remove(c)
        cons.append({"name": c["name"], "coef": dict(c["coef"]), "limit": lim})
    elif kind == "remove":
        for c in rng.sample(cons, rng.choice([1, 1, min(2, len(cons))])):
            ops.append({"op": "remove", "name": c["name"]})
            cons.remove(c)
    elif kind == "add":
        sub = rng.sample(ids, rng.randint(1, len(ids)))
        coef = {s: 1.0 for s in sub}
        if rng.random() < 0.3 and len(sub) > 1:
            coef[sub[0]] = -1.0
        lim = _new_limit(rng, coef, load, phase, rng.uniform(5, 60), exact)
        c = {"name": f"n{tag}", "coef": coef, "limit": lim}
        ops.append(dict(c, op="add", coef=dict(coef)))
        cons.append(c)
    return ops, cons, kind


def _gen_history(rng, exact=False):
    """2-4 schedule() calls through one Simulator / Interface / algorithm object (with and without estimator)
    with the network mutated in between; sessions persist, progress, leave and are replaced."""
    stations = B._gen_stations(rng, exact, 2, 7)
    period = rng.choice([5, 5, 1, 15]) if not exact else rng.choice([4, 8])
    cfg = B._gen_algo(rng, exact)
    t = rng.choice([0, 1, 2, 3, rng.randint(2, 30)])
    ncalls = rng.choice([2, 2, 3, 3, 4])
    evs = []
    for j, st in enumerate(stations):
        if rng.random() < 0.8:
            ev = B._gen_ev_direct(rng, st, j, t, period, exact, [])
            if rng.random() < 0.75:         # stays for the whole history
                ev["departure"] = max(ev["departure"], t + ncalls + rng.randint(0, 3))
                ev["est"] = max(ev["est"], ev["arrival"] + 1)
            if rng.random() < 0.6:          # plenty of demand left: the network, not the session, is the limit
                ev["requested"] = round(rng.uniform(20, 60), 3)
                ev["delivered"] = round(ev["requested"] * rng.uniform(0.0, 0.3), 3)
            evs.append(ev)
    for ev in evs:
        if rng.random() < 0.2:
            o = rng.choice(evs)
            ev["arrival"] = o["arrival"]
            if o["est"] > ev["arrival"]:
                ev["est"] = o["est"]
    by_id = {s["id"]: s for s in stations}
    load = {ev["station"]: B._session_load(by_id[ev["station"]], ev, period) for ev in evs}
    for st in stations:                      # a station that is empty now may be taken later
        load.setdefault(st["id"], B._max_of(st["evse"]) * 0.5)
    cons0 = B._gen_constraints(rng, stations, load, exact)
    if cons0 and rng.random() < 0.3:
        cons0 = cons0[:1]                    # single-constraint network (one site limit that varies in time)
    cons = cons0
    calls = []
    kinds = []
    cur = evs
    for c in range(ncalls):
        order = list(range(len(cur)))
        rng.shuffle(order)
        call = {"time": t + c, "evs": copy.deepcopy(cur), "order": order, "ops": []}
        if c > 0:
            call["ops"], cons, kind = _gen_ops(rng, cons, stations, load, exact, c)
            kinds.append(kind)
        calls.append(call)
        nxt = []
        for ev in cur:
            if ev["departure"] <= t + c + 1 or rng.random() < 0.08:
                continue
            ev = dict(ev)
            st = by_id[ev["station"]]
            amp_to_kwh = st["volt"] / 1000.0 * period / 60.0
            rem = ev["requested"] - ev["delivered"]
            pilot = rng.choice([8, 16, B._max_of(st["evse"]), round(rng.uniform(0, 32), 2)])
            rate = rng.choice([pilot, pilot, max(0, pilot - 1.5), pilot * 0.3])
            ev["delivered"] = ev["delivered"] + min(rem * rng.choice([0.1, 0.5, 0.9]), rate * amp_to_kwh)
            ev["prev_pilot"] = pilot
            ev["rate"] = rate
            nxt.append(ev)
        taken = {ev["station"] for ev in nxt}
        for j, st in enumerate(stations):    # newcomers: on a free station or on one that was just vacated
            if st["id"] not in taken and rng.random() < 0.25:
                ev = B._gen_ev_direct(rng, st, 100 * (c + 1) + j, t + c + 1, period, exact, [])
                ev["departure"] = max(ev["departure"], t + ncalls + 1)
                nxt.append(ev)
        cur = nxt
    case = {"mode": "direct", "history": kinds, "period": period, "stations": stations, "constraints": cons0,
            "calls": calls,
            "ramp": {"up": rng.choice([1, 1, 0.5, 2]), "down": rng.choice([1, 1, 0.5, 2]), "inc": rng.choice([1, 1, 0.5, 3])}}
    case.update(cfg)
    return case


def enumerate_histories():
    """Exhaustive small scope of two-call histories (thorough tier): 2 stations of every kind combination, a
    mixed-sign row c0 and a pod row c1 on a limit grid, every occupancy, both algorithms; between the two
    identical calls ONE network mutation of every class (limit of the last / of the first constraint to every
    other grid value, every constraint in order, remove either, remove + re-add, rename, add a third row)."""
    import itertools
    kinds = [{"t": "cont", "min": 0, "max": 16}, {"t": "finite", "rates": [0, 8, 16]}]
    lines = ["AB", "CA"]
    grid = [6, 12.5, 20, 40]
    t, period, volt = 5, 5, 208
    mixed = {"st-0": 1.0, "st-1": -1.0}
    pod = {"st-0": 1.0, "st-1": 1.0}
    out = []
    for ks in itertools.product(range(2), repeat=2):
        stations = [{"id": f"st-{j}", "line": lines[j], "evse": kinds[ks[j]], "volt": volt,
                     "phase": B.LINE_PHASE[lines[j]]} for j in range(2)]
        for l1, l2 in itertools.product(grid, repeat=2):
            cons = [{"name": "c0", "coef": mixed, "limit": l1}, {"name": "c1", "coef": pod, "limit": l2}]
            muts = []
            for g in grid:
                if g != l2:
                    muts.append([{"op": "update", "name": "c1", "coef": pod, "limit": g}])
                    muts.append([{"op": "remove", "name": "c1"}, {"op": "add", "name": "c1", "coef": pod, "limit": g}])
                if g != l1:
                    muts.append([{"op": "update", "name": "c0", "coef": mixed, "limit": g}])
            g1, g2 = grid[(grid.index(l1) + 2) % 4], grid[(grid.index(l2) + 2) % 4]
            muts.append([{"op": "update", "name": "c0", "coef": mixed, "limit": g1},
                         {"op": "update", "name": "c1", "coef": pod, "limit": g2}])
            muts.append([{"op": "remove", "name": "c0"}])
            muts.append([{"op": "remove", "name": "c1"}])
            muts.append([{"op": "update", "name": "c1", "coef": pod, "limit": g2, "new_name": "c1b"}])
            muts.append([{"op": "add", "name": "c2", "coef": {"st-0": 1.0}, "limit": 6}])
            for occ in ((1, 1), (1, 0), (0, 1)):
                evs = [{"session": f"sess-{j}", "station": f"st-{j}", "arrival": (2 * j + 1) % 4, "departure": t + 4 + j,
                        "est": t + 3 - j, "requested": 10.0, "delivered": 2.0, "prev_pilot": 0, "rate": 0,
                        "max_override": None} for j in range(2) if occ[j]]
                order = list(range(len(evs)))[::-1]
                for mut, algo in itertools.product(muts, ("greedy", "rr")):
                    out.append({"mode": "direct", "history": ["enumerated"], "period": period, "stations": stations,
                                "constraints": cons,
                                "calls": [{"time": t, "evs": evs, "order": order, "ops": []},
                                          {"time": t + 1, "evs": evs, "order": order, "ops": mut}],
                                "ramp": {"up": 1, "down": 1, "inc": 1}, "algo": algo, "sort": "fcfs",
                                "uninterrupted": False, "estimate": False, "inc": 1, "enumerated": True})
    return out


# ---- arbitrary upper-bound estimators (table estimators; C07.py documents "est_spec") -------------------------
# "est_spec": {"table": {key: [bound | None, ...]}, "stateful": bool}.  Stateless (C07's TableEstimator): the column is
# chosen by the period.  STATEFUL (C08's own, `_StatefulTable`): the estimator object counts how often it has been
# handed each session; a session's bound is the entry at ITS OWN count (so two sessions are at different columns as soon
# as one of them joined later), a foreign key's the entry at the number of calls so far.

def _gen_est_history(rng, exact=False):
    """a network history (2-4 schedule() calls through ONE algorithm / estimator object, sessions that persist, leave and
    are replaced, the network mutated in between) with a STATEFUL table estimator"""
    case = None
    for _ in range(6):
        case = _gen_history(rng, exact)
        if case["algo"] != "uncontrolled":
            break
    if case["algo"] == "uncontrolled":
        case["algo"] = rng.choice(["greedy", "rr"])
    case["estimate"] = True
    sessions = []
    for call in case["calls"]:
        for ev in call["evs"]:
            if (ev["session"], ev["station"]) not in sessions:
                sessions.append((ev["session"], ev["station"]))
    if rng.random() < 0.5:
        # remaining demand far above the EVSE maximum: the estimator / the network is the limit, not the session
        for sid, _st in sessions:
            if rng.random() < 0.6:
                req, dl = float(rng.choice([20, 40, 64])), float(rng.choice([0, 1, 2.5]))
                for k, call in enumerate(case["calls"]):
                    for ev in call["evs"]:
                        if ev["session"] == sid:
                            ev["delivered"] = dl + 0.25 * k       # still progressing from call to call
                            ev["requested"] = req
    spec = B._gen_est_spec(rng, case["stations"], sessions)
    for sid in list(spec["table"]):
        if rng.random() < 0.6:      # several columns: the state matters
            st = next((stid for s2, stid in sessions if s2 == sid), None)
            if st is not None:
                by_id = {x["id"]: x for x in case["stations"]}
                spec["table"][sid] = [B._gen_bound(rng, by_id[st]) for _ in range(rng.choice([2, 3, 4]))]
    spec["stateful"] = True
    case["est_spec"] = spec
    if rng.random() < 0.25:
        B._loosen(rng, case)
        for call in case["calls"]:
            for o in call.get("ops") or []:
                if "limit" in o:
                    o["limit"] = o["limit"] * 3
    return case


def _gen_est_direct(rng, exact=False):
    """C07's table-estimator case (every class of bound, foreign keys, session ids that are station ids) with the
    priority keys made distinct where possible, so that the order in which the own bounds are applied is fixed"""
    case = B._gen_custom_direct(rng, exact)
    for call in case["calls"]:
        seen_a, seen_e = set(), set()
        for ev in call["evs"]:
            if rng.random() < 0.7:
                while ev["arrival"] in seen_a and ev["arrival"] > 0:
                    ev["arrival"] -= 1
                while ev["est"] in seen_e:
                    ev["est"] += 1
            seen_a.add(ev["arrival"])
            seen_e.add(ev["est"])
            ev["est"] = max(ev["est"], ev["arrival"] + 1)
    return case


def _gen_est(rng, n):
    out = []
    for i in range(n):
        r = i % 8
        if r in (1, 4, 6):
            out.append(_gen_est_history(rng, exact=(r == 6)))
        elif r == 7:
            out.append(B._gen_custom_sim(rng))
        else:
            out.append(_gen_est_direct(rng, exact=(r == 3)))
    return out


def enumerate_est_histories():
    """Exhaustive small scope for arbitrary estimators under a BINDING pod limit (thorough tier): two stations of every
    kind combination, limit 20 A / 26 A, a STATEFUL table estimator over two calls in which the second session joins
    late (so the two sessions sit at different columns), every pair of two-column answers from a grid holding each class
    (no key, zero, below the minimum pilot, between levels, a level, the EVSE maximum, above it, inf), both
    algorithms, fcfs / lcfs, uninterrupted on / off."""
    import itertools
    kinds = [{"t": "cont", "min": 0, "max": 16}, {"t": "finite", "rates": [0, 8, 16]}]
    grid = [[None, 3], [0, 10.5], [8, "inf"], [17, 12], [40, None], [10.5, 8]]
    out = []
    t, period, volt = 4, 5, 208
    for ks in itertools.product(range(2), repeat=2):
        stations = [{"id": f"st-{j}", "line": "AB", "evse": kinds[ks[j]], "volt": volt, "phase": 0.0} for j in range(2)]
        for lim in (20.0, 26.0):
            cons = [{"name": "c0", "coef": {"st-0": 1.0, "st-1": 1.0}, "limit": lim}]
            evs = [{"session": f"st-{1 - j}", "station": f"st-{j}", "arrival": j, "departure": t + 5, "est": t + 5 - j,
                    "requested": 30.0, "delivered": 1.0, "prev_pilot": 0, "rate": 0, "max_override": None}
                   for j in range(2)]
            for b0, b1 in itertools.product(grid, repeat=2):
                table = {"st-1": b0, "st-0": b1, "ghost": [1]}
                for algo, sort, un in itertools.product(("greedy", "rr"), ("fcfs", "lcfs"), (False, True)):
                    out.append({"mode": "direct", "history": ["enumerated"], "period": period, "stations": stations,
                                "constraints": cons,
                                "calls": [{"time": t, "evs": evs[:1], "order": [0], "ops": []},
                                          {"time": t + 1, "evs": evs, "order": [1, 0], "ops": []},
                                          {"time": t + 2, "evs": evs, "order": [0, 1], "ops": []}],
                                "ramp": {"up": 1, "down": 1, "inc": 1}, "algo": algo, "sort": sort,
                                "uninterrupted": un, "estimate": True, "inc": 1, "enumerated": True,
                                "est_spec": {"table": table, "stateful": True}})
    return out


# ---- one algorithm object, several networks: generator ------------------------------------------------------------

MULTI_EVSES = [{"t": "cont", "min": 0, "max": 16}, {"t": "cont", "min": 0, "max": 24}, {"t": "cont", "min": 0, "max": 40},
               {"t": "cont", "min": 0, "max": 48}, {"t": "cont", "min": 0, "max": 64}, {"t": "cont", "min": 0, "max": 80},
               {"t": "finite", "rates": [0, 8, 16]}, {"t": "finite", "rates": [0, 6, 12, 18, 24, 30]},
               {"t": "finite", "rates": [0, 10, 20]}, {"t": "finite", "rates": [0, 16]},
               {"t": "finite", "rates": [0, 8, 16, 24, 32, 40]}, {"t": "finite", "rates": [0] + list(range(6, 17))},
               {"t": "finite", "rates": [0, 12.5, 16, 24]}, {"t": "finite", "rates": [0, 8, 16, 24, 32, 40, 48]}]


class _evse_pool:
    """while generating the networks of a multi-network chain, half of the EVSEs come from MULTI_EVSES (maximum pilots
    other than 32 A), so that a station id that is re-used mostly has ANOTHER maximum pilot / class in the next network.
    (`C07._gen_stations` looks `_gen_evse` up in its module at call time; restored on exit; C07's streams never run
    inside this block.)"""

    def __enter__(self):
        self.old = B._gen_evse
        old = self.old

        def pick(rng, exact):
            if rng.random() < 0.5:
                return copy.deepcopy(rng.choice(MULTI_EVSES))
            return old(rng, exact)

        B._gen_evse = pick

    def __exit__(self, *a):
        B._gen_evse = self.old


def _use_sessions(u):
    evs = u["evs"] if u["mode"] == "sim" else [ev for c in u["calls"] for ev in c["evs"]]
    seen, out = set(), []
    for ev in evs:
        if ev["session"] not in seen:
            seen.add(ev["session"])
            out.append((ev["session"], ev["station"]))
    return out


def _align_sessions(rng, a, b, exact=False):
    """make the FIRST call of b carry exactly the session ids of the first call of a (assigned at random, so the
    priority order among them differs): the same SET of session ids on another network"""
    ea, eb = a["calls"][0]["evs"], b["calls"][0]["evs"]
    m = min(len(ea), len(eb))
    if m < 2:
        return False
    keep_a = rng.sample([e["session"] for e in ea], m)
    keep_b = rng.sample([e["session"] for e in eb], m)
    a["calls"][0]["evs"] = [e for e in ea if e["session"] in keep_a]
    targets = list(keep_a)
    rng.shuffle(targets)
    ren = dict(zip(keep_b, targets))
    for k, call in enumerate(b["calls"]):
        if k == 0:
            call["evs"] = [e for e in call["evs"] if e["session"] in keep_b]
        for e in call["evs"]:
            e["session"] = ren.get(e["session"], "b-" + e["session"])
    for u in (a, b):
        c0 = u["calls"][0]
        c0["order"] = list(range(len(c0["evs"])))
        rng.shuffle(c0["order"])
        # a pod limit over the stations of these sessions that binds at their full load: the order decides who gets what
        by_id = {st["id"]: st for st in u["stations"]}
        load = {e["station"]: B._session_load(by_id[e["station"]], e, u["period"]) for e in c0["evs"]}
        coef = {st: 1.0 for st in load}
        full = _row_full(coef, load, {st: math.radians(by_id[st]["phase"]) for st in load})
        if full > 1 and rng.random() < 0.8:
            lim = full * rng.uniform(0.35, 0.8)
            u["constraints"] = [{"name": "multi-pod", "coef": coef, "limit": float(max(1, round(lim))) if exact else lim}] \
                + u["constraints"]
    return True


def _multi_est_spec(rng, uses):
    """one table for the whole chain: keys are the session ids of every use (the ids overlap between the uses)"""
    table, used = {}, set()
    for u in uses:
        by_id = {s["id"]: s for s in u["stations"]}
        for sid, stid in _use_sessions(u):
            used.add(sid)
            if sid not in table and rng.random() < 0.85:
                table[sid] = [B._gen_bound(rng, by_id[stid]) for _ in range(rng.choice([1, 2, 3]))]
    if rng.random() < 0.5:
        table[rng.choice(["ghost-1", "", "sess-999"])] = [rng.choice([0, 1, 5, 100])]
    if rng.random() < 0.5:
        st = rng.choice(uses[-1]["stations"])["id"]
        if st not in used:
            table[st] = [rng.choice([0, 0, 1, 3, 6.5])]
    return {"table": table}


def _gen_multi(rng, groups):
    """per group: three independently drawn networks A, B, C (station ids st-0.. re-used, other EVSE classes, maximum
    pilots, voltages, lines, constraints, sessions; each used through direct calls, a network history or a whole
    simulation) and ONE algorithm configuration; four cases: B after A, A after B (the reverse order), C after A and B
    (three in a row), A after A and B (return to the first network)"""
    out = []
    for g in range(groups):
        exact = g % 6 == 5
        cfg = B._gen_algo(rng, exact)
        r = rng.random()
        cfg["algo"] = "uncontrolled" if r < 0.25 else ("greedy" if r < 0.63 else "rr")
        if cfg["algo"] == "uncontrolled":
            cfg.update({"sort": "fcfs", "uninterrupted": False, "estimate": False})
        else:
            cfg["estimate"] = rng.random() < 0.6
        cfg["ramp"] = {"up": rng.choice([1, 1, 0.5, 2]), "down": rng.choice([1, 1, 0.5, 2]), "inc": rng.choice([1, 1, 0.5, 3])}
        modes = [rng.choice(["direct", "history"] if exact else ["direct", "history", "history", "sim"]) for _ in range(3)]
        uses = []
        with _evse_pool():
            for m in modes:
                u = B._gen_sim(rng) if m == "sim" else (_gen_history(rng, exact) if m == "history" else B._gen_direct(rng, exact))
                for k in CFG_KEYS + ("roundtrip_at",):
                    u.pop(k, None)
                if cfg["algo"] == "uncontrolled":
                    u.pop("updates", None)
                uses.append(u)
        aligned = False
        if modes[0] != "sim" and modes[1] != "sim" and rng.random() < 0.6:
            aligned = _align_sessions(rng, uses[0], uses[1], exact)
        if cfg["estimate"] and cfg["algo"] != "uncontrolled":
            r = rng.random()
            cfg["ramp_reset"] = rng.choice(["fresh", "clear"])
            if r >= 0.4:          # a table estimator: the SAME estimator object for every network
                cfg["est_spec"] = _multi_est_spec(rng, uses)
                if r >= 0.7 and "sim" not in modes:
                    cfg["est_spec"]["stateful"] = True
        a, b, c = uses
        for kind, chain in (("second", [a, b]), ("reverse", [b, a]), ("three", [a, b, c]), ("return", [a, b, a])):
            case = copy.deepcopy(chain[-1])
            case.update(copy.deepcopy(cfg))
            case["prior_uses"] = copy.deepcopy(chain[:-1])
            case["multi"] = kind + (":same_session_ids" if aligned else "")
            out.append(case)
    return out


def _multi_corpus():
    """two small networks that share the station ids st-0 / st-1 with the EVSE classes swapped, other maximum pilots
    and voltages, another pod limit, and the SAME session ids in the opposite priority order; every algorithm; second
    use, reverse order, return to the first network"""
    def use(evses, volt, lim, arrivals, t):
        stations = [{"id": f"st-{j}", "line": "AB", "evse": e, "volt": volt, "phase": 0.0} for j, e in enumerate(evses)]
        evs = [{"session": f"sess-{j}", "station": f"st-{j}", "arrival": arrivals[j], "departure": t + 9 - j,
                "est": t + 3 + 2 * arrivals[j], "requested": 30.0, "delivered": 1.0 + j, "prev_pilot": 0, "rate": 0,
                "max_override": None} for j in range(len(arrivals))]
        return {"mode": "direct", "period": 5, "stations": stations,
                "constraints": [{"name": "pod", "coef": {s["id"]: 1.0 for s in stations}, "limit": lim}],
                "calls": [{"time": t, "evs": evs, "order": list(range(len(evs)))}]}
    a = use([{"t": "cont", "min": 0, "max": 32}, {"t": "finite", "rates": B.CC}], 208, 40.0, [0, 1], 4)
    b = use([{"t": "finite", "rates": [0, 8, 16]}, {"t": "cont", "min": 0, "max": 48}, {"t": "cont", "min": 0, "max": 24}],
            240, 50.0, [2, 1], 4)      # st-2 stays idle: the same SET of session ids
    out = []
    for algo, sort, un in (("uncontrolled", "fcfs", False), ("greedy", "fcfs", False), ("greedy", "edf", True),
                           ("rr", "lcfs", False)):
        cfg = {"algo": algo, "sort": sort, "uninterrupted": un, "estimate": False, "inc": 1,
               "ramp": {"up": 1, "down": 1, "inc": 1}}
        for kind, chain in (("second", [a, b]), ("reverse", [b, a]), ("return", [a, b, a])):
            out.append(dict(copy.deepcopy(chain[-1]), **cfg, prior_uses=copy.deepcopy(chain[:-1]),
                            multi=kind + ":same_session_ids"))
    return out


def generate(rng, n, tier):
    out = []
    if tier == "thorough":
        out.extend(B.enumerate_small())
        out.extend(enumerate_histories())
        out.extend(B.enumerate_small_est())
        out.extend(enumerate_est_histories())
    for i in range(n):
        r = i % 12
        if r == 11:
            c = B._gen_sim(rng)
        elif r in (4, 8):
            c = B._gen_direct(rng, exact=True)
        elif r in (2, 6, 9):
            c = _gen_history(rng, exact=(r == 6))
        else:
            c = B._gen_direct(rng)
        if c["algo"] == "uncontrolled" and rng.random() < 0.5:
            c["algo"] = rng.choice(["greedy", "rr"])
        out.append(c)
    # arbitrary estimators: a private generator seeded AFTER the stream above (which is therefore unchanged)
    import random as _random
    out.extend(_gen_est(_random.Random(rng.getrandbits(64)), max(40, n // 5)))
    # one algorithm object, several networks: a further private generator, seeded after both streams above
    out.extend(_gen_multi(_random.Random(rng.getrandbits(64)), max(24, n // 28)))
    return out


# ------------------------------------------------------------------ implementation: histories

def _apply_ops(net, ops):
    Current = B._imports()[1]
    for o in ops:
        if o["op"] == "update":
            net.update_constraint(o["name"], Current(dict(o["coef"])), o["limit"], new_name=o.get("new_name"))
        elif o["op"] == "remove":
            net.remove_constraint(o["name"])
        elif o["op"] == "add":
            net.add_constraint(Current(dict(o["coef"])), o["limit"], name=o["name"])
        else:
            raise ValueError(f"unknown network op {o}")


def make_stateful_estimator(spec, rec):
    """an UpperBoundEstimatorBase subclass WITH STATE (user code, as the package documents it): it counts how often it
    has been handed each session and answers with the table entry at that count (foreign keys: at the number of calls)"""
    from acnportal.algorithms import UpperBoundEstimatorBase

    class StatefulTable(UpperBoundEstimatorBase):
        def __init__(self):
            super().__init__()
            self.seen = {}
            self.ncalls = 0

        def get_maximum_rates(self, sessions):
            handed = [s.session_id for s in sessions]
            out = stateful_answer(spec, self.seen, self.ncalls, handed)
            for sid in handed:
                self.seen[sid] = self.seen.get(sid, 0) + 1
            self.ncalls += 1
            rec.est_log = {"dict": {k: I.enc(float(v)) for k, v in out.items()},
                           "seen": [[s.session_id, s.station_id, I.enc(float(s.min_rates[0])), I.enc(float(s.max_rates[0]))]
                                    for s in sessions]}
            return out

    return StatefulTable()


def stateful_answer(spec, seen, ncalls, handed):
    out = {}
    for sid, seq in spec["table"].items():
        if not seq:
            continue
        k = seen.get(sid, 0) if sid in handed else ncalls
        v = seq[k % len(seq)]
        if v is not None:
            out[sid] = I.num(v)
    return out


def _run_history(case):
    """`C07._run_direct` with network mutations between the calls: ONE network, ONE Simulator, ONE Interface and
    ONE algorithm object for the whole history; every schedule() goes through the recorder of C07."""
    net = B.build_network(case)
    rec = B._Recorder(case, net)
    rec.dynamic = True          # every call records the constraint view the Interface hands out (model input)
    algo = rec.make()
    if case["estimate"] and (case.get("est_spec") or {}).get("stateful") and case["algo"] != "uncontrolled":
        algo.max_rate_estimator = make_stateful_estimator(case["est_spec"], rec)     # before register_interface
    return _drive_direct(case, net, rec, algo)


def _drive_direct(case, net, rec, algo):
    """the direct calls of `case` on network `net` through the GIVEN algorithm object (a new Simulator registers a new
    Interface with it); `rec.calls` receives the recordings"""
    (_, _, Simulator, EventQueue, _, _, _, _, _) = B._imports()
    from acnportal.acnsim.models import EV, Battery
    sim = Simulator(net, algo, EventQueue(), datetime(2020, 1, 1), period=case["period"], verbose=False)
    iface = algo.interface
    obs = {"infra": B.infra_obs(iface), "calls": rec.calls, "mode": "direct"}
    ids = net.station_ids
    for call in case["calls"]:
        t = call["time"]
        if call.get("update"):
            B.apply_updates(net, call["update"])
        _apply_ops(net, call.get("ops") or [])
        for evse in net._EVSEs.values():
            if evse.ev is not None:
                evse.unplug()
        sim._iteration = t
        sim.pilot_signals = np.zeros((len(ids), t + 2))
        sim.charging_rates = np.zeros((len(ids), t + 2))
        for e in call["evs"]:
            ev = EV(e["arrival"], e["departure"], e["requested"], e["station"], e["session"],
                    Battery(100, 0, 100), estimated_departure=e["est"])
            ev._energy_delivered = e["delivered"]
            ev._current_charging_rate = e["rate"]
            net.plugin(ev)
            if t - 1 >= 0:
                sim.pilot_signals[ids.index(e["station"]), t - 1] = e["prev_pilot"]
        by_id = {s.session_id: s for s in iface.active_sessions()}
        ordered = []
        for k in call["order"]:
            sid = call["evs"][k]["session"]
            if sid in by_id:
                s = by_id[sid]
                mo = call["evs"][k].get("max_override")
                if mo is not None:
                    s.max_rates = np.array([float(mo)] * s.remaining_time)
                ordered.append(s)
        try:
            algo.schedule(ordered)
        except B._Captured:
            pass
    return obs


def _drive_sim(case, net, rec, algo):
    """a whole `Simulator.run` of `case` on network `net` with the GIVEN algorithm object as scheduler (`C07._run_sim`
    without the crash / resume branch); same observation format"""
    import warnings
    (_, _, Simulator, EventQueue, _, PluginEvent, _, _, _) = B._imports()
    algo.max_recompute = int(case.get("max_recompute") or 1)      # public attribute, set before the Simulator is built
    events = EventQueue()
    evs = []
    for e in case["evs"]:
        ev = I.make_ev(e)
        evs.append(ev)
        events.add_event(PluginEvent(e["arrival"], ev))
    sim = Simulator(net, algo, events, datetime(2020, 1, 1), period=case["period"], verbose=False)
    obs = {"infra": B.infra_obs(algo.interface), "calls": rec.calls, "mode": "sim"}
    err = None
    with warnings.catch_warnings(record=True) as wlist:
        warnings.simplefilter("always")
        try:
            sim.run()
        except B._Captured as e:
            err = "scheduler:" + str(e)
        except Exception as e:  # noqa
            err = I.err_name(e) + ":" + str(e)[:200]
    obs["sim_err"] = err
    obs["warnings"] = sorted({str(w.message)[:120] for w in wlist if "Invalid schedule" in str(w.message)})
    obs["energies"] = [[ev.session_id, float(ev.requested_energy), float(ev.energy_delivered)] for ev in evs]
    obs["iterations"] = int(sim.iteration)
    w = min(int(sim.iteration), sim.pilot_signals.shape[1])
    obs["pilots"] = [[float(x) for x in row[:w]] for row in sim.pilot_signals]
    obs["rates"] = [[float(x) for x in row[:min(w, sim.charging_rates.shape[1])]] for row in sim.charging_rates]
    return obs


# ---- ONE ALGORITHM OBJECT, SEVERAL NETWORKS ---------------------------------------------------------------------
# A case with "prior_uses": [use, ...] is an ordinary C08 case (direct calls, a network history or a whole simulation:
# the JUDGED use, on the case's own stations / constraints / sessions) whose algorithm object has been used before, in
# this order, for the networks of `prior_uses` (each a case body without the algorithm configuration: "mode", "period",
# "stations", "constraints", "calls" | "evs" [, "updates", "max_recompute"]).  For every use a new ChargingNetwork and
# a new Simulator are built and the SAME algorithm object is handed to the Simulator (which registers a new Interface
# with it).  Estimators: a table estimator (stateless or stateful) is the same object throughout (what it returns is an
# input of the model and of the oracle); SimpleRampdown's dict is estimator STATE (an input of the property): before each
# further use the caller either installs a fresh SimpleRampdown on the algorithm object or ("ramp_reset": "clear") keeps
# the estimator object and empties its `upper_bounds`.

CFG_KEYS = ("algo", "sort", "uninterrupted", "estimate", "inc", "ramp", "est_spec", "ramp_reset")


def _run_multi(case):
    Ramp = B._imports()[8]
    final = {k: v for k, v in case.items() if k != "prior_uses"}
    uses = [dict(u, **{k: case[k] for k in CFG_KEYS if k in case}) for u in case["prior_uses"]] + [final]
    rec = B._Recorder(final, None)
    rec.crash_at = None
    algo = rec.make()
    controlled = case["algo"] != "uncontrolled"
    if controlled and case["estimate"] and (case.get("est_spec") or {}).get("stateful"):
        algo.max_rate_estimator = make_stateful_estimator(case["est_spec"], rec)
    rampdown = controlled and case["estimate"] and case.get("est_spec") is None
    obs, prior = None, []
    for n, u in enumerate(uses):
        if n > 0 and rampdown:
            if case.get("ramp_reset") == "clear":       # the same estimator object, its dict emptied by the caller
                algo.max_rate_estimator.upper_bounds = {}
            else:
                algo.max_rate_estimator = Ramp(case["ramp"]["up"], case["ramp"]["down"], case["ramp"]["inc"])
        net = B.build_network(u)
        rec.net, rec.calls, rec.dynamic, rec.order_log, rec.est_log = net, [], True, None, None
        obs = (_drive_sim if u["mode"] == "sim" else _drive_direct)(u, net, rec, algo)
        if n < len(uses) - 1:
            prior.append({"mode": u["mode"], "calls": len(obs["calls"]),
                          "errs": sum(1 for c in obs["calls"] if c["err"] is not None), "sim_err": obs.get("sim_err")})
    obs["prior"] = prior
    return obs


def run_impl(case):
    if case.get("prior_uses") is not None:
        return _run_multi(case)
    if case["mode"] == "direct" and any("ops" in c for c in case["calls"]):
        return _run_history(case)
    return B.run_impl(case)


model_request = B.model_request
compare = B.compare
nontrivial = B.nontrivial


# ------------------------------------------------------------------ oracle

def _rap(s, inf, i, period):
    return (s["requested"] - s["delivered"]) * 1000 / inf["volt"][i] * 60 / period


def _survivors(c, inf, idx, period):
    out = []
    for s in c["sessions"]:
        i = idx[s["station"]]
        thr = inf["minp"][i] * inf["volt"][i] / (60 / period) / 1000
        if s["requested"] - s["delivered"] > thr:
            out.append(s)
    return out


def _key(sort, s, inf, i, period, t):
    maxp = I.num(inf["maxp"][i])
    if sort == "fcfs":
        return s["arrival"], False
    if sort == "lcfs":
        return s["arrival"], True
    if sort == "edf":
        return s["est"], False
    if sort == "llf":
        return (s["est"] - t) - _rap(s, inf, i, period) / maxp, False
    return _rap(s, inf, i, period) / maxp, True


def _closed_form_max(inf, x, i):
    """sup { w : every constraint holds with coordinate i set to w }, others as in x (math only)."""
    U = math.inf
    e = [cmath.exp(1j * math.radians(p)) for p in inf["phases"]]
    for row, lim in zip(inf["M"], inf["lims"]):
        v = row[i]
        if v == 0:
            continue
        Bj = lim + max(ATOL, RTOL * lim)
        a = sum(row[k] * x[k] * e[k] for k in range(len(x)) if k != i)
        p = v * (a * e[i].conjugate()).real
        disc = p * p - v * v * (abs(a) ** 2 - Bj * Bj)
        if disc < 0:
            return -math.inf
        U = min(U, (-p + math.sqrt(disc)) / (v * v))
    return U


class _Truth:
    """The real ChargingNetwork at the moment of each recorded call, rebuilt FROM THE CASE ALONE on a fresh
    ChargingNetwork (never from the Interface / Simulator under test): the constraints the case starts with and
    then the case's own mutations in the order the run applies them -- direct mode: the `update` / `ops` of call k
    right before call k; simulation: `updates` with t == p run in the post-charging hook of period p, i.e. they
    are in force for every call at time > p."""

    def __init__(self, case):
        base = {k: v for k, v in case.items() if k != "updates"}
        self.case = case
        self.net = B.build_network(base)
        self.pending = sorted(case.get("updates") or [], key=lambda u: u["t"]) if case["mode"] == "sim" else []
        self.done = 0
        self.version = 0

    def at(self, k, c):
        """advance to recorded call k (calls must be visited in order, failed ones included)"""
        if self.case["mode"] == "sim":
            while self.pending and self.pending[0]["t"] < c["time"]:
                B.apply_updates(self.net, [self.pending.pop(0)])
                self.version += 1
        else:
            while self.done <= k and self.done < len(self.case["calls"]):
                cc = self.case["calls"][self.done]
                if cc.get("update"):
                    B.apply_updates(self.net, cc["update"])
                    self.version += 1
                if cc.get("ops"):
                    _apply_ops(self.net, cc["ops"])
                    self.version += 1
                self.done += 1
        return self.net

    def matrix(self):
        M = self.net.constraint_matrix
        return ([] if M is None else [[float(x) for x in row] for row in M],
                [float(x) for x in self.net.magnitudes])


def _same_view(c, M, lims):
    """does the constraint view the Interface handed out at this call equal the network's? (evidence only)"""
    if "net" not in c:
        return None
    a = sorted((tuple(r), l) for r, l in zip(c["net"]["M"], c["net"]["lims"]))
    b = sorted((tuple(r), l) for r, l in zip(M, lims))
    return a == b


def _estimator_answer(case, c):
    """the dict the estimator returned in this call (user code: an input of the property), None if it was not called.
    Table estimators: recorded by the estimator object itself; SimpleRampdown: its dict after the update."""
    if not case["estimate"]:
        return {}
    if case.get("est_spec") is not None:
        ed = c.get("est_dict")
        return None if ed is None else {k: I.num(v) for k, v in ed.items()}
    return dict(c.get("bounds") or {})


def _own_bounds(case, c, inf, idx, period, surv, feasible, n):
    """Every surviving session's OWN bounds from first principles -- the session as it was handed to schedule()
    (incoming min / max rate), its EVSE (maximum pilot, minimum pilot), its remaining demand and the ESTIMATOR'S DICT
    read at the session's OWN SESSION ID (absent: no bound) -- never from what the implementation left in the
    SessionInfo objects:
        max = min(incoming max, EVSE max);  with an estimator: max = max(min(max, dict.get(session_id, inf)), min)
        uninterrupted charging, in order of remaining time: the EVSE's minimum pilot becomes the session's minimum if
        it fits into the remaining demand and is feasible together with the minima granted so far (max lifted to it);
        otherwise the session is refused (both bounds 0)
        lb = max(0, min);  greedy ub = min(max, remaining amp-periods);  round robin ub = min(max, EVSE max, remaining)
    -> {session: (station index, lb, max, remaining amp-periods, min)}; `surv` must be in preprocessing order."""
    ans = _estimator_answer(case, c)
    if ans is None:
        return None
    out = {}
    rates = [0.0] * n
    for s in surv:
        i = idx[s["station"]]
        maxp, minp = I.num(inf["maxp"][i]), inf["minp"][i]
        rap = _rap(s, inf, i, period)
        mn = I.num(s["min"])
        mx = min(I.num(s["max"]), maxp)
        if case["estimate"]:
            b = ans.get(s["session"], math.inf)
            mx = max(min(mx, b), mn)
        if case["uninterrupted"]:
            y = list(rates)
            y[i] = minp
            if minp <= rap and feasible(y):
                rates = y
                mn = max(minp, mn)
                mx = max(mx, mn)
            else:
                mn, mx = 0.0, 0.0
        out[s["session"]] = (i, max(0.0, mn), mx, rap, mn)
    return out


def _multi_infra_diff(case, inf):
    """the Interface's infrastructure view vs the stations of the case (continuous-from-0 and finite-rate EVSEs)"""
    mu_ids = [st["id"] for st in case["stations"]]
    if inf["ids"] != mu_ids:
        return f"stations {inf['ids']} != {mu_ids}"
    for i, st in enumerate(case["stations"]):
        if st["evse"]["t"] not in ("cont", "finite"):
            continue
        if I.num(inf["maxp"][i]) != B._max_of(st["evse"]) or inf["volt"][i] != float(st["volt"]) \
                or inf["cont"][i] != (st["evse"]["t"] == "cont"):
            return (f"station {st['id']}: max pilot {inf['maxp'][i]} voltage {inf['volt'][i]} continuous {inf['cont'][i]}, "
                    f"registered as {st['evse']} at {st['volt']} V")
    return None


def oracle(case, obs):
    fails = []
    inf = obs["infra"]
    ids = inf["ids"]
    idx = {s: i for i, s in enumerate(ids)}
    period = case["period"]
    inf0 = inf
    truth = _Truth(case)
    if case.get("prior_uses") is not None:
        # the algorithm object served other networks before: everything below is judged against THIS case's network;
        # the infrastructure the oracle reads (station order, maximum pilots, voltages, EVSE class) must be this case's
        mu_bad = _multi_infra_diff(case, inf)
        if mu_bad:
            return [{"kind": "infrastructure_view_not_of_current_network", "detail": mu_bad}]
    if case["mode"] == "direct" and len(obs["calls"]) != len(case["calls"]):
        return [{"kind": "history_not_recorded", "detail": f"{len(case['calls'])} calls made, {len(obs['calls'])} recorded"}]
    for k, c in enumerate(obs["calls"]):
        net = truth.at(k, c)        # judge against the network of THIS call, as the case's history made it
        if c["err"] is not None:
            continue
        M, lims = truth.matrix()
        inf = dict(inf0, M=M, lims=lims)
        c["_same_view"] = _same_view(c, M, lims)
        if case["algo"] == "uncontrolled":
            want = {s["station"]: I.num(inf["maxp"][idx[s["station"]]]) for s in c["sessions"]}
            got = {s: v[0] for s, v in c["schedule"].items()}
            if set(want) != set(got) or any(want[s] != got[s] for s in want):
                fails.append({"kind": "uncontrolled_not_max_pilot", "detail": f"call {k}: got={got} want={want}"})
            continue
        surv = _survivors(c, inf, idx, period)
        if case["uninterrupted"]:
            surv = sorted(surv, key=lambda s: s["remaining_time"])
        by_id = {s["session"]: s for s in surv}
        order = c["order"]
        # ---- sort order vs independent keys
        if order is None or sorted(order) != sorted(by_id):
            fails.append({"kind": "sort_not_a_permutation", "detail": f"call {k}: order={order} sessions={sorted(by_id)}"})
            continue
        keys = []
        for sid in order:
            s = by_id[sid]
            kv, rev = _key(case["sort"], s, inf, idx[s["station"]], period, c["time"])
            keys.append(-kv if rev else kv)
        pos = {s["session"]: n for n, s in enumerate(surv)}
        for a in range(len(order) - 1):
            if keys[a] > keys[a + 1] + 1e-12 * (1 + abs(keys[a])):
                fails.append({"kind": "sort_order_wrong",
                              "detail": f"call {k}: {case['sort']} order={order} keys={keys}"})
                break
            if keys[a] == keys[a + 1] and pos[order[a]] > pos[order[a + 1]]:
                fails.append({"kind": "sort_not_stable", "detail": f"call {k}: {case['sort']} order={order} keys={keys}"})
                break
        # ---- allocation
        n = len(ids)

        def feasible(x):
            return bool(net.is_feasible(np.array([[v] for v in x], dtype=float)))

        bounds = _own_bounds(case, c, inf, idx, period, surv, feasible, n)
        if bounds is None:
            fails.append({"kind": "estimator_not_consulted",
                          "detail": f"call {k}: estimate_max_rate is on, schedule() returned, get_maximum_rates was never called"})
            continue
        c["_own"] = {sid: [b[1], b[2]] for sid, b in bounds.items()}
        final = [c["schedule"][st][0] for st in ids]
        if case["algo"] == "greedy":
            x = [0.0] * n
            for sid in order:
                i, lb, mx, rap, _mn = bounds[sid]
                x[i] = lb
            for sid in order:
                i, lb, mx, rap, _mn = bounds[sid]
                ub = min(mx, rap)
                r = final[i]
                if r > max(ub, lb) + 1e-9 * (1 + abs(r)):
                    fails.append({"kind": "greedy_exceeds_own_bound",
                                  "detail": f"call {k}: session {sid} (station {ids[i]}) grant {r!r} > its own bound {max(ub, lb)!r} "
                                            f"(EVSE max {inf['maxp'][i]}, remaining {rap!r}, estimator answer "
                                            f"{(_estimator_answer(case, c) or {}).get(sid)!r}, lb={lb})"})
                    x[i] = r
                    continue
                if inf["cont"][i]:
                    U = _closed_form_max(inf, x, i)
                    if ub < lb:
                        want_lo = want_hi = lb
                    elif U >= ub + 1e-7:
                        want_lo = want_hi = ub
                    elif U <= ub - 1e-7:
                        want_lo, want_hi = max(lb, U - EPS), max(lb, U)
                    else:
                        want_lo, want_hi = max(lb, ub - EPS), ub      # razor: abstain between
                    if not (want_lo - 1e-9 <= r <= want_hi + 1e-9):
                        kind = "greedy_not_max_feasible" if r < want_lo else "greedy_above_max_feasible"
                        fails.append({"kind": kind,
                                      "detail": f"call {k}: session {sid} (station {ids[i]}) grant {r!r}, max feasible {min(U, ub)!r} "
                                                f"(lb={lb}, ub={ub}, eps={EPS}) given earlier grants {x}"})
                else:
                    levels = [I.num(a) for a in inf["allow"][i] if lb <= I.num(a) <= ub]
                    want = 0.0
                    for a in reversed(levels):
                        y = list(x)
                        y[i] = a
                        if feasible(y):
                            want = a
                            break
                    if not close(r, want):
                        fails.append({"kind": "greedy_not_largest_level",
                                      "detail": f"call {k}: session {sid} (station {ids[i]}) grant {r!r}, largest feasible level {want!r} "
                                                f"of {levels} given earlier grants {x}"})
                x[i] = r
        else:
            inc = case["inc"]
            levels = {}
            x = [0.0] * n
            for sid in order:
                i, lb, mx, rap, mn = bounds[sid]
                if inf["cont"][i]:
                    cnt = max(0, math.ceil((mx + inc / 2 - mn) / inc))
                    base = [mn + j * inc for j in range(cnt)]
                else:
                    base = [I.num(a) for a in inf["allow"][i]]
                ub = min(mx, I.num(inf["maxp"][i]), rap)
                levels[sid] = [a for a in base if lb <= a <= ub]
                x[i] = levels[sid][0] if levels[sid] else 0.0
            at = {sid: 0 for sid in order}
            queue = list(order)
            reasons = {}
            steps = 0
            while queue and steps < 100000:
                steps += 1
                sid = queue.pop(0)
                i = bounds[sid][0]
                if at[sid] + 1 < len(levels[sid]):
                    y = list(x)
                    y[i] = levels[sid][at[sid] + 1]
                    if feasible(y):
                        x = y
                        at[sid] += 1
                        queue.append(sid)
                    else:
                        reasons[sid] = "blocked"
                else:
                    reasons[sid] = "own_bound"
            for sid in order:
                i, lb, mx, rap, _mn = bounds[sid]
                own = max(lb, min(mx, I.num(inf["maxp"][i]), rap))
                if final[i] > own + 1e-9 * (1 + abs(own)):
                    fails.append({"kind": "round_robin_exceeds_own_bound",
                                  "detail": f"call {k}: session {sid} (station {ids[i]}) got {final[i]!r} > its own bound {own!r} "
                                            f"(EVSE max {inf['maxp'][i]}, remaining {rap!r}, estimator answer "
                                            f"{(_estimator_answer(case, c) or {}).get(sid)!r}, lb={lb})"})
                    break
            for sid in order:
                i = bounds[sid][0]
                if not close(final[i], x[i]):
                    fails.append({"kind": "round_robin_stop_wrong",
                                  "detail": f"call {k}: session {sid} (station {ids[i]}) got {final[i]!r}; replay of one-level-at-a-time "
                                            f"in order {order} on network.is_feasible gives {x[i]!r} ({reasons.get(sid)})"})
                    break
            c["_reasons"] = reasons
    return fails


def _est_own_features(case, obs, c, idx):
    """which class of answer the estimator gave for each session in this call, and which part of the own bound decided"""
    inf = obs["infra"]
    out = []
    ans = _estimator_answer(case, c) or {}
    active = {s["session"] for s in c["sessions"]}
    for key in ans:
        if key not in active:
            out.append("est_key:" + ("station_id" if key in set(inf["ids"]) else "not_an_active_session"))
    for s in c["sessions"]:
        i = idx[s["station"]]
        maxp, minp = I.num(inf["maxp"][i]), inf["minp"][i]
        b = ans.get(s["session"])
        if b is None:
            out.append("est_bound:missing")
            continue
        lv = None if inf["cont"][i] else [I.num(a) for a in inf["allow"][i]]
        if math.isinf(b):
            out.append("est_bound:inf")
        elif b > maxp:
            out.append("est_bound:above_evse_max")
        elif b == maxp:
            out.append("est_bound:equals_evse_max")
        elif b < 0:
            out.append("est_bound:negative")
        elif b == 0:
            out.append("est_bound:zero")
        elif 0 < b < minp:
            out.append("est_bound:below_min_pilot" + (":uninterrupted" if case["uninterrupted"] else ""))
        elif lv is not None and not any(b == a for a in lv):
            out.append("est_bound:between_levels")
        else:
            out.append("est_bound:interior")
        if c["err"] is None and "schedule" in c and s["session"] in (c.get("_own") or {}):
            p = c["schedule"][s["station"]][0]
            lb, mx = c["_own"][s["session"]]
            rap = _rap(s, inf, i, case["period"])
            if close(p, min(mx, rap)) and mx < min(maxp, rap) - 1e-9 and p > lb:
                out.append("own_bound:estimator_decided")
            elif p < min(mx, rap) - 0.011:
                out.append("own_bound:network_decided_below_estimator_bound" if b < maxp else "own_bound:network_decided")
    return out


def _multi_features(case, obs):
    out = ["multi:" + case["multi"].split(":")[0], "multi_uses:%d" % (len(case["prior_uses"]) + 1),
           "multi_algo:" + case["algo"], "multi_judged_use:" + case["mode"] + (":history" if case.get("history") else ""),
           "multi_estimator:" + ("none" if not case["estimate"] else ("rampdown_" + str(case.get("ramp_reset")) + "_per_use") if case.get("est_spec") is None
                                 else "table_stateful_same_object" if case["est_spec"].get("stateful") else "table_same_object")]
    for p in obs.get("prior") or []:
        out.append("multi_prior_use:" + p["mode"] + (":with_scheduler_error" if p["errs"] or p["sim_err"] else ""))
    prev = {st["id"]: st for st in case["prior_uses"][-1]["stations"]}
    if case["mode"] == "sim":
        busy = {e["station"] for e in case["evs"]}
    else:
        busy = {e["station"] for c in case["calls"] for e in c["evs"]}
    shared = [st for st in case["stations"] if st["id"] in prev and st["id"] in busy]
    out.append("multi_shared_busy_stations:%s" % ("0" if not shared else "1" if len(shared) == 1 else ">=2"))
    if shared:
        out.append("multi_shared_station_other_max_pilot:%s" % any(B._max_of(st["evse"]) != B._max_of(prev[st["id"]]["evse"]) for st in shared))
        out.append("multi_shared_station_class_flips:%s" % any((st["evse"]["t"] == "finite") != (prev[st["id"]]["evse"]["t"] == "finite") for st in shared))
        out.append("multi_shared_station_other_voltage:%s" % any(st["volt"] != prev[st["id"]]["volt"] for st in shared))
    out.append("multi_station_count:%s" % ("same" if len(prev) == len(case["stations"]) else "differs"))
    pu = case["prior_uses"][-1]
    if pu["mode"] == "direct" and case["mode"] == "direct":
        seen = {frozenset(e["session"] for e in c["evs"]) for c in pu["calls"]}
        out.append("multi_same_session_id_set_as_a_call_of_previous_use:%s"
                   % any(frozenset(e["session"] for e in c["evs"]) in seen and len(c["evs"]) >= 2 for c in case["calls"]))
    return out


def features(case, obs):
    spec = case.get("est_spec") or {}
    if spec.get("stateful") and case["estimate"]:
        # C07's evidence helper reads a stateless table; the stateful estimator's answers are the recorded ones
        base = {k: v for k, v in case.items() if k != "est_spec"}
        out = B.features(base, obs)
        out.append("est:True:arbitrary_estimator:stateful")
        for c in obs["calls"]:
            out.append("estimator_called:" + str(c.get("est_dict") is not None))
    else:
        out = B.features(case, obs)
    if case["estimate"] and case.get("est_spec") is not None and case["algo"] != "uncontrolled":
        idx0 = {s: i for i, s in enumerate(obs["infra"]["ids"])}
        for c in obs["calls"]:
            own = [f for f in _est_own_features(case, obs, c, idx0)
                   if spec.get("stateful") or f.startswith("own_bound:")]
            out.extend(own)
    for c in obs["calls"]:
        for sid, r in (c.get("_reasons") or {}).items():
            out.append("rr_stop:" + r)
        if c.get("order") is not None and len(c["order"]) >= 2:
            out.append("sorted_n>=2")
        if c.get("_same_view") is not None:
            out.append("interface_constraint_view==network:%s" % c["_same_view"])
    if case.get("prior_uses") is not None:
        out.extend(_multi_features(case, obs))
    for kind in case.get("history") or []:
        out.append("history:" + kind)
    if case.get("history") is not None:
        out.append("mode:direct:history")
        out.append("history_calls:%d" % len(case["calls"]))
        binds = [B._binding(case, obs, c) for c in obs["calls"]]
        for a, b in zip(binds, binds[1:]):
            out.append("history_binding:%s->%s" % (a, b))
    return out
